/-
  Helper lemmas for C04 (2): the declarative query functions of `History.lean` computed by the
  walks of the code (newest revision first, stop at the first hit) — pure list facts, no storage.
  `l` is always the list of revisions of one object NEWEST FIRST with strictly decreasing tids; the
  spec works on `l.reverse` (commit order).
-/
import ZodbModel.FileStore
namespace Proofs.FileStoreHistory
open ZodbModel ZodbModel.History
open ZodbModel.FileStore (loadBeforeGo loadSerialGo)

abbrev Desc (l : List Rev) : Prop := l.Pairwise (fun a b => b.tid < a.tid)

/-! ### naturality of the walks -/

theorem loadBeforeGo_map {α β : Type} (f : α → β) (ta : α → Nat) (tb : β → Nat)
    (hf : ∀ a, tb (f a) = ta a) (b : Nat) (e : Option Nat) (l : List α) :
    loadBeforeGo tb b e (l.map f) = (loadBeforeGo ta b e l).map (fun ae => (f ae.1, ae.2)) := by
  induction l generalizing e with
  | nil => rfl
  | cons a l ih =>
    simp only [List.map_cons, loadBeforeGo, hf]
    split
    · rfl
    · exact ih _

theorem loadSerialGo_map {α β : Type} (f : α → β) (ta : α → Nat) (tb : β → Nat)
    (hf : ∀ a, tb (f a) = ta a) (s : Nat) (l : List α) :
    loadSerialGo tb s (l.map f) = (loadSerialGo ta s l).map f := by
  induction l with
  | nil => rfl
  | cons a l ih =>
    simp only [List.map_cons, loadSerialGo, hf]
    split
    · rfl
    · split
      · rfl
      · exact ih

/-! ### the walks compute the declarative answers -/

theorem filter_ge_nil_of_lt {b : Nat} {r : Rev} {l : List Rev} (hr : r.tid < b)
    (hl : ∀ x ∈ l, x.tid < r.tid) : l.filter (fun x => decide (b ≤ x.tid)) = [] := by
  rw [List.filter_eq_nil_iff]
  intro x hx
  have := hl x hx
  simp; omega

theorem walkBefore_spec (b : Nat) (l : List Rev) (hs : Desc l) (e : Option Nat) :
    loadBeforeGo Rev.tid b e l =
      (l.find? (fun r => decide (r.tid < b))).map fun r =>
        (r, match (l.filter (fun x => decide (b ≤ x.tid))).getLast? with
            | some x => some x.tid
            | none => e) := by
  induction l generalizing e with
  | nil => rfl
  | cons r l ih =>
    obtain ⟨h1, h2⟩ := List.pairwise_cons.1 hs
    simp only [loadBeforeGo, List.find?_cons]
    by_cases hr : r.tid < b
    · have hnil := filter_ge_nil_of_lt hr h1
      have : ¬ b ≤ r.tid := by omega
      simp [hr, this, hnil]
    · have hge : b ≤ r.tid := by omega
      simp only [hr, if_false, decide_false, ih h2, List.filter_cons, hge, decide_true, if_true,
        List.getLast?_cons]
      congr 1
      funext x
      cases (l.filter (fun x => decide (b ≤ x.tid))).getLast? <;> rfl

theorem find_reverse_unique {p : Rev → Bool} {l : List Rev}
    (hu : ∀ a ∈ l, ∀ b ∈ l, p a = true → p b = true → a = b) :
    l.reverse.find? p = l.find? p := by
  induction l with
  | nil => rfl
  | cons r l ih =>
    rw [List.reverse_cons, List.find?_append, ih (fun a ha b hb => hu a (List.mem_cons_of_mem _ ha) b
      (List.mem_cons_of_mem _ hb))]
    simp only [List.find?_cons, List.find?_nil]
    cases hr : p r with
    | false => simp
    | true =>
      cases hf : l.find? p with
      | none => simp
      | some x =>
        have hx := List.mem_of_find?_eq_some hf
        have hpx := List.find?_some hf
        have := hu r List.mem_cons_self x (List.mem_cons_of_mem _ hx) hr hpx
        simp [this]

theorem walkSerial_spec (s : Nat) (l : List Rev) (hs : Desc l) :
    loadSerialGo Rev.tid s l = l.find? (fun r => r.tid == s) := by
  induction l with
  | nil => rfl
  | cons r l ih =>
    obtain ⟨h1, h2⟩ := List.pairwise_cons.1 hs
    simp only [loadSerialGo, List.find?_cons]
    by_cases hr : r.tid = s
    · simp [hr]
    · have : (r.tid == s) = false := by simp [hr]
      simp only [hr, if_false, this]
      split
      · symm
        rw [List.find?_eq_none]
        intro x hx
        have := h1 x hx
        simp; omega
      · exact ih h2

theorem desc_unique_tid {l : List Rev} (hs : Desc l) :
    ∀ a ∈ l, ∀ b ∈ l, a.tid = b.tid → a = b := by
  induction l with
  | nil => simp
  | cons r l ih =>
    obtain ⟨h1, h2⟩ := List.pairwise_cons.1 hs
    intro a ha b hb hab
    rcases List.mem_cons.1 ha with ha | ha
    · rcases List.mem_cons.1 hb with hb | hb
      · rw [ha, hb]
      · have := h1 b hb; rw [ha] at hab; omega
    · rcases List.mem_cons.1 hb with hb | hb
      · have := h1 a ha; rw [hb] at hab; omega
      · exact ih h2 a ha b hb hab

/-! ### every declarative query, given the revisions newest first -/

section
variable {h : History} {oid : Nat} {l : List Rev}

theorem loadBefore_walk (hl : revs h oid = l.reverse) (hs : Desc l) (b : Nat) :
    History.loadBefore h oid b =
      if l.isEmpty then .error .keyError
      else match loadBeforeGo Rev.tid b none l with
        | none => .ok none
        | some (r, e) =>
          match r.record.data with
          | none => .error .keyError
          | some d => .ok (some (d, r.tid, e)) := by
  unfold History.loadBefore
  simp only [hl, List.isEmpty_reverse, List.filter_reverse, List.getLast?_reverse, List.head?_reverse,
    List.head?_filter, walkBefore_spec b l hs none]
  split
  · rfl
  · cases l.find? (fun r => decide (r.tid < b)) with
    | none => rfl
    | some r =>
      simp only [Option.map_some]
      cases r.record.data with
      | none => rfl
      | some d =>
        simp only
        cases (l.filter (fun x => decide (b ≤ x.tid))).getLast? <;> rfl

theorem load_walk (hl : revs h oid = l.reverse) :
    History.load h oid =
      match l.head? with
      | none => .error .keyError
      | some r =>
        match r.record.data with
        | none => .error .keyError
        | some d => .ok (d, r.tid) := by
  unfold History.load
  simp only [hl, List.getLast?_reverse]
  rfl

theorem getTid_walk (hl : revs h oid = l.reverse) :
    History.getTid h oid =
      match l.head? with
      | none => .error .keyError
      | some r => if r.record.data.isNone && r.record.dataTxn.isNone then .error .keyError else .ok r.tid := by
  unfold History.getTid
  simp only [hl, List.getLast?_reverse]
  rfl

theorem loadSerial_walk (hl : revs h oid = l.reverse) (hs : Desc l) (s : Nat) :
    History.loadSerial h oid s =
      match loadSerialGo Rev.tid s l with
      | none => .error .keyError
      | some r =>
        match r.record.data with
        | none => .error .keyError
        | some d => .ok d := by
  unfold History.loadSerial
  have hu : ∀ a ∈ l, ∀ b ∈ l, (a.tid == s) = true → (b.tid == s) = true → a = b := by
    intro a ha b hb h1 h2
    simp only [beq_iff_eq] at h1 h2
    exact desc_unique_tid hs a ha b hb (by omega)
  simp only [hl, find_reverse_unique hu, walkSerial_spec s l hs]
  rfl

theorem history_walk (hl : revs h oid = l.reverse) (n : Nat) :
    History.history h oid n =
      if l.isEmpty then .error .keyError else .ok ((l.take n).map Rev.entry) := by
  unfold History.history
  simp only [hl, List.isEmpty_reverse, List.reverse_reverse]

end

/-! ### sorted lists of transactions: iterator and scans -/

theorem filter_range_sorted (l : List Txn) (hs : l.Pairwise (fun a b => a.tid < b.tid)) (a b : Nat) :
    l.filter (fun t => decide (a ≤ t.tid) && decide (t.tid ≤ b)) =
      (l.dropWhile (fun t => decide (t.tid < a))).takeWhile (fun t => decide (t.tid ≤ b)) := by
  induction l with
  | nil => rfl
  | cons t l ih =>
    obtain ⟨h1, h2⟩ := List.pairwise_cons.1 hs
    simp only [List.filter_cons, List.dropWhile_cons]
    by_cases ha : t.tid < a
    · have : ¬ a ≤ t.tid := by omega
      simp [ha, this, ih h2]
    · have hge : a ≤ t.tid := by omega
      -- from here on nothing is dropped any more
      have hd : l.dropWhile (fun t => decide (t.tid < a)) = l := by
        cases l with
        | nil => rfl
        | cons t' l' =>
          have := h1 t' List.mem_cons_self
          simp only [List.dropWhile_cons]
          rw [if_neg (by simp; omega)]
      simp only [ha, decide_false, hge, decide_true, Bool.true_and, Bool.false_eq_true, if_false,
        List.takeWhile_cons]
      by_cases hb : t.tid ≤ b
      · simp only [hb, decide_true, if_true]
        rw [ih h2, hd]
      · simp only [hb, decide_false, Bool.false_eq_true, if_false]
        rw [List.filter_eq_nil_iff]
        intro x hx
        have := h1 x hx
        simp; omega

/-! ### appending transactions (used by the snapshot properties) -/

theorem revs_append (h1 h2 : History) (oid : Nat) : revs (h1 ++ h2) oid = revs h1 oid ++ revs h2 oid := by
  unfold revs; exact List.filterMap_append

theorem revs_tid_mem {h : History} {oid : Nat} {r : Rev} (hr : r ∈ revs h oid) : ∃ t ∈ h, r.tid = t.tid := by
  unfold revs at hr
  obtain ⟨t, ht, hr⟩ := List.mem_filterMap.1 hr
  cases hc : t.recOf oid with
  | none => simp [hc] at hr
  | some rec =>
    simp only [hc, Option.map_some, Option.some.injEq] at hr
    exact ⟨t, ht, by rw [← hr]⟩

/-- `stateAt_mono`: appending transactions with tid ≥ b never changes the snapshot "before b" -/
theorem stateAt_mono (h1 h2 : History) (b oid : Nat) (hb : ∀ t ∈ h2, b ≤ t.tid) :
    stateAt (h1 ++ h2) b oid = stateAt h1 b oid := by
  have hf : (revs h2 oid).filter (fun r => decide (r.tid < b)) = [] := by
    rw [List.filter_eq_nil_iff]
    intro r hr
    obtain ⟨t, ht, e⟩ := revs_tid_mem hr
    have := hb t ht
    simp; omega
  unfold stateAt History.loadBefore
  simp only [revs_append, List.filter_append, hf, List.append_nil]
  cases h1r : revs h1 oid with
  | nil =>
    simp only [List.nil_append, List.filter_nil, List.getLast?_nil, List.isEmpty_nil, if_true]
    by_cases he : (revs h2 oid).isEmpty = true
    · rw [if_pos he]
    · rw [if_neg he]
  | cons x l =>
    simp only [List.cons_append, List.isEmpty_cons, Bool.false_eq_true, if_false]
    cases ((x :: l).filter fun r => decide (r.tid < b)).getLast? with
    | none => rfl
    | some r =>
      simp only
      cases r.record.data <;> rfl

end Proofs.FileStoreHistory
