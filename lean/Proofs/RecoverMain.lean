/-
  Helper lemmas for C17, recovery part: the main loop on an image that contains encoded
  transactions — one step (`loop_step`), the layout of `encStore`, and the run over a well-formed
  prefix (`recover_prefix`, `recover_identity`).  Core Lean only.
-/
import Proofs.RecoverParse
namespace Proofs.Recover
open ZodbModel ZodbModel.Copy ZodbModel.Recover Proofs.Copy

/-! ### layout of an encoded store -/

theorem encStore_append (newer S : Store) : ∃ rest, encStore (newer ++ S) = encStore S ++ rest := by
  induction newer with
  | nil => exact ⟨[], by simp⟩
  | cons n newer ih =>
    obtain ⟨rest, h⟩ := ih
    exact ⟨rest ++ encTxn (newer ++ S) n, by simp [encStore, h, List.append_assoc]⟩

theorem encStore_magic (S : Store) : ∃ rest, encStore S = magic ++ rest := by
  have := encStore_append S []
  simpa [encStore] using this

theorem at_txn (older : Store) (t : Txn) (rest : Bytes) :
    At (encStore (t :: older) ++ rest) (storeSize older) (encTxn older t) := by
  refine ⟨encStore older, rest, by simp [encStore], encStore_length older⟩

theorem at_recs_in_txn (older : Store) (t : Txn) :
    At (encTxn older t) (hdrLen t) (encRecs older (storeSize older) t.recs) := by
  refine ⟨be 8 t.tid ++ be 8 (tlen t) ++ [t.status] ++ be 2 t.user.length ++ be 2 t.desc.length ++
    be 2 t.ext.length ++ t.user ++ t.desc ++ t.ext, be 8 (tlen t), by simp [encTxn], ?_⟩
  simp only [List.length_append, be_length, List.length_cons, List.length_nil, hdrLen]

theorem at_rec_in_recs (older : Store) (tpos : Nat) (rs : List Rec) (i : Nat) (hi : i < rs.length) :
    At (encRecs older tpos rs) (recsLen (rs.take i)) (encRec older tpos rs[i]) := by
  induction rs generalizing i with
  | nil => simp at hi
  | cons r rs ih =>
    cases i with
    | zero =>
      exact ⟨[], encRecs older tpos rs, by simp [encRecs], by simp [recsLen]⟩
    | succ j =>
      obtain ⟨pre, post, h1, h2⟩ := ih j (by simpa using hi)
      refine ⟨encRec older tpos r ++ pre, post, ?_, ?_⟩
      · simp only [encRecs, List.getElem_cons_succ]
        rw [h1]; simp [List.append_assoc]
      · simp [recsLen, encRec_length, h2]

theorem length_le_recsLen (rs : List Rec) : rs.length ≤ recsLen rs := by
  induction rs with
  | nil => simp [recsLen]
  | cons r rs ih => simp only [List.length_cons, recsLen]; have := recLen_ge r; omega

theorem length_le_storeSize (S : Store) : S.length ≤ storeSize S := by
  induction S with
  | nil => simp [storeSize]
  | cons t S ih => simp only [List.length_cons, storeSize]; omega

/-- when the whole encoded store is in the image, every valid pointer has its chain in the image -/
theorem chainAt_of_enc {S : Store} (hok : StoreOK S) (henc : StoreEnc S) :
    ∀ {F : Bytes}, (∃ rest, F = encStore S ++ rest) → ∀ {l i : Nat} {t' : Txn} {o' : Store},
      txnAt S l = some (t', o') → i < t'.recs.length → ChainAt F S l i := by
  induction S with
  | nil => intro F _ l i t' o' h; simp [txnAt] at h
  | cons t older ih =>
    intro F hF l i t' o' hat hi
    obtain ⟨rest, hF⟩ := hF
    have hokO : StoreOK older := hok.1
    have hencO : StoreEnc older :=
      ⟨by have := henc.1; simp only [storeSize] at this; omega,
       fun x hx => henc.2 x (List.mem_cons_of_mem _ hx)⟩
    have hFO : ∃ rest', F = encStore older ++ rest' :=
      ⟨encTxn older t ++ rest, by rw [hF]; simp [encStore, List.append_assoc]⟩
    simp only [txnAt] at hat
    simp only [ChainAt]
    split at hat
    · rename_i hl
      simp only [Option.some.injEq, Prod.mk.injEq] at hat
      obtain ⟨rfl, rfl⟩ := hat
      rw [if_pos hl]
      have hr : t.recs[i]? = some t.recs[i] := List.getElem?_eq_getElem hi
      simp only [hr]
      refine ⟨?_, (henc.2 t List.mem_cons_self).2.2.2.2.2 _ (List.getElem_mem hi), hencO.1, ?_⟩
      · rw [hF]
        exact ((at_txn older t rest).trans (at_recs_in_txn older t)).trans
          (at_rec_in_recs older (storeSize older) t.recs i hi)
      · have hrec := (hok.2.2 t.recs[i] (List.getElem_mem hi)).2
        cases hb : t.recs[i].body with
        | full d => trivial
        | uncreate => trivial
        | back l' i' =>
          simp only [hb] at hrec ⊢
          obtain ⟨t'', o'', h1, h2⟩ := hrec
          exact ih hokO hencO hFO h1 (by have := lastIdx_lt h2; simpa [oids] using this)
    · rename_i hl
      rw [if_neg hl]
      exact ih hokO hencO hFO hat hi

/-! ### one iteration of the main loop at an intact transaction -/

theorem loop_step {F : Bytes} {fuel p : Nat} {older : Store} {t : Txn} {it : ITxn}
    {ltid ts : Option Nat} {D : Store}
    (hat : At F p (encTxn older t)) (hp : p = storeSize older) (ht : TxnEnc t)
    (hsz : storeSize (t :: older) < 2 ^ 64) (hrecs : ∀ r ∈ t.recs, RecAtOK F older r)
    (hlt : ∀ l, ltid = some l → l ≤ t.tid) (hts : ∀ s, ts = some s → s < t.tid)
    (hit : iterTxn older t = some it) :
    recoverLoop F (fuel + 1) p ltid ts D =
      (match restoreRecs D it.recs with
       | .ok xs => recoverLoop F fuel (p + tlen t + 8) (some t.tid) (some t.tid)
                     (⟨t.tid, t.status, t.user, t.desc, t.ext, xs⟩ :: D)
       | .error _ =>
         (match scan F (F.length + 1) (p + tlen t + 8) with
          | none => Outcome.fuel
          | some p' => recoverLoop F fuel p' (some t.tid) (some t.tid) D)) := by
  have hszO : storeSize older < 2 ^ 64 := by simp only [storeSize] at hsz; omega
  have htl : tlen t < 2 ^ 64 := by simp only [storeSize] at hsz; omega
  have hp4 := storeSize_ge older
  obtain ⟨hirecs, -⟩ := iterTxn_recs hit
  obtain ⟨-, -, -, -, -, -, -, -, -, f10, -, f12⟩ := encTxn_fields hat ht htl
  have hfix : fixTid ts t.tid = (t.tid, some t.tid) := by
    unfold fixTid
    cases ts with
    | none => rfl
    | some s => have := hts s rfl; simp only; rw [if_neg (by omega)]
  have hrd := readRecs_enc (F := F) (D := D) (tpos := p) (tend := p + tlen t) (by omega) hszO
    t.recs (p + hdrLen t) it.recs (hp ▸ f10) hrecs (by simp only [tlen]; omega) hirecs
    (F.length + 1) (by have := length_le_recsLen t.recs; simp only [tlen] at f12; omega)
  simp only [recoverLoop]
  rw [if_neg (by omega), readTxnHeader_enc hat ht htl hlt]
  simp only [hrd, hfix]
  cases restoreRecs D it.recs with
  | ok xs => rfl
  | error e => rfl

/-! ### the run over a well-formed prefix -/

/-- a well-formed data file: record-level well-formed and encodable -/
def WFStore (S : Store) : Prop := StoreOK S ∧ StoreEnc S

def lastTid : Store → Option Nat
  | [] => none
  | t :: _ => some t.tid

theorem wfStore_tail {t : Txn} {older : Store} (h : WFStore (t :: older)) : WFStore older :=
  ⟨h.1.1, by have := h.2.1; simp only [storeSize] at this; omega,
   fun x hx => h.2.2 x (List.mem_cons_of_mem _ hx)⟩

theorem wfStore_suffix {newer S : Store} (h : WFStore (newer ++ S)) : WFStore S := by
  induction newer with
  | nil => exact h
  | cons n newer ih => exact ih (wfStore_tail h)

/-- records of a transaction of a well-formed store whose image is in `F` are readable -/
theorem recAtOK_of_enc {t : Txn} {older : Store} (h : WFStore (t :: older)) {F : Bytes}
    (hF : ∃ rest, F = encStore older ++ rest) : ∀ r ∈ t.recs, RecAtOK F older r := by
  intro r hr
  refine ⟨(h.2.2 t List.mem_cons_self).2.2.2.2.2 r hr, ?_⟩
  have hrec := (h.1.2.2 r hr).2
  cases hb : r.body with
  | full d => trivial
  | uncreate => trivial
  | back l i =>
    simp only [hb] at hrec ⊢
    obtain ⟨t', o', h1, h2⟩ := hrec
    exact chainAt_of_enc (wfStore_tail h).1 (wfStore_tail h).2 hF h1
      (by have := lastIdx_lt h2; simpa [oids] using this)

/-- the main loop, started at the end of the image of `older` with the output storage `D` that
    iterates like `older`, runs through the images of the transactions `later` (oldest first) and
    arrives at the end of the image of `later.reverse ++ older` with an output storage that
    iterates like that store. -/
theorem run_prefix {F : Bytes} :
    ∀ (later : List Txn) (older D : Store) (rs : List ITxn) (fuel : Nat),
      WFStore (later.reverse ++ older) → (∃ rest, F = encStore (later.reverse ++ older) ++ rest) →
      SimS older rs → StrongN rs → SimS D rs →
      ∃ D' rs', recoverLoop F (fuel + later.length) (storeSize older) (lastTid older) (lastTid older) D =
          recoverLoop F fuel (storeSize (later.reverse ++ older)) (lastTid (later.reverse ++ older))
            (lastTid (later.reverse ++ older)) D' ∧
        SimS (later.reverse ++ older) rs' ∧ SimS D' rs' := by
  intro later
  induction later with
  | nil => intro older D rs fuel _ _ h1 _ h3; exact ⟨D, rs, rfl, h1, h3⟩
  | cons t later ih =>
    intro older D rs fuel hwf hF hsim hstr hsimD
    have hS : (t :: later).reverse ++ older = later.reverse ++ (t :: older) := by simp
    rw [hS] at hwf hF ⊢
    have hwf1 : WFStore (t :: older) := wfStore_suffix hwf
    obtain ⟨rest, hF⟩ := hF
    obtain ⟨rest1, hrest1⟩ := encStore_append later.reverse (t :: older)
    have hF1 : F = encStore (t :: older) ++ (rest1 ++ rest) := by
      rw [hF, hrest1, List.append_assoc]
    -- what the iterator yields for `t`, with strong hints
    obtain ⟨rs1, hsim1, hstr1, -⟩ := storeOK_iter hwf1.1
    cases rs1 with
    | nil => simp [SimS] at hsim1
    | cons it rs0 =>
      obtain ⟨hsim0, hit⟩ := hsim1
      -- `SimS older` determines the iteration
      have huniq : ∀ (S : Store) (a b : List ITxn), SimS S a → SimS S b → a = b := by
        intro S
        induction S with
        | nil => intro a b ha hb; cases a <;> cases b <;> simp_all [SimS]
        | cons x S ihS =>
          intro a b ha hb
          cases a with
          | nil => simp [SimS] at ha
          | cons a0 a =>
            cases b with
            | nil => simp [SimS] at hb
            | cons b0 b =>
              have h1 := ihS a b ha.1 hb.1
              have h2 : some a0 = some b0 := ha.2.symm.trans hb.2
              simp only [Option.some.injEq] at h2
              rw [h1, h2]
      have hrs : rs0 = rs := huniq older rs0 rs hsim0 hsim
      subst hrs
      obtain ⟨xs, hxs, hirs⟩ := restoreRecs_simS hsimD hstr1.2
      have hstep := loop_step (F := F) (fuel := fuel + later.length) (p := storeSize older)
        (ltid := lastTid older) (ts := lastTid older) (D := D)
        (hF1 ▸ at_txn older t (rest1 ++ rest)) rfl (hwf1.2.2 t List.mem_cons_self) hwf1.2.1
        (recAtOK_of_enc hwf1 ⟨encTxn older t ++ (rest1 ++ rest), by
          rw [hF1]; simp [encStore, List.append_assoc]⟩)
        (by
          intro l hl
          cases older with
          | nil => simp [lastTid] at hl
          | cons o older' =>
            simp only [lastTid, Option.some.injEq] at hl
            have := hwf1.1.2.1 o List.mem_cons_self
            omega)
        (by
          intro l hl
          cases older with
          | nil => simp [lastTid] at hl
          | cons o older' =>
            simp only [lastTid, Option.some.injEq] at hl
            have := hwf1.1.2.1 o List.mem_cons_self
            omega)
        hit
      rw [hxs] at hstep
      simp only at hstep
      have hsimD1 : SimS (⟨t.tid, t.status, t.user, t.desc, t.ext, xs⟩ :: D) (it :: rs0) := by
        refine ⟨hsimD, ?_⟩
        obtain ⟨-, h1, h2, h3, h4, h5⟩ := iterTxn_recs hit
        simp only [iterTxn, hirs]
        cases it
        simp_all
      obtain ⟨D', rs', hrun, hs1, hs2⟩ := ih (t :: older) _ (it :: rs0) fuel hwf ⟨rest, hF⟩
        ⟨hsim0, hit⟩ hstr1 hsimD1
      refine ⟨D', rs', ?_, hs1, hs2⟩
      rw [show fuel + (t :: later).length = fuel + later.length + 1 by simp; omega, hstep]
      simp only [storeSize, lastTid] at hrun
      rw [show storeSize older + tlen t + 8 = storeSize older + (tlen t + 8) by omega]
      exact hrun

theorem magic_ok (S : Store) (g : Bytes) : slice (encStore S ++ g) 0 4 = magic := by
  obtain ⟨rest, h⟩ := encStore_magic S
  rw [h]
  simp [slice, magic]

/-- the state the main loop reaches after the image of a well-formed store `S` -/
theorem recover_reaches {S : Store} (h : WFStore S) (g : Bytes) :
    ∃ D rs fuel, recover (encStore S ++ g) =
        recoverLoop (encStore S ++ g) fuel (storeSize S) (lastTid S) (lastTid S) D ∧
      SimS S rs ∧ SimS D rs ∧ 1 ≤ fuel := by
  have hlen : S.length ≤ (encStore S ++ g).length := by
    have := length_le_storeSize S
    simp only [List.length_append, encStore_length]; omega
  obtain ⟨D, rs, hrun, h1, h2⟩ := run_prefix (F := encStore S ++ g) S.reverse [] [] []
    ((encStore S ++ g).length + 1 - S.length) (by simpa using h) ⟨g, by simp⟩ trivial trivial trivial
  simp only [List.reverse_reverse, List.append_nil, List.length_reverse] at hrun h1
  have e1 : storeSize ([] : Store) = 4 := rfl
  have e2 : lastTid ([] : Store) = none := rfl
  rw [e1, e2] at hrun
  refine ⟨D, rs, (encStore S ++ g).length + 1 - S.length, ?_, h1, h2, by omega⟩
  unfold recover
  rw [if_neg (by simp [magic_ok])]
  rw [← hrun]
  congr 1
  omega

/-- `recover_prefix`: whatever bytes follow the image of a well-formed store, the run ends, and the
    output storage contains — as its oldest part — a storage that iterates exactly like that store -/
theorem recover_prefix {S : Store} (h : WFStore S) (g : Bytes) :
    ∃ D' newer D rs, recover (encStore S ++ g) = .done D' ∧ D' = newer ++ D ∧
      iterate S = some rs ∧ iterate D = some rs := by
  obtain ⟨D, rs, fuel, hrec, h1, h2, -⟩ := recover_reaches h g
  cases hout : recover (encStore S ++ g) with
  | fuel => exact absurd hout (recover_ne_fuel _)
  | notFS =>
    rw [hrec] at hout
    exact absurd hout (recoverLoop_ne_notFS _ _ _ _ _ _)
  | done D' =>
    rw [hrec] at hout
    obtain ⟨newer, hn⟩ := recoverLoop_suffix _ _ _ _ _ _ _ hout
    exact ⟨D', newer, D, rs.reverse, rfl, hn, simS_iterate h1, simS_iterate h2⟩

/-- `recover_identity`: on an undamaged file the output storage iterates exactly like the input -/
theorem recover_identity {S : Store} (h : WFStore S) :
    ∃ D rs, recover (encStore S) = .done D ∧ iterate S = some rs ∧ iterate D = some rs := by
  obtain ⟨D, rs, fuel, hrec, h1, h2, hf⟩ := recover_reaches h []
  simp only [List.append_nil] at hrec
  refine ⟨D, rs.reverse, ?_, simS_iterate h1, simS_iterate h2⟩
  rw [hrec]
  obtain ⟨f, rfl⟩ : ∃ f, fuel = f + 1 := ⟨fuel - 1, by omega⟩
  have h4 := storeSize_ge S
  simp only [recoverLoop]
  rw [if_neg (by omega)]
  have : readTxnHeader (encStore S) (storeSize S) (lastTid S) = .eof := by
    unfold readTxnHeader
    rw [if_pos (by rw [encStore_length]; omega)]
  rw [this]

end Proofs.Recover
