/-
  Helper lemmas for C16, part 3: the machine (`step`) — the base is never touched, push/pop, `store`
  compares with the merged current serial, `new_oid` returns a fresh oid for every draw stream, and
  the invariant (`Inv`) that makes TidOrdered a theorem for clock-generated tids.
-/
import Proofs.DemoStore
namespace Proofs.Demo
open ZodbModel ZodbModel.Demo

/-! ### the base is never modified -/

def Op.isStack : Op → Bool
  | .push _ => true
  | .pushWith _ _ => true
  | .pop => true
  | _ => false

/-- a call that is not push/pop yields a demo storage over the very same base -/
theorem step_base_of_not_stack (b : Store) (c : Layer) (ds : DState) (op : Op)
    (h : Op.isStack op = false) : ∃ c' ds', (step (.demo b c ds) op).1 = .demo b c' ds' := by
  cases op with
  | begin x tid now => simp only [step]; repeat' split
                       all_goals exact ⟨_, _, rfl⟩
  | store x o ser d => simp only [step]; repeat' split
                       all_goals exact ⟨_, _, rfl⟩
  | delete x o ser => exact ⟨_, _, rfl⟩
  | vote x => exact ⟨_, _, rfl⟩
  | finish x => simp only [step]; repeat' split
                all_goals exact ⟨_, _, rfl⟩
  | abort x => simp only [step]; repeat' split
               all_goals exact ⟨_, _, rfl⟩
  | undo x u => simp only [step]; repeat' split
                all_goals exact ⟨_, _, rfl⟩
  | checkCurrent x o ser => exact ⟨_, _, rfl⟩
  | pack P gc =>
    simp only [step]
    repeat' split
    all_goals exact ⟨_, _, rfl⟩
  | newOid draws => simp only [step]; repeat' split
                    all_goals exact ⟨_, _, rfl⟩
  | push d => simp [Op.isStack] at h
  | pushWith cu d => simp [Op.isStack] at h
  | pop => simp [Op.isStack] at h

theorem step_push (s : Store) (d : Oid) : (step s (.push d)).1 = newDemo s false true d := by
  cases s <;> rfl

theorem step_pushWith (s : Store) (cu : Bool) (d : Oid) :
    (step s (.pushWith cu d)).1 = newDemo s cu false d := by
  cases s <;> rfl

theorem step_pop (b : Store) (c : Layer) (ds : DState) : step (.demo b c ds) .pop = (b, .ok) := rfl

/-- no API call made on a demo storage changes the storage below it: the result is a demo storage
    over the very same base, or (`pop`) the base itself, or (`push`) a new demo storage over the
    unchanged demo storage -/
theorem step_base (b : Store) (c : Layer) (ds : DState) (op : Op) :
    (∃ c' ds', (step (.demo b c ds) op).1 = .demo b c' ds') ∨
    (step (.demo b c ds) op).1 = b ∨
    (∃ c' ds', (step (.demo b c ds) op).1 = .demo (.demo b c ds) c' ds') := by
  by_cases h : Op.isStack op = false
  · left; exact step_base_of_not_stack b c ds op h
  · cases op <;> simp [Op.isStack] at h
    · right; right; exact ⟨_, _, step_push _ _⟩
    · right; right; exact ⟨_, _, step_pushWith _ _ _⟩
    · right; left; rfl

/-- a whole history without push/pop leaves the base as it was -/
theorem run_base (b : Store) (ops : List Op) (h : ∀ op ∈ ops, Op.isStack op = false) :
    ∀ (c : Layer) (ds : DState), ∃ c' ds', run (.demo b c ds) ops = .demo b c' ds' := by
  induction ops with
  | nil => intro c ds; exact ⟨c, ds, rfl⟩
  | cons op ops ih =>
    intro c ds
    obtain ⟨c1, ds1, h1⟩ := step_base_of_not_stack b c ds op (h op (by simp))
    obtain ⟨c2, ds2, h2⟩ := ih (fun o ho => h o (by simp [ho])) c1 ds1
    refine ⟨c2, ds2, ?_⟩
    simp only [run, List.foldl_cons] at h2 ⊢
    rw [h1]; exact h2

/-- push, any history without further push/pop, pop: the storage pushed upon is returned unchanged -/
theorem push_run_pop (s : Store) (d : Oid) (ops : List Op) (h : ∀ op ∈ ops, Op.isStack op = false) :
    run s ([.push d] ++ ops ++ [.pop]) = s := by
  simp only [run, List.foldl_append, List.foldl_cons, List.foldl_nil]
  rw [step_push]
  obtain ⟨c', ds', h'⟩ := run_base s ops h (Layer.empty false) ⟨[], [], d, none, true⟩
  simp only [run, newDemo] at h' ⊢
  rw [h']
  rfl

/-! ### `store` compares with the merged current serial -/

theorem loadCurrentR_nil : loadCurrentR [] = .error .keyError := by
  simp [loadCurrentR, loadBeforeR_nil, currentOf]

theorem loadCurrentR_of_last_some {m : List Rev} {tl : Tid} {d : Data}
    (hm : ∀ x ∈ m, x.1 < maxtid) (hl : m.getLast? = some (tl, some d)) :
    loadCurrentR m = .ok (d, tl) := by
  have hne : m ≠ [] := by intro h; rw [h] at hl; simp at hl
  have he : m.isEmpty = false := by cases m <;> simp_all
  unfold loadCurrentR loadBeforeR
  rw [he, before_eq_self hm, hl]
  simp [currentOf]

theorem loadCurrentR_of_last_none {m : List Rev} {tl : Tid}
    (hm : ∀ x ∈ m, x.1 < maxtid) (hl : m.getLast? = some (tl, none)) :
    loadCurrentR m = .error .keyError := by
  have hne : m ≠ [] := by intro h; rw [h] at hl; simp at hl
  have he : m.isEmpty = false := by cases m <;> simp_all
  unfold loadCurrentR loadBeforeR
  rw [he, before_eq_self hm, hl]
  simp [currentOf]

theorem serialOk_of_last {c : Layer} {o : Oid} {rb : List Rev} {tl : Tid} {dl : Option Data}
    (hl : (rb ++ c.revs o).getLast? = some (tl, dl)) : c.serialOk o tl = true := by
  unfold Layer.serialOk
  cases hc : (c.revs o).getLast? with
  | none => rfl
  | some y =>
    rw [List.getLast?_append, hc] at hl
    simp at hl
    subst hl
    simp

/-- `DemoStorage.store` inside the transaction in progress: accepted iff the serial is the tid of the
    current revision of the *merged* history (any serial for an oid unknown to both layers) -/
theorem store_conflict_merged (b : Store) (c : Layer) (ds : DState) (x : Nat) (o : Oid) (ser : Tid)
    (d : Data) (htxn : ds.txn = some x) (hst : c.staged.isSome = true)
    (hok : OidOK (.demo b c ds) o) (hm : ∀ y ∈ (Store.demo b c ds).revs o, y.1 < maxtid) :
    ((Store.demo b c ds).revs o = [] → (step (.demo b c ds) (.store x o ser d)).2 = .ok) ∧
    (∀ tl dl, ((Store.demo b c ds).revs o).getLast? = some (tl, some dl) →
      (ser = tl → (step (.demo b c ds) (.store x o ser d)).2 = .ok) ∧
      (ser ≠ tl → (step (.demo b c ds) (.store x o ser d)).2 = .err .conflict)) := by
  obtain ⟨st, hst'⟩ := Option.isSome_iff_exists.1 hst
  obtain ⟨tid, recs⟩ := st
  have hload := store_load _ o hok
  constructor
  · intro hnil
    have hrc : c.revs o = [] := by
      rw [revs_demo] at hnil; exact (List.append_eq_nil_iff.1 hnil).2
    simp only [step, htxn, ne_eq, not_true_eq_false, if_false, hload, hnil, loadCurrentR_nil]
    simp [Layer.store, hst', Layer.serialOk, hrc]
  · intro tl dl hl
    have hcur := loadCurrentR_of_last_some hm hl
    constructor
    · intro hs
      subst hs
      have hso : c.serialOk o ser = true := by
        rw [revs_demo] at hl; exact serialOk_of_last hl
      simp only [step, htxn, ne_eq, not_true_eq_false, if_false, hload, hcur]
      simp [Layer.store, hst', hso]
    · intro hs
      simp only [step, htxn, ne_eq, not_true_eq_false, if_false, hload, hcur]
      have : ¬ tl = ser := fun h => hs h.symm
      simp [this]

/-! ### `new_oid` -/

theorem drawLoop_some {free : Oid → Bool} :
    ∀ (draws : List Oid) (cand : Oid) (used : Nat) {o nxt : Oid} {u : Nat},
      drawLoop free cand draws used = (some o, nxt, u) →
        free o = true ∧ nxt = o + 1 ∧ (o = cand ∨ o ∈ draws) := by
  intro draws
  induction draws with
  | nil =>
    intro cand used o nxt u h
    unfold drawLoop at h
    split at h
    · rename_i hf
      simp only [Prod.mk.injEq, Option.some.injEq] at h
      obtain ⟨h1, h2, _⟩ := h
      subst h1
      exact ⟨hf, h2.symm, Or.inl rfl⟩
    · simp at h
  | cons d ds ih =>
    intro cand used o nxt u h
    unfold drawLoop at h
    split at h
    · rename_i hf
      simp only [Prod.mk.injEq, Option.some.injEq] at h
      obtain ⟨h1, h2, _⟩ := h
      subst h1
      exact ⟨hf, h2.symm, Or.inl rfl⟩
    · obtain ⟨h1, h2, h3⟩ := ih d (used + 1) h
      refine ⟨h1, h2, Or.inr ?_⟩
      rcases h3 with h3 | h3
      · simp [h3]
      · simp [h3]

/-- if some candidate of the stream is free, an oid is returned (the loop ends) -/
theorem drawLoop_complete {free : Oid → Bool} :
    ∀ (draws : List Oid) (cand : Oid) (used : Nat),
      (free cand = true ∨ ∃ d ∈ draws, free d = true) →
        ∃ o nxt u, drawLoop free cand draws used = (some o, nxt, u) := by
  intro draws
  induction draws with
  | nil =>
    intro cand used h
    rcases h with h | ⟨d, hd, _⟩
    · exact ⟨cand, cand + 1, used, by unfold drawLoop; simp [h]⟩
    · simp at hd
  | cons d ds ih =>
    intro cand used h
    by_cases hf : free cand = true
    · exact ⟨cand, cand + 1, used, by unfold drawLoop; simp [hf]⟩
    · have h' : free d = true ∨ ∃ d' ∈ ds, free d' = true := by
        rcases h with h | ⟨d', hd', hfd⟩
        · exact absurd h hf
        · rcases List.mem_cons.1 hd' with h1 | h1
          · left; rw [← h1]; exact hfd
          · right; exact ⟨d', h1, hfd⟩
      obtain ⟨o, nxt, u, hr⟩ := ih d (used + 1) h'
      exact ⟨o, nxt, u, by unfold drawLoop; simp [hf, hr]⟩

/-- the oid `new_oid` returns is not in the issued set and `load_current` fails for it in the changes
    and in the base; it is recorded as issued -/
theorem newOid_fresh (b : Store) (c : Layer) (ds : DState) (draws : List Oid) (o : Oid) (used : Nat)
    (h : (step (.demo b c ds) (.newOid draws)).2 = .oid (some o) used) :
    o ∉ ds.issued ∧ (Store.leaf c).live o = false ∧ b.live o = false ∧
    ∃ ds', (step (.demo b c ds) (.newOid draws)).1 = .demo b c ds' ∧ ds'.issued = o :: ds.issued ∧
      ds'.next = o + 1 := by
  simp only [step] at h ⊢
  cases hd : drawLoop (freeOid b c ds) ds.next draws 0 with
  | mk r rest =>
    obtain ⟨nxt, u⟩ := rest
    cases r with
    | none => rw [hd] at h; simp at h
    | some o' =>
      rw [hd] at h
      simp only [Out.oid.injEq, Option.some.injEq] at h
      obtain ⟨ho, _⟩ := h
      subst ho
      obtain ⟨hf, hn, _⟩ := drawLoop_some _ _ _ hd
      unfold freeOid at hf
      simp only [Bool.and_eq_true, Bool.not_eq_eq_eq_not, Bool.not_true] at hf
      obtain ⟨⟨h1, h2⟩, h3⟩ := hf
      refine ⟨?_, h2, h3, ⟨_, rfl, rfl, hn⟩⟩
      intro hmem
      have : ds.issued.contains o' = true := by simpa using hmem
      rw [this] at h1
      cases h1

/-- with no un-creation records around, `load_current` succeeds exactly for the oids that have a
    revision -/
theorem live_iff (s : Store) (o : Oid) (h : OidOK s o) (hd : AllData (s.revs o))
    (hm : ∀ y ∈ s.revs o, y.1 < maxtid) : s.live o = true ↔ s.revs o ≠ [] := by
  unfold Store.live
  rw [store_load s o h]
  cases hl : (s.revs o).getLast? with
  | none =>
    have := List.getLast?_eq_none_iff.1 hl
    rw [this, loadCurrentR_nil]
    simp
  | some y =>
    obtain ⟨tl, dl⟩ := y
    have hne : s.revs o ≠ [] := by intro h0; rw [h0] at hl; simp at hl
    cases dl with
    | none => exact absurd rfl (hd _ (List.mem_of_getLast? hl))
    | some d => rw [loadCurrentR_of_last_some hm hl]; simp [hne]

end Proofs.Demo
