/-
  Connection model, part 9: `transaction.commit()` / `abort()` for programs without savepoints —
  after any failed commit, at whatever phase, the connection is back at a transaction boundary.
-/
import Proofs.ConnInv11
import Proofs.ConnCleanup
namespace Proofs.Conn
open ZodbModel ZodbModel.Conn

theorem Map.eq_nil_of_get_none {α} (m : Map α) (h : ∀ k, m.get k = none) : m = [] := by
  cases m with
  | nil => rfl
  | cons x t =>
    obtain ⟨k, v⟩ := x
    have := h k
    simp [Map.get] at this

/-- every registered object that had to be stored was stored (after a successful `_commit`) -/
def AllStored (s0 t : State) : Prop :=
  ∀ i ∈ s0.registered, ∀ k, (s0.objs i).oid = some k → t.added.get k = none ∧
    ((s0.added.get k = some i ∨ (s0.objs i).status = .changed) → marked t k)

/-- the cleanup (abort for a connection that has not voted, then tpc_abort) never invalidates a new object
    that was stored already: it is disowned with its state -/
theorem cleanup_createdKept {t : State} (hS : Str [] t) (hsp : t.sp = none) (v : Bool) {k j : Nat}
    (hc : t.cache.get k = some j) (hcr : t.creating.has k = true) (h : NG j t) : NG j (cleanup v t) := by
  unfold cleanup
  cases v with
  | true =>
    simp only [if_true]
    exact connTpcAbort_ng hS hsp (Or.inl (hS.cacheS k j hc)) (Or.inl hcr) h
  | false =>
    simp only [Bool.false_eq_true, if_false]
    have ae := connAbort_effect hS hsp
    have hY := connAbort_ng hS hsp hc hcr h
    have hnone : ((connAbort t).objs j).oid = none := by
      rcases ae.clean.2.oid j with h1 | h1
      · exfalso
        have hoid : ((connAbort t).objs j).oid = some k := by rw [h1]; exact hS.cacheS k j hc
        have hkn := ae.clean.1.known j k hoid
        simp only [List.not_mem_nil, or_false] at hkn
        rcases hkn with h2 | h2
        · rw [ae.uncached k hcr] at h2; cases h2
        · have := (hS.addedS k j (ae.clean.2.added k j h2)).2
          rw [hc] at this; cases this
      · exact h1.1
    exact connTpcAbort_ng ae.clean.1 ae.spNone (k := k) (Or.inr hnone) (Or.inr hnone) hY

/-- what the cleanup after a failed commit (or an abort) achieved -/
structure CleanupFacts (s0 t X : State) : Prop where
  prePoll : PrePoll X
  clean : Clean [] t X
  shared : shared X = shared s0
  cachedSub : ∀ k j, X.cache.get k = some j → s0.cache.get k = some j
  committedKept : ∀ k j, s0.cache.get k = some j → (X.objs j).oid = some k
  changedOut : ∀ j, (s0.objs j).status = .changed →
    (X.objs j).status = .ghost ∨ (X.objs j).oid = none
  createdKept : ∀ k j, t.cache.get k = some j → t.creating.has k = true → (t.objs j).status ≠ .ghost →
    (X.objs j).status ≠ .ghost

/-- **After a failed commit the connection is at a transaction boundary again.**  `s0`: the state in
    which `_commit` started (after `tpc_begin`, or the boundary state when `tpc_begin` was not
    reached); `t`: the state in which the failure is noticed; `voted`: only `tpc_abort` runs. -/
theorem cleanup_prePoll {s0 t : State} (h0 : Inv11 s0) (hP : Prog s0 [] t)
    (hmk : (∀ k, ¬ marked s0 k) ∨ t = s0) (v : Bool)
    (hv : v = true → t.begun = true ∧ AllStored s0 t) : CleanupFacts s0 t (cleanup v t) := by
  have hS := hP.str
  have hsp : t.sp = none := by
    have := hP.spSome; rw [h0.spNone] at this
    cases ht : t.sp with
    | none => rfl
    | some x => rw [ht] at this; cases this
  have hctx := hP.ctx
  simp only [ctx, Prod.mk.injEq] at hctx
  obtain ⟨cx1, cx2, cx3, cx4, cx5, cx6, cx7, cx8, cx9, cx10, cx11⟩ := hctx
  have hcl := cleanup_clean hS v
  have sh := hcl.2
  have hshared : shared (cleanup v t) = shared s0 := by
    rw [cleanup_shared]
    simp only [shared, cx2, cx3, cx4]
  -- the effects of the cleanup, whichever path it takes
  have eff : (cleanup v t).sp = none ∧ (cleanup v t).creating = [] ∧ (cleanup v t).registered = [] ∧
      (cleanup v t).sps = t.sps ∧ (cleanup v t).committed = t.committed ∧
      (cleanup v t).lastTid = t.lastTid ∧
      (∀ k, t.creating.has k = true → (cleanup v t).cache.get k = none) ∧
      Keeps (fun k => t.added.get k = none ∧ t.creating.has k = false) t (cleanup v t) ∧
      (∀ k, (cleanup v t).added.get k = none) ∧
      (∀ i ∈ t.registered, ∀ k, (t.objs i).oid = some k → (s0.objs i).status = .changed →
        (s0.objs i).oid = some k →
        ((cleanup v t).objs i).status = .ghost ∨ ((cleanup v t).objs i).oid = none) ∧
      (cleanup v t).needsToJoin = true := by
    unfold cleanup
    cases v with
    | false =>
      simp only [Bool.false_eq_true, if_false]
      have ae := connAbort_effect hS hsp
      have hYadd : ∀ k, (connAbort t).added.get k = none := by
        intro k
        cases hc : (connAbort t).added.get k with
        | none => rfl
        | some j =>
          exfalso
          have h1 := ae.clean.2.added k j hc
          have h2 := hP.addedSub k j h1
          have hreg : j ∈ t.registered := by rw [cx7]; exact h0.addedReg k j h2
          have := (ae.regs j hreg k (hS.addedS k j h1).1).1 h1
          have h3 := (ae.clean.1.addedS k j hc).1
          rw [this] at h3; cases h3
      have hYregs : ∀ i ∈ t.registered, ∀ k, (t.objs i).oid = some k → (s0.objs i).status = .changed →
          (s0.objs i).oid = some k →
          ((connAbort t).objs i).status = .ghost ∨ ((connAbort t).objs i).oid = none := by
        intro i hi k hk _ _
        obtain ⟨e1, e2⟩ := ae.regs i hi k hk
        cases ha : t.added.get k with
        | none =>
          cases hcr : t.creating.has k with
          | false => exact e2 ha hcr
          | true =>
            -- a new object that was stored already: out of the cache, hence disowned
            right
            rcases ae.clean.2.oid i with h1 | h1
            · exfalso
              have hoid : ((connAbort t).objs i).oid = some k := by rw [h1]; exact hk
              have hkn := ae.clean.1.known i k hoid
              simp only [List.not_mem_nil, or_false] at hkn
              rcases hkn with h2 | h2
              · rw [ae.uncached k hcr] at h2; cases h2
              · rw [hYadd k] at h2; cases h2
            · exact h1.1
        | some j' =>
          have := hS.inj j' i k (hS.addedS k j' ha).1 hk
          subst this
          exact Or.inr (e1 ha)
      by_cases hb : (connAbort t).begun = true
      · have te := connTpcAbort_effect ae.clean.1 ae.spNone hb
        have sh2 := te.clean.2
        refine ⟨te.spNone, te.creatingNil, te.regNil, by rw [te.frame.1, ae.frame.1],
          by rw [te.frame.2.2.1, ae.frame.2.2.1], by rw [te.frame.2.2.2.1, ae.frame.2.2.2.1],
          ?_, ?_, ?_, ?_, te.ntj⟩
        · intro k hk
          cases hc : (connTpcAbort (connAbort t)).cache.get k with
          | none => rfl
          | some i => have := sh2.cache k i hc; rw [ae.uncached k hk] at this; cases this
        · intro j k hj hk
          refine te.keeps j k (ae.keeps j k hj hk) ⟨hYadd k, ?_⟩
          rw [ae.creatingNil]; rfl
        · intro k; rw [te.addedNil]; rfl
        · intro i hi k hk h1 h2
          rcases hYregs i hi k hk h1 h2 with h | h
          · exact Or.inl (sh2.ghostKept i h)
          · right; rw [sh2.noneKept i h]; exact h
      · have hid : connTpcAbort (connAbort t) = connAbort t := by
          unfold connTpcAbort; simp [hb]
        rw [hid]
        exact ⟨ae.spNone, ae.creatingNil, ae.regNil, ae.frame.1, ae.frame.2.2.1, ae.frame.2.2.2.1,
          ae.uncached, ae.keeps, hYadd, hYregs, ae.ntj⟩
    | true =>
      simp only [if_true]
      obtain ⟨hb, hall⟩ := hv rfl
      have te := connTpcAbort_effect hS hsp hb
      refine ⟨te.spNone, te.creatingNil, te.regNil, te.frame.1, te.frame.2.2.1, te.frame.2.2.2.1,
        te.uncached, te.keeps, fun k => by rw [te.addedNil]; rfl, ?_, te.ntj⟩
      intro i hi k hk hch hk0
      rw [cx7] at hi
      obtain ⟨_, hm⟩ := hall i hi k hk0
      have hm := hm (Or.inr hch)
      by_cases ho : ((connTpcAbort t).objs i).oid = none
      · exact Or.inr ho
      · left
        have hoid : ((connTpcAbort t).objs i).oid = some k := by
          rcases te.clean.2.oid i with h | h
          · rw [h]; exact hk
          · exact absurd h.1 ho
        have hkn := te.clean.1.known i k hoid
        simp only [List.not_mem_nil, or_false, te.addedNil, Map.get_nil] at hkn
        rcases hkn with hkn | hkn
        · cases hcr : t.creating.has k with
          | true => rw [te.uncached k hcr] at hkn; cases hkn
          | false =>
            rcases hm with hm | hm
            · exact te.modGhost k hm hcr i hkn
            · rw [hcr] at hm; cases hm
        · cases hkn
  obtain ⟨e1, e2, e3, e4, e5, e6, e7, e8, e9, e10, e11⟩ := eff
  have hck : ∀ k j, t.cache.get k = some j → t.creating.has k = true → (t.objs j).status ≠ .ghost →
      ((cleanup v t).objs j).status ≠ .ghost :=
    fun k j hc hcr hg => cleanup_createdKept hS hsp v hc hcr hg
  generalize cleanup v t = X at *
  -- objects of the committed database are not touched by `_creating`/`_added`
  have hcommitted : ∀ k j, s0.cache.get k = some j →
      t.added.get k = none ∧ t.creating.has k = false := by
    intro k j hc
    constructor
    · cases ha : t.added.get k with
      | none => rfl
      | some j' =>
        have := (h0.str.addedS k j' (hP.addedSub k j' ha)).2
        rw [hc] at this; cases this
    · cases hcr : t.creating.has k with
      | false => rfl
      | true =>
        exfalso
        rcases hP.creatingNew k hcr with h | h | ⟨i, h⟩ | ⟨i, h1, h2, h3⟩
        · rw [h0.creatingNil] at h; cases h
        · have := h0.str.fresh j k (h0.str.cacheS k j hc); omega
        · have := (h0.str.addedS k i h).2; rw [hc] at this; cases this
        · rw [hc] at h1; cases h1
          have := h0.cached_serial_pos hc h3; omega
  -- cached objects after the cleanup were cached before the commit
  have hcached : ∀ k j, X.cache.get k = some j → s0.cache.get k = some j := by
    intro k j hc
    have hct := sh.cache k j hc
    have hoj := hS.cacheS k j hct
    cases ho0 : (s0.objs j).oid with
    | none =>
      exfalso
      obtain ⟨_, h⟩ := hP.newTracked j k ho0 hoj
      simp only [List.not_mem_nil, false_or] at h
      rw [e7 k h.1] at hc; cases hc
    | some k0 =>
      have : k0 = k := by have := hP.oidKeep j k0 ho0; rw [hoj] at this; cases this; rfl
      subst this
      have hkn := h0.str.known j k0 ho0
      simp only [List.not_mem_nil, or_false] at hkn
      rcases hkn with h | h
      · exact h
      · exfalso
        rcases hP.addedTracked k0 j h with h' | h'
        · have := (hS.addedS k0 j h').2; rw [hct] at this; cases this
        · rw [e7 k0 h'.1] at hc; cases hc
  have hkept : ∀ k j, s0.cache.get k = some j → (X.objs j).oid = some k := by
    intro k j hc
    exact e8 j k (hP.oidKeep j k (h0.str.cacheS k j hc)) (hcommitted k j hc)
  have hchanged : ∀ j, (s0.objs j).status = .changed →
      (X.objs j).status = .ghost ∨ (X.objs j).oid = none := by
    intro j h0s
    have hreg := h0.changedReg j h0s
    obtain ⟨k, hk0⟩ := Option.ne_none_iff_exists'.1 (h0.regOid j hreg)
    exact e10 j (by rw [cx7]; exact hreg) k (hP.oidKeep j k hk0) h0s hk0
  refine ⟨?_, hcl, hshared, hcached, hkept, hchanged, hck⟩
  refine ⟨hcl.1, e1, ?_, e2, e3, ?_, e11, ?_, ?_, ?_, ?_, ?_⟩
  · rw [e4, cx8]; exact h0.spsNil
  · exact Map.eq_nil_of_get_none _ e9
  · -- noChanged
    intro j hch
    have hts : (t.objs j).status = .changed := by
      rcases sh.status j with h | h | h
      · rw [← h]; exact hch
      · rw [h] at hch; cases hch
      · rw [h.2.1] at hch; cases hch
    have h0s := hP.noChange j hts
    have hreg := h0.changedReg j h0s
    obtain ⟨k, hk0⟩ := Option.ne_none_iff_exists'.1 (h0.regOid j hreg)
    have hk := hP.oidKeep j k hk0
    rcases e10 j (by rw [cx7]; exact hreg) k hk h0s hk0 with h | h
    · rw [h] at hch; cases hch
    · exact sh.disownedClean j h (by rw [hk]; simp) hch
  · -- serial0
    intro j hj
    rw [(sh.val j).2.2]
    cases hto : (t.objs j).oid with
    | none =>
      have h0o : (s0.objs j).oid = none := by
        cases h : (s0.objs j).oid with
        | none => rfl
        | some k => have := hP.oidKeep j k h; rw [hto] at this; cases this
      rcases hP.fresh0 j h0o with h | h | h
      · rw [h]; exact h0.serial0 j h0o
      · exact absurd h.2 (by simp)
      · obtain ⟨k, hk, _⟩ := h; rw [hto] at hk; cases hk
    | some k =>
      -- disowned by the cleanup: it was new
      have hnew : (s0.objs j).oid = none ∨ ∃ k', s0.added.get k' = some j := by
        cases h : (s0.objs j).oid with
        | none => exact Or.inl rfl
        | some k0 =>
          right
          have : k0 = k := by have := hP.oidKeep j k0 h; rw [hto] at this; cases this; rfl
          subst this
          have hkn := h0.str.known j k0 h
          simp only [List.not_mem_nil, or_false] at hkn
          rcases hkn with hkn | hkn
          · exfalso
            have := e8 j k0 hto (hcommitted k0 j hkn)
            rw [hj] at this; cases this
          · exact ⟨k0, hkn⟩
      rw [hP.serialKept j hnew]
      rcases hnew with h | ⟨k', h⟩
      · exact h0.serial0 j h
      · exact h0.addedSerial k' j h
  · -- commFresh
    intro k hk
    rw [e5, cx2] at hk
    have := h0.commFresh k hk
    have := hP.nextOid
    rw [sh.nextOid]; omega
  · rw [e5, cx2, e6, cx3]; exact h0.tidB
  · -- pc
    intro k j hc
    have hc0 := hcached k j hc
    obtain ⟨r, hr, c1, c2⟩ := h0.coh k j hc0
    obtain ⟨c, hcc, _, _, c3⟩ := h0.snapC k r hr
    refine ⟨c, by rw [e5, cx2]; exact hcc, ?_⟩
    intro hu hs
    have htu : (t.objs j).status = .uptodate := by
      rcases sh.status j with h | h | h
      · rw [← h]; exact hu
      · rw [h] at hu; cases hu
      · have := hcl.1.cacheS k j hc; rw [h.2.2] at this; cases this
    have hg0 : (s0.objs j).status ≠ .ghost := by
      rcases hP.statusKept j with h | ⟨k', hk', hm⟩
      · rw [← h, htu]; simp
      · have : k' = k := by
          have := hS.cacheS k j (sh.cache k j hc); rw [hk'] at this; cases this; rfl
        subst this
        rcases hmk with hmk | hmk
        · rcases hP.markedCached k' j hm hc0 with h | h
          · exact absurd h (hmk k')
          · exact h
        · subst hmk; rw [htu]; simp
    have hs0 : (s0.objs j).status = .uptodate := by
      rw [← hP.statusNone h0.spNone j hg0]; exact htu
    obtain ⟨v1, v2, v3⟩ := hP.objVal j hg0
    have hrc : r = c := c3 (by rw [← c1 hg0, ← v3, ← (sh.val j).2.2]; exact hs)
    rw [(sh.val j).1, (sh.val j).2.1, v1, v2, ← hrc]
    exact c2 hs0

/-! ### `tpc_finish` -/

/-- the storage's `tpc_finish`: the staged records become the committed ones, with the new tid -/
def commitFold (tid : Nat) (l : List (Nat × Rec)) (m : Map Rec) : Map Rec :=
  l.foldl (fun (m : Map Rec) (p : Oid × Rec) => m.set p.1 { p.2 with serial := tid }) m

theorem commitFold_other (tid : Nat) : ∀ (l : List (Nat × Rec)) (m : Map Rec) (k : Nat),
    (∀ p ∈ l, p.1 ≠ k) → (commitFold tid l m).get k = m.get k := by
  intro l
  induction l with
  | nil => intro m k _; rfl
  | cons p rest ih =>
    intro m k h
    simp only [commitFold, List.foldl_cons]
    have := ih (m.set p.1 { p.2 with serial := tid }) k (fun q hq => h q (List.mem_cons_of_mem _ hq))
    simp only [commitFold] at this
    rw [this, Map.get_set, if_neg (Ne.symm (h p List.mem_cons_self))]

theorem commitFold_mem (tid : Nat) : ∀ (l : List (Nat × Rec)) (m : Map Rec) (k : Nat) (v : Nat)
    (rf : List Nat), (∃ p ∈ l, p.1 = k) → (∀ p ∈ l, p.1 = k → p.2.val = v ∧ p.2.refs = rf) →
    (commitFold tid l m).get k = some ⟨tid, v, rf⟩ := by
  intro l
  induction l with
  | nil => intro m k v rf h _; obtain ⟨p, hp, _⟩ := h; cases hp
  | cons p rest ih =>
    intro m k v rf hex hall
    simp only [commitFold, List.foldl_cons]
    by_cases hr : ∃ q ∈ rest, q.1 = k
    · have := ih (m.set p.1 { p.2 with serial := tid }) k v rf hr
        (fun q hq => hall q (List.mem_cons_of_mem _ hq))
      simp only [commitFold] at this
      exact this
    · have hpk : p.1 = k := by
        obtain ⟨q, hq, hqk⟩ := hex
        rcases List.mem_cons.1 hq with h | h
        · rw [← h]; exact hqk
        · exact absurd ⟨q, h, hqk⟩ hr
      have hno : ∀ q ∈ rest, q.1 ≠ k := fun q hq hqk => hr ⟨q, hq, hqk⟩
      have := commitFold_other tid rest (m.set p.1 { p.2 with serial := tid }) k hno
      simp only [commitFold] at this
      rw [this, Map.get_set, if_pos hpk.symm]
      obtain ⟨h1, h2⟩ := hall p List.mem_cons_self hpk
      rw [h1, h2]

theorem commitFold_keys (tid : Nat) : ∀ (l : List (Nat × Rec)) (m : Map Rec) (k : Nat) (c : Rec),
    (commitFold tid l m).get k = some c → m.get k = some c ∨ ((∃ p ∈ l, p.1 = k) ∧ c.serial = tid) := by
  intro l
  induction l with
  | nil => intro m k c h; exact Or.inl h
  | cons p rest ih =>
    intro m k c h
    simp only [commitFold, List.foldl_cons] at h
    have := ih (m.set p.1 { p.2 with serial := tid }) k c (by simp only [commitFold]; exact h)
    rcases this with h1 | h1
    · rw [Map.get_set] at h1
      split at h1
      · rename_i hk
        cases h1
        exact Or.inr ⟨⟨p, List.mem_cons_self, hk.symm⟩, rfl⟩
      · exact Or.inl h1
    · obtain ⟨⟨q, hq, hqk⟩, hs⟩ := h1
      exact Or.inr ⟨⟨q, List.mem_cons_of_mem _ hq, hqk⟩, hs⟩

theorem finishOne_frame (tid : Nat) (s : State) (k : Nat) :
    (finishOne tid s k).cache = s.cache ∧ (finishOne tid s k).added = s.added ∧
    (finishOne tid s k).committed = s.committed ∧ (finishOne tid s k).snap = s.snap ∧
    (finishOne tid s k).nextOid = s.nextOid ∧ (finishOne tid s k).sp = s.sp ∧
    (finishOne tid s k).sps = s.sps ∧ (finishOne tid s k).lastTid = s.lastTid ∧
    (finishOne tid s k).opened = s.opened ∧ (finishOne tid s k).log = s.log := by
  unfold finishOne
  dsimp only
  repeat' split
  all_goals simp [setO]

/-- the loop of `Connection.tpc_finish`, object by object -/
theorem finishFold (tid : Nat) : ∀ (l : List Nat) (u0 : State),
    let u := l.foldl (finishOne tid) u0
    (u.cache = u0.cache ∧ u.added = u0.added ∧ u.committed = u0.committed ∧ u.snap = u0.snap ∧
      u.nextOid = u0.nextOid ∧ u.sp = u0.sp ∧ u.sps = u0.sps ∧ u.lastTid = u0.lastTid ∧
      u.opened = u0.opened ∧ u.log = u0.log) ∧
    (∀ j, u.objs j = u0.objs j ∨
      (u.objs j = { u0.objs j with status := .uptodate, serial := tid } ∧
        (u0.objs j).status ≠ .ghost ∧ ∃ k ∈ l, u0.cache.get k = some j)) ∧
    (∀ k ∈ l, ∀ j, u0.cache.get k = some j → (u0.objs j).status ≠ .ghost →
      u.objs j = { u0.objs j with status := .uptodate, serial := tid }) := by
  intro l
  induction l with
  | nil => intro u0; simp
  | cons k rest ih =>
    intro u0
    simp only [List.foldl_cons]
    obtain ⟨f1, f2, f3⟩ := ih (finishOne tid u0 k)
    have g := finishOne_frame tid u0 k
    -- the first step
    have hstep : ∀ j, (finishOne tid u0 k).objs j = u0.objs j ∨
        ((finishOne tid u0 k).objs j = { u0.objs j with status := .uptodate, serial := tid } ∧
          (u0.objs j).status ≠ .ghost ∧ u0.cache.get k = some j) := by
      intro j
      unfold finishOne
      dsimp only
      split
      · rename_i i hi
        split
        · rename_i hng
          simp only [setO]
          by_cases hji : j = i
          · right; subst hji; simp; exact ⟨hng, hi⟩
          · left; simp [hji]
        · left; rfl
      · left; rfl
    refine ⟨?_, ?_, ?_⟩
    · simp only [f1, g, and_self]
    · intro j
      rcases f2 j with h1 | ⟨h1, h2, k', hk', h3⟩
      · rcases hstep j with h4 | ⟨h4, h5, h6⟩
        · left; rw [h1, h4]
        · right; exact ⟨by rw [h1, h4], h5, k, List.mem_cons_self, h6⟩
      · rcases hstep j with h4 | ⟨h4, h5, h6⟩
        · right
          rw [h4] at h1 h2
          rw [g.1] at h3
          exact ⟨h1, h2, k', List.mem_cons_of_mem _ hk', h3⟩
        · right
          refine ⟨?_, h5, k, List.mem_cons_self, h6⟩
          rw [h1, h4]
    · intro k' hk' j hc hng
      rcases List.mem_cons.1 hk' with hk' | hk'
      · subst hk'
        have h4 : (finishOne tid u0 k').objs j = { u0.objs j with status := .uptodate, serial := tid } := by
          unfold finishOne
          dsimp only
          rw [hc]
          dsimp only
          rw [if_pos hng]
          simp [setO]
        rcases f2 j with h1 | ⟨h1, _⟩
        · rw [h1, h4]
        · rw [h1, h4]
      · have hc' : (finishOne tid u0 k).cache.get k' = some j := by rw [g.1]; exact hc
        have hng' : ((finishOne tid u0 k).objs j).status ≠ .ghost := by
          rcases hstep j with h4 | ⟨h4, _⟩
          · rw [h4]; exact hng
          · rw [h4]; simp
        rw [f3 k' hk' j hc' hng']
        rcases hstep j with h4 | ⟨h4, _⟩
        · rw [h4]
        · rw [h4]

/-- what a successful commit achieved, in terms of the state `t` reached by `_commit` and the
    state `f` after `tpc_finish` -/
structure Finished (s0 t f : State) : Prop where
  tid : f.lastTid = t.lastTid + 1
  log : f.log = (t.lastTid + 1, t.staged.map Prod.fst) :: t.log
  logKeys : ∀ k, k ∈ t.staged.map Prod.fst ↔ marked t k
  stored : ∀ k, marked t k → ∃ j, f.cache.get k = some j ∧ (t.objs j).oid = some k ∧
    f.committed.get k = some ⟨t.lastTid + 1, (t.objs j).val, (t.objs j).refs⟩ ∧
    f.objs j = { t.objs j with status := .uptodate, serial := t.lastTid + 1 } ∧
    (t.objs j).status ≠ .ghost ∧ ∀ x ∈ (t.objs j).refs, (t.objs x).oid ≠ none
  others : ∀ k, ¬ marked t k → f.committed.get k = t.committed.get k
  untouched : ∀ j, (∀ k, (t.objs j).oid = some k → ¬ marked t k) → f.objs j = t.objs j
  oids : ∀ j, (f.objs j).oid = (t.objs j).oid
  opened : f.opened = t.opened
  prePoll : PrePoll f

theorem finish_facts {s0 t : State} (h0 : Inv11 s0) (hst0 : s0.staged = []) (hmk0 : ∀ k, ¬ marked s0 k)
    (hP : Prog s0 [] t) (hJ : Stg s0 t) (hall : AllStored s0 t) :
    Finished s0 t (connTpcFinish t) := by
  have hS := hP.str
  have hctx := hP.ctx
  simp only [ctx, Prod.mk.injEq] at hctx
  obtain ⟨cx1, cx2, cx3, cx4, cx5, cx6, cx7, cx8, cx9, cx10, cx11⟩ := hctx
  -- nothing is left in `_added`
  have hadd : t.added = [] := by
    apply Map.eq_nil_of_get_none
    intro k
    cases ha : t.added.get k with
    | none => rfl
    | some j =>
      exfalso
      have h1 := hP.addedSub k j ha
      have h2 := (hall j (h0.addedReg k j h1) k (h0.str.addedS k j h1).1).1
      rw [h2] at ha; cases ha
  -- staged records: the stored objects
  have hrecs : ∀ k r, (k, r) ∈ t.staged → ∃ j, t.cache.get k = some j ∧
      r = ⟨(t.objs j).serial, (t.objs j).val, (t.objs j).refs⟩ ∧ (t.objs j).status ≠ .ghost ∧
      marked t k ∧ ∀ x ∈ (t.objs j).refs, (t.objs x).oid ≠ none := by
    intro k r hr
    rcases hJ.recs k r hr with h | h
    · rw [hst0] at h; cases h
    · exact h
  have hmarks : ∀ k, marked t k → ∃ r, (k, r) ∈ t.staged := by
    intro k hm
    rcases hJ.marks k hm with h | h
    · exact absurd h (hmk0 k)
    · exact h
  -- the finish loop
  unfold connTpcFinish
  dsimp only
  obtain ⟨f1, f2, f3⟩ := finishFold (t.lastTid + 1) (t.modified ++ t.creating.keys)
    { t with committed := commitFold (t.lastTid + 1) t.staged t.committed,
             log := (t.lastTid + 1, t.staged.map Prod.fst) :: t.log,
             lastTid := t.lastTid + 1, staged := [] }
  obtain ⟨c1, c2, c3, c4, c5, c6, c7, c8, c9, c10⟩ := f1
  have hfold : List.foldl (fun (m : Map Rec) (p : Oid × Rec) => m.set p.1 { p.2 with serial := t.lastTid + 1 })
      t.committed t.staged = commitFold (t.lastTid + 1) t.staged t.committed := rfl
  rw [hfold]
  generalize List.foldl (finishOne (t.lastTid + 1))
    { t with committed := commitFold (t.lastTid + 1) t.staged t.committed,
             log := (t.lastTid + 1, t.staged.map Prod.fst) :: t.log,
             lastTid := t.lastTid + 1, staged := [] } (t.modified ++ t.creating.keys) = u at *
  dsimp only at c1 c2 c3 c4 c5 c6 c7 c8 c9 c10 f2 f3
  have hmem : ∀ k, k ∈ t.modified ++ t.creating.keys ↔ marked t k := by
    intro k
    unfold marked
    rw [List.mem_append, Map.mem_keys_iff, Map.has_iff]
  -- a marked oid: its object, record, and what finish did
  have hstored : ∀ k, marked t k → ∃ j, t.cache.get k = some j ∧ (t.objs j).oid = some k ∧
      (commitFold (t.lastTid + 1) t.staged t.committed).get k =
        some ⟨t.lastTid + 1, (t.objs j).val, (t.objs j).refs⟩ ∧
      u.objs j = { t.objs j with status := .uptodate, serial := t.lastTid + 1 } ∧
      (t.objs j).status ≠ .ghost ∧ ∀ x ∈ (t.objs j).refs, (t.objs x).oid ≠ none := by
    intro k hm
    obtain ⟨r, hr⟩ := hmarks k hm
    obtain ⟨j, hc, hrj, hng, _, hrefs⟩ := hrecs k r hr
    refine ⟨j, hc, hS.cacheS k j hc, ?_, ?_, hng, hrefs⟩
    · apply commitFold_mem
      · exact ⟨(k, r), hr, rfl⟩
      · intro p hp hpk
        obtain ⟨j', hc', hrj', _⟩ := hrecs p.1 p.2 hp
        rw [hpk, hc] at hc'
        cases hc'
        rw [hrj']; exact ⟨rfl, rfl⟩
    · exact f3 k ((hmem k).2 hm) j hc hng
  have hun : ∀ j, (∀ k, (t.objs j).oid = some k → ¬ marked t k) → u.objs j = t.objs j := by
    intro j hj
    rcases f2 j with h | ⟨_, _, k, hk, hc⟩
    · exact h
    · exact absurd ((hmem k).1 hk) (hj k (hS.cacheS k j hc))
  have hoids : ∀ j, (u.objs j).oid = (t.objs j).oid ∧ (u.objs j).jar = (t.objs j).jar ∧
      (u.objs j).val = (t.objs j).val ∧ (u.objs j).refs = (t.objs j).refs := by
    intro j
    rcases f2 j with h | ⟨h, _⟩
    · rw [h]; exact ⟨rfl, rfl, rfl, rfl⟩
    · rw [h]; exact ⟨rfl, rfl, rfl, rfl⟩
  have hothers : ∀ k, ¬ marked t k →
      (commitFold (t.lastTid + 1) t.staged t.committed).get k = t.committed.get k := by
    intro k hk
    apply commitFold_other
    intro p hp hpk
    obtain ⟨_, _, _, _, hm, _⟩ := hrecs p.1 p.2 hp
    rw [hpk] at hm; exact hk hm
  -- a cached object that was not stored was cached (and committed) before
  have hold : ∀ k j, t.cache.get k = some j → ¬ marked t k → s0.cache.get k = some j := by
    intro k j hc hnm
    have hoj := hS.cacheS k j hc
    cases ho0 : (s0.objs j).oid with
    | none =>
      exfalso
      obtain ⟨_, h⟩ := hP.newTracked j k ho0 hoj
      simp only [List.not_mem_nil, false_or] at h
      exact hnm (Or.inr h.1)
    | some k0 =>
      have : k0 = k := by have := hP.oidKeep j k0 ho0; rw [hoj] at this; cases this; rfl
      subst this
      have hkn := h0.str.known j k0 ho0
      simp only [List.not_mem_nil, or_false] at hkn
      rcases hkn with h | h
      · exact h
      · exfalso
        rcases hP.addedTracked k0 j h with h' | h'
        · rw [hadd] at h'; simp at h'
        · exact hnm (Or.inr h'.1)
  refine ⟨c8, c10, ?_, ?_, ?_, hun, fun j => (hoids j).1, c9, ?_⟩
  · intro k
    constructor
    · intro hk
      obtain ⟨p, hp, hpk⟩ := List.mem_map.1 hk
      obtain ⟨_, _, _, _, hm, _⟩ := hrecs p.1 p.2 hp
      rw [hpk] at hm; exact hm
    · intro hm
      obtain ⟨r, hr⟩ := hmarks k hm
      exact List.mem_map.2 ⟨(k, r), hr, rfl⟩
  · intro k hm
    obtain ⟨j, h1, h2, h3, h4, h5, h6⟩ := hstored k hm
    exact ⟨j, by show u.cache.get k = some j; rw [c1]; exact h1, h2,
      by show u.committed.get k = _; rw [c3]; exact h3, h4, h5, h6⟩
  · intro k hk; show u.committed.get k = _; rw [c3]; exact hothers k hk
  · -- PrePoll
    constructor
    · exact hS.transfer (fun j => ⟨(hoids j).1, (hoids j).2.1⟩) c1 c2
        (by show t.nextOid ≤ u.nextOid; rw [c5]; exact Nat.le_refl _)
    · show u.sp = none
      rw [c6]
      have := hP.spSome; rw [h0.spNone] at this
      cases ht : t.sp with
      | none => rfl
      | some x => rw [ht] at this; cases this
    · show u.sps = []; rw [c7, cx8]; exact h0.spsNil
    · rfl
    · rfl
    · show u.added = []; rw [c2]; exact hadd
    · rfl
    · -- noChanged
      intro j hch
      have hch : (u.objs j).status = .changed := hch
      have hts : (t.objs j).status = .changed := by
        rcases f2 j with h | ⟨h, _⟩
        · rw [← h]; exact hch
        · rw [h] at hch; cases hch
      have h0s := hP.noChange j hts
      have hreg := h0.changedReg j h0s
      obtain ⟨k, hk0⟩ := Option.ne_none_iff_exists'.1 (h0.regOid j hreg)
      have hm := (hall j hreg k hk0).2 (Or.inr h0s)
      obtain ⟨j', h1, h2, _, h4, _⟩ := hstored k hm
      have : j' = j := hS.inj j' j k h2 (hP.oidKeep j k hk0)
      subst this
      rw [h4] at hch; cases hch
    · -- serial0
      intro j hj
      have hj : (u.objs j).oid = none := hj
      show (u.objs j).serial = 0
      rw [(hoids j).1] at hj
      have h0o : (s0.objs j).oid = none := by
        cases h : (s0.objs j).oid with
        | none => rfl
        | some k => have := hP.oidKeep j k h; rw [hj] at this; cases this
      rw [hun j (fun k hk => by rw [hj] at hk; cases hk)]
      rcases hP.fresh0 j h0o with h | h | h
      · rw [h]; exact h0.serial0 j h0o
      · exact absurd h.2 (by simp)
      · obtain ⟨k, hk, _⟩ := h; rw [hj] at hk; cases hk
    · -- commFresh
      intro k hk
      have hk : u.committed.get k ≠ none := hk
      show k < u.nextOid
      rw [c3] at hk
      rw [c5]
      by_cases hm : marked t k
      · obtain ⟨j, _, h2, _⟩ := hstored k hm
        exact hS.fresh j k h2
      · rw [hothers k hm, cx2] at hk
        have := h0.commFresh k hk
        have := hP.nextOid
        omega
    · -- tidB
      intro k c hc
      have hc : u.committed.get k = some c := hc
      show 1 ≤ c.serial ∧ c.serial ≤ u.lastTid
      rw [c3] at hc
      rw [c8]
      rcases commitFold_keys _ _ _ _ _ hc with h | h
      · rw [cx2] at h
        have := h0.tidB k c h
        rw [cx3]; omega
      · rw [h.2]
        have : 1 ≤ t.lastTid + 1 := by omega
        exact ⟨this, Nat.le_refl _⟩
    · -- pc
      intro k j hc
      have hc : u.cache.get k = some j := hc
      show ∃ c, u.committed.get k = some c ∧ ((u.objs j).status = .uptodate →
        (u.objs j).serial = c.serial → (u.objs j).val = c.val ∧ (u.objs j).refs = c.refs)
      rw [c1] at hc
      rw [c3]
      by_cases hm : marked t k
      · obtain ⟨j', h1, _, h3, h4, _⟩ := hstored k hm
        rw [hc] at h1; cases h1
        exact ⟨_, h3, fun _ _ => by rw [h4]; exact ⟨rfl, rfl⟩⟩
      · have hc0 := hold k j hc hm
        obtain ⟨r, hr, q1, q2⟩ := h0.coh k j hc0
        obtain ⟨c, hcc, _, _, q3⟩ := h0.snapC k r hr
        rw [hothers k hm, cx2]
        refine ⟨c, hcc, ?_⟩
        have huj := hun j (fun k' hk' => by
          have := hS.cacheS k j hc; rw [hk'] at this; cases this; exact hm)
        rw [huj]
        intro hu hs
        have hg0 : (s0.objs j).status ≠ .ghost := by
          rcases hP.statusKept j with h | ⟨k', hk', hm'⟩
          · rw [← h, hu]; simp
          · have : k' = k := by
              have := hS.cacheS k j hc; rw [hk'] at this; cases this; rfl
            subst this
            exact absurd hm' hm
        have hs0 : (s0.objs j).status = .uptodate := by
          rw [← hP.statusNone h0.spNone j hg0]; exact hu
        obtain ⟨v1, v2, v3⟩ := hP.objVal j hg0
        have hrc : r = c := q3 (by rw [← q1 hg0, ← v3]; exact hs)
        rw [v1, v2, ← hrc]
        exact q2 hs0

/-! ### `_commit` from a boundary state -/

/-- `Inv11` does not look at `_modified`, the staging area, `begun`, the fault injection -/
theorem Inv11.congr {s s' : State} (h : Inv11 s) (ho : s'.objs = s.objs) (hc : s'.cache = s.cache)
    (hr : s'.registered = s.registered) (ha : s'.added = s.added) (hcr : s'.creating = s.creating)
    (hn : s'.needsToJoin = s.needsToJoin) (hsp : s'.sp = s.sp) (hsn : s'.snap = s.snap)
    (hcm : s'.committed = s.committed) (hl : s'.lastTid = s.lastTid) (hno : s'.nextOid = s.nextOid)
    (hsps : s'.sps = []) (hop : s'.opened = s.opened) : Inv11 s' := by
  constructor
  · exact h.str.congr ho hc ha hno
  · rw [hsp]; exact h.spNone
  · exact hsps
  · rw [hcr]; exact h.creatingNil
  · rw [hr, ho]; exact h.regOid
  · rw [hr, ho, ha]; exact h.regStatus
  · rw [ha, hr]; exact h.addedReg
  · rw [ho, hr]; exact h.changedReg
  · rw [hn, hr, ha]; exact h.idle
  · rw [hop, hn]; exact h.closedIdle
  · rw [ho]; exact h.serial0
  · rw [ha, ho]; exact h.addedSerial
  · rw [hcm, hno]; exact h.commFresh
  · rw [ha, hcm]; exact h.addedUncommitted
  · rw [hc, hsn, ho]; exact h.coh
  · rw [hsn, hcm]; exact h.snapC
  · rw [hcm, hl]; exact h.tidB

theorem Inv11.newOK {s : State} (h : Inv11 s) : NewOK s := by
  refine ⟨h.serial0, ?_⟩
  intro cr hcr
  unfold tmpCr at hcr
  rw [h.spNone] at hcr; cases hcr

theorem Inv11.addedIsNew {s : State} (h : Inv11 s) :
    ∀ k j, s.added.get k = some j → isNewObj s (s.objs j) k = true := by
  intro k j hj
  apply isNewObj_true (h.addedSerial k j hj)
  intro cr hcr
  unfold tmpCr at hcr
  rw [h.spNone] at hcr; cases hcr

/-- a new object that is a ghost cannot be loaded (without savepoint storage) -/
theorem Inv11.noRec {s0 : State} (h : Inv11 s0) : ∀ P s, Prog s0 P s → Stg s0 s → NoRec s0 s := by
  intro P s hP hJ j k hk hnew _
  unfold ZodbModel.Conn.loadRec
  rw [hJ.spNone]
  have hctx := hP.ctx
  simp only [ctx, Prod.mk.injEq] at hctx
  rw [hctx.1]
  cases hs : s0.snap.get k with
  | none => rfl
  | some r =>
    exfalso
    obtain ⟨c, hc, _⟩ := h.snapC k r hs
    have hlt := h.commFresh k (by rw [hc]; simp)
    rcases hnew with h1 | ⟨k', h1⟩
    · have := (hP.newTracked j k h1 hk).1; omega
    · have hk' := hP.oidKeep j k' (h.str.addedS k' j h1).1
      rw [hk] at hk'; cases hk'
      rw [h.added_noRec h1] at hs; cases hs

theorem beginCommit_facts {s1 : State} (h : Inv11 s1) (bound : Nat) :
    Inv11 (connTpcBegin s1) ∧ (∀ k, ¬ marked (connTpcBegin s1) k) ∧ (connTpcBegin s1).staged = [] ∧
    (connTpcBegin s1).begun = true ∧
    ((connCommit bound (connTpcBegin s1)).2 = none →
      Prog (connTpcBegin s1) [] (connCommit bound (connTpcBegin s1)).1 ∧
      Stg (connTpcBegin s1) (connCommit bound (connTpcBegin s1)).1 ∧
      AllStored (connTpcBegin s1) (connCommit bound (connTpcBegin s1)).1) ∧
    ((connCommit bound (connTpcBegin s1)).2 ≠ none →
      Prog (connTpcBegin s1) [] (connCommit bound (connTpcBegin s1)).1) := by
  have h2 : Inv11 (connTpcBegin s1) :=
    h.congr rfl rfl rfl rfl (by show [] = s1.creating; rw [h.creatingNil]) rfl rfl rfl rfl rfl rfl
      h.spsNil rfl
  refine ⟨h2, ?_, rfl, rfl, ?_⟩
  · intro k hm
    rcases hm with hm | hm
    · cases hm
    · cases hm
  have hcc : connCommit bound (connTpcBegin s1) =
      commitLoop (bound + 1) (connTpcBegin s1) (connTpcBegin s1).registered := by
    unfold connCommit
    rw [h2.spNone]
    rfl
  rw [hcc]
  obtain ⟨g1, g2⟩ := commitLoop_prog h2.newOK h2.addedIsNew (stg_step (connTpcBegin s1)) h2.noRec
    (stepQ_true _) (fun _ _ _ _ _ _ _ _ => trivial) (failInv_true _)
    bound (connTpcBegin s1).registered (connTpcBegin s1) (Prog.refl h2.str) (Stg.refl h2.spNone)
    h2.regOid
  refine ⟨fun hr => ?_, fun hr => (g2 hr).1⟩
  obtain ⟨p1, p2, _, _, p4⟩ := g1 hr
  exact ⟨p1, p2, fun i hi k hk => ⟨(p4 i hi k hk).1, (p4 i hi k hk).2.2⟩⟩

/-! ### the transaction-level steps -/

theorem afterCompletion_of_prePoll {s : State} (hp : PrePoll s) (hop : s.opened = true) :
    Inv11 (afterCompletion s) := by
  unfold afterCompletion
  dsimp only
  rw [if_pos hop]
  apply poll_inv11
  exact ⟨hp.str.congr rfl rfl rfl rfl, hp.spNone, rfl, hp.creatingNil, hp.regNil, hp.addedNil, hp.ntj,
    hp.noChanged, hp.serial0, hp.commFresh, hp.tidB, hp.pc⟩

theorem afterCompletion_inv11 {s : State} (h : Inv11 s) (hn : s.needsToJoin = true) :
    Inv11 (afterCompletion s) := by
  by_cases hop : s.opened = true
  · exact afterCompletion_of_prePoll (h.prePoll hn) hop
  · unfold afterCompletion
    dsimp only
    rw [if_neg hop]
    exact h.congr rfl rfl rfl rfl rfl rfl rfl rfl rfl rfl rfl rfl rfl

theorem poll_begun (s : State) : (poll s).begun = s.begun := by
  unfold poll
  exact foldl_frame (fun t => t.begun) pollOne
    (fun t p => (pollOne_frame t p).2.2.2.2.2.2.2.2.2.1) _ _

theorem afterCompletion_begun (s : State) : (afterCompletion s).begun = false := by
  unfold afterCompletion
  dsimp only
  split
  · rw [poll_begun]
  · rfl

theorem invalidate_begun (s : State) (k) : (invalidate s k).begun = s.begun := by
  unfold invalidate; split <;> rfl

theorem invalidateAll_begun (s : State) (ks) : (invalidateAll s ks).begun = s.begun :=
  foldl_frame (fun t => t.begun) invalidate invalidate_begun ks s

theorem abortOne_begun (s : State) (i) : (abortOne s i).begun = s.begun := by
  unfold abortOne
  split
  · rfl
  · split
    · rfl
    · split
      · rfl
      · exact invalidate_begun _ _

theorem abortObjs_begun (s : State) : (abortObjs s).begun = s.begun :=
  foldl_frame (fun t => t.begun) abortOne abortOne_begun _ s

theorem uncreate_begun (s : State) (k) : (uncreate s k).begun = s.begun := by
  unfold uncreate; split <;> rfl

theorem invalidateCreating_begun (s : State) (ks) : (invalidateCreating s ks).begun = s.begun :=
  foldl_frame (fun t => t.begun) uncreate uncreate_begun ks s

theorem abortSavepoint_begun (s : State) : (abortSavepoint s).begun = s.begun := by
  unfold abortSavepoint
  split
  · rfl
  · rw [invalidateAll_begun]
    show (invalidateCreating _ _).begun = _
    rw [invalidateCreating_begun]

theorem connAbort_begun (s : State) : (connAbort s).begun = s.begun := by
  unfold connAbort tpcCleanup invalidateOwnCreating
  show (invalidateCreating _ _).begun = _
  rw [invalidateCreating_begun, abortSavepoint_begun, abortObjs_begun]

theorem cleanup_not_begun {s : State} (hb : s.begun = false) : cleanup false s = connAbort s := by
  unfold cleanup
  simp only [Bool.false_eq_true, if_false]
  have : (connAbort s).begun = false := by rw [connAbort_begun]; exact hb
  unfold connTpcAbort
  simp [this]

/-- the joined connection is open -/
theorem Inv11.opened_of_joined {s : State} (h : Inv11 s) (hj : s.needsToJoin = false) :
    s.opened = true := by
  cases ho : s.opened with
  | true => rfl
  | false => have := h.closedIdle ho; rw [hj] at this; cases this

theorem txnAbort_inv11 {s : State} (h : Inv11 s) (hb : s.begun = false) : Inv11 (txnAbort s) := by
  unfold txnAbort
  dsimp only
  split
  · rename_i hn; exact afterCompletion_inv11 h hn
  · rename_i hn
    have hj : s.needsToJoin = false := by simpa using hn
    have cf := cleanup_prePoll h (Prog.refl h.str) (Or.inr rfl) false (by intro hh; cases hh)
    rw [cleanup_not_begun hb] at cf
    apply afterCompletion_of_prePoll cf.prePoll
    rw [cf.clean.2.opened]; exact h.opened_of_joined hj

theorem Prog.opened {s0 P t} (h : Prog s0 P t) : t.opened = s0.opened := by
  have := h.ctx
  simp only [Proofs.Conn.ctx, Prod.mk.injEq] at this
  exact this.2.2.2.2.1

theorem Prog.begun {s0 P t} (h : Prog s0 P t) : t.begun = s0.begun := by
  have := h.ctx
  simp only [Proofs.Conn.ctx, Prod.mk.injEq] at this
  exact this.2.2.2.2.2.2.2.2.1

/-- `_commitResources` with the connection joined: whatever happens, the connection ends at a
    transaction boundary -/
theorem commitJoined_prePoll {s1 : State} (h : Inv11 s1) (hb : s1.begun = false) (bound : Nat) :
    PrePoll (commitJoined bound s1).1 ∧ (commitJoined bound s1).1.opened = s1.opened := by
  obtain ⟨h2, hmk, hst, hb2, gok, gfail⟩ := beginCommit_facts h bound
  unfold commitJoined
  dsimp only
  split
  · -- before tpc_begin
    have cf := cleanup_prePoll h (Prog.refl h.str) (Or.inr rfl) false (by intro hh; cases hh)
    exact ⟨cf.prePoll, cf.clean.2.opened⟩
  split
  · have cf := cleanup_prePoll h2 (Prog.refl h2.str) (Or.inr rfl) false (by intro hh; cases hh)
    exact ⟨cf.prePoll, cf.clean.2.opened⟩
  cases hres : (connCommit bound (connTpcBegin s1)).2 with
  | some e =>
    dsimp only
    have hP := gfail (by rw [hres]; simp)
    have cf := cleanup_prePoll h2 hP (Or.inl hmk) false (by intro hh; cases hh)
    exact ⟨cf.prePoll, by rw [cf.clean.2.opened, hP.opened]; rfl⟩
  | none =>
    dsimp only
    obtain ⟨hP, hJ, hall⟩ := gok hres
    split
    · have cf := cleanup_prePoll h2 hP (Or.inl hmk) false (by intro hh; cases hh)
      exact ⟨cf.prePoll, by rw [cf.clean.2.opened, hP.opened]; rfl⟩
    split
    · have cf := cleanup_prePoll h2 hP (Or.inl hmk) true (fun _ => ⟨by rw [hP.begun]; exact hb2, hall⟩)
      exact ⟨cf.prePoll, by rw [cf.clean.2.opened, hP.opened]; rfl⟩
    · have ff := finish_facts h2 hst hmk hP hJ hall
      exact ⟨ff.prePoll, by rw [ff.opened, hP.opened]; rfl⟩

theorem txnCommit_inv11 {s : State} (h : Inv11 s) (hb : s.begun = false) (bound : Nat) (f : Fail) :
    Inv11 (txnCommit bound s f).1 := by
  have h1 : Inv11 { s with fail := f, nstores := 0, sps := [] } :=
    h.congr rfl rfl rfl rfl rfl rfl rfl rfl rfl rfl rfl rfl rfl
  unfold txnCommit
  dsimp only
  split
  · rename_i hn; exact afterCompletion_inv11 h1 hn
  · rename_i hn
    have hj : s.needsToJoin = false := by simpa using hn
    obtain ⟨hp, hop⟩ := commitJoined_prePoll h1 hb bound
    apply afterCompletion_of_prePoll hp
    rw [hop]; exact h.opened_of_joined hj

theorem txnAbortAfterFailure_inv11 {s : State} (h : Inv11 s) (hb : s.begun = false)
    (hn : s.needsToJoin = true) (j : Bool) (hop : j = true → s.opened = true) :
    Inv11 (txnAbortAfterFailure j s) := by
  unfold txnAbortAfterFailure
  dsimp only
  split
  · rename_i hj
    have cf := cleanup_prePoll h (Prog.refl h.str) (Or.inr rfl) false (by intro hh; cases hh)
    rw [cleanup_not_begun hb] at cf
    apply afterCompletion_of_prePoll cf.prePoll
    rw [cf.clean.2.opened]; exact hop hj
  · exact afterCompletion_inv11 h hn

theorem poll_ntj (s : State) : (poll s).needsToJoin = s.needsToJoin := by
  unfold poll
  exact foldl_frame (fun t => t.needsToJoin) pollOne
    (fun t p => (pollOne_frame t p).2.2.2.2.2.2.2.2.2.2.2) _ _

theorem pollOne_opened (s : State) (p) : (pollOne s p).opened = s.opened := by
  unfold pollOne; dsimp only; repeat' split
  all_goals rfl

theorem poll_opened (s : State) : (poll s).opened = s.opened := by
  unfold poll
  exact foldl_frame (fun t => t.opened) pollOne pollOne_opened _ _

theorem afterCompletion_ntj (s : State) : (afterCompletion s).needsToJoin = s.needsToJoin := by
  unfold afterCompletion; dsimp only; split
  · rw [poll_ntj]
  · rfl

theorem afterCompletion_opened (s : State) : (afterCompletion s).opened = s.opened := by
  unfold afterCompletion; dsimp only; split
  · rw [poll_opened]
  · rfl

theorem txnCommit_ntj {s : State} (h : Inv11 s) (hb : s.begun = false) (bound : Nat) (f : Fail) :
    (txnCommit bound s f).1.needsToJoin = true ∧ (txnCommit bound s f).1.opened = s.opened := by
  have h1 : Inv11 { s with fail := f, nstores := 0, sps := [] } :=
    h.congr rfl rfl rfl rfl rfl rfl rfl rfl rfl rfl rfl rfl rfl
  unfold txnCommit
  dsimp only
  split
  · rename_i hn
    rw [afterCompletion_ntj, afterCompletion_opened]; exact ⟨hn, rfl⟩
  · obtain ⟨hp, hop⟩ := commitJoined_prePoll h1 hb bound
    rw [afterCompletion_ntj, afterCompletion_opened]; exact ⟨hp.ntj, hop⟩

theorem opClose_inv11 {s : State} (h : Inv11 s) : Inv11 (opClose s).1 := by
  unfold opClose
  split
  · exact h
  · rename_i hn
    have hn' : s.needsToJoin = true := by simpa using hn
    refine ⟨h.str.congr rfl rfl rfl rfl, h.spNone, h.spsNil, h.creatingNil, h.regOid, h.regStatus,
      h.addedReg, h.changedReg, h.idle, fun _ => hn', h.serial0, h.addedSerial, h.commFresh,
      h.addedUncommitted, h.coh, h.snapC, h.tidB⟩

theorem opOpen_inv11 {s : State} (h : Inv11 s) : Inv11 (opOpen s).1 := by
  unfold opOpen
  split
  · exact h
  · rename_i hop
    have hop' : s.opened = false := by simpa using hop
    have hn := h.closedIdle hop'
    apply poll_inv11
    have hp := h.prePoll hn
    exact ⟨hp.str.congr rfl rfl rfl rfl, hp.spNone, hp.spsNil, hp.creatingNil, hp.regNil, hp.addedNil,
      hp.ntj, hp.noChanged, hp.serial0, hp.commFresh, hp.tidB, hp.pc⟩

theorem opExt_inv11 {s : State} (h : Inv11 s) (i v : Nat) : Inv11 (opExt s i v).1 := by
  unfold opExt
  split
  · exact h
  rename_i k hk
  split
  · exact h
  rename_i r hr
  dsimp only
  refine ⟨h.str.congr rfl rfl rfl rfl, h.spNone, h.spsNil, h.creatingNil, h.regOid, h.regStatus,
    h.addedReg, h.changedReg, h.idle, h.closedIdle, h.serial0, h.addedSerial, ?_, ?_, h.coh, ?_, ?_⟩
  · intro k' hk'
    dsimp only at hk'
    rw [Map.get_set] at hk'
    split at hk'
    · subst_vars; exact h.commFresh _ (by rw [hr]; simp)
    · exact h.commFresh k' hk'
  · intro k' hk'
    dsimp only
    rw [Map.get_set]
    split
    · subst_vars
      have := h.addedUncommitted _ hk'
      rw [hr] at this; cases this
    · exact h.addedUncommitted k' hk'
  · intro k' r' hr'
    dsimp only at hr' ⊢
    obtain ⟨c, hc, q1, q2, q3⟩ := h.snapC k' r' hr'
    rw [Map.get_set]
    split
    · subst_vars
      rw [hr] at hc; cases hc
      have := (h.tidB _ _ hr).2
      refine ⟨_, rfl, q1, ?_, ?_⟩
      · show r'.serial ≤ s.lastTid + 1; omega
      · intro he
        have : r'.serial = s.lastTid + 1 := he
        omega
    · exact ⟨c, hc, q1, q2, q3⟩
  · intro k' c hc
    dsimp only at hc ⊢
    rw [Map.get_set] at hc
    split at hc
    · cases hc
      show 1 ≤ s.lastTid + 1 ∧ s.lastTid + 1 ≤ s.lastTid + 1
      omega
    · have := h.tidB k' c hc
      omega

end Proofs.Conn
