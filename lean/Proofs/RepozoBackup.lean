/-
  Helper lemmas for C18, part 3: the decision tree of `do_backup` and the system-level invariant.
-/
import Proofs.RepozoInv
namespace Proofs.Repozo
open ZodbModel ZodbModel.Repozo

theorem good_dates_mem {r : Repo} {top : Bool} {l : List DFile} {H : List (Nat × Bytes)}
    (h : Good r top l H) : ∀ e ∈ H, ∃ f ∈ l, f.name.date = e.1 := by
  induction l generalizing top H with
  | nil => cases H <;> simp_all [Good]
  | cons f t ih =>
    cases H with
    | nil => simp
    | cons e0 hs =>
      obtain ⟨h1, _, _, _, _, h6⟩ := h
      intro e he
      rcases List.mem_cons.1 he with he | he
      · subst he; exact ⟨f, List.mem_cons_self, h1⟩
      · obtain ⟨g, hg, hgd⟩ := ih h6 e he
        exact ⟨g, List.mem_cons_of_mem _ hg, hgd⟩

theorem good_head {r : Repo} {top : Bool} {f : DFile} {t : List DFile} {H : List (Nat × Bytes)}
    (h : Good r top (f :: t) H) : ∃ e hs, H = e :: hs ∧ f.name.date = e.1 ∧ chainBytes (f :: t) = e.2 := by
  cases H with
  | nil => simp [Good] at h
  | cons e hs => exact ⟨e, hs, rfl, h.1, h.2.1⟩

/-- ghost history after a backup run: a run that wrote a file adds its date and the committed
    bytes, and drops the entries whose files the run removed (`-k`) -/
def histAfter (r' : Repo) (out : Outcome) (H : List (Nat × Bytes)) (now : Nat) (c : Bytes) :
    List (Nat × Bytes) :=
  if wroteFile out then (now, c) :: H.filter (fun e => holds r' e.1) else H

/-! ### which way `do_backup` goes -/

theorem scandat_now {r : Repo} {H : List (Nat × Bytes)} {now : Nat} (hi : Inv r H)
    (hle : ∀ f ∈ r.files, f.name.date ≤ now) (hne : r.files ≠ []) :
    ∃ l f0 rest D, findFiles r now = f0 :: rest ∧ f0.name.date = D ∧ chainDate r.files = some D ∧
      getK D r.dats = some (chainLines r.files) ∧
      scandat r (findFiles r now) = some l ∧ l.endpos = (chainBytes r.files).length ∧
      l.startpos ≤ l.endpos ∧
      concat (findFiles r now) = chainBytes r.files := by
  rw [findFiles_now hi hle]
  cases hfl : r.files with
  | nil => exact absurd hfl hne
  | cons f t =>
    have hg := hi.good
    rw [hfl] at hg
    cases H with
    | nil => simp [Good] at hg
    | cons e hs =>
      obtain ⟨D, hD, hdat⟩ := hg.2.2.2.1 rfl
      obtain ⟨f0, rest, h1, h2, _⟩ := head_reverse_upToFull hD
      obtain ⟨l, hl1, hl2, _, hl4⟩ := chainLines_getLast (f := f) (t := t)
      refine ⟨l, f0, rest, D, h1, h2, hD, hdat, ?_, hl2, by omega, concat_reverse_upToFull _⟩
      rw [h1]
      simp only [scandat, h2, hdat]
      exact hl1

theorem doBackup_cases {r : Repo} {H : List (Nat × Bytes)} {src : Src} {o : BOpts} {now : Nat}
    (hi : Inv r H) (hle : ∀ f ∈ r.files, f.name.date ≤ now)
    (hq : o.quick = true → o.full = false → QuickDetectable r src now) :
    doBackup r src o now = doFullBackup r src o now ∨
    (doBackup r src o now = (r, .noop) ∧ r.files ≠ [] ∧ src.raw = chainBytes r.files) ∨
    (∃ reposz f0 rest D, doBackup r src o now = doIncrementalBackup r src o now reposz (f0 :: rest) ∧
      r.files ≠ [] ∧ f0.name.date = D ∧ chainDate r.files = some D ∧
      getK D r.dats = some (chainLines r.files) ∧
      reposz = (chainBytes r.files).length ∧ src.raw.take reposz = chainBytes r.files) := by
  by_cases hne : r.files = []
  · left
    have : findFiles r now = [] := by rw [findFiles_now hi hle, hne]; rfl
    simp [doBackup, this]
  obtain ⟨l, f0, rest, D, hff, hf0, hD, hdat, hsc, hlen, hse, hcc⟩ := scandat_now hi hle hne
  unfold doBackup
  by_cases hfull : o.full = true
  · left; simp [hfull]
  have hfull' : o.full = false := by simpa using hfull
  simp only [hfull', hff, List.isEmpty_cons, Bool.or_self, Bool.false_eq_true, if_false]
  by_cases hquick : o.quick = true
  · simp only [hquick, if_true]
    rw [← hff, hsc]
    simp only
    have hqd := hq hquick hfull'
    unfold QuickDetectable at hqd
    rw [hsc] at hqd
    simp only at hqd
    by_cases h1 : src.raw.length < l.endpos
    · left; simp [h1]
    simp only [h1, if_false]
    by_cases h2 : l.sum = copyRange src.raw l.startpos (l.endpos - l.startpos)
    · simp only [h2, if_true]
      have hpre : src.raw.take l.endpos = chainBytes r.files := by
        rcases hqd with h | h | h
        · exact absurd h h1
        · exact absurd h2.symm h
        · rw [h, hcc]
      by_cases h3 : src.raw.length = l.endpos
      · right; left
        simp only [h3, if_true]
        refine ⟨trivial, hne, ?_⟩
        rw [← hpre, ← h3, List.take_length]
      · right; right
        simp only [h3, if_false]
        exact ⟨l.endpos, f0, rest, D, by rw [hff], hne, hf0, hD, hdat, hlen, hpre⟩
    · left; simp [h2]
  · have hquick' : o.quick = false := by simpa using hquick
    simp only [hquick', Bool.false_eq_true, if_false]
    rw [← hff, hcc]
    by_cases h1 : src.raw.length = (chainBytes r.files).length ∧
        src.raw.take src.raw.length = chainBytes r.files
    · right; left
      rw [if_pos h1]
      refine ⟨rfl, hne, ?_⟩
      rw [← h1.2, List.take_length]
    · rw [if_neg h1]
      by_cases h2 : src.raw.length < (chainBytes r.files).length
      · left; simp [h2]
      · simp only [h2, if_false]
        by_cases h3 : chainBytes r.files = src.raw.take (chainBytes r.files).length
        · right; right
          simp only [← h3, if_true]
          exact ⟨_, f0, rest, D, by rw [hff], hne, hf0, hD, hdat, rfl, h3.symm⟩
        · left; simp [h3]

/-! ### one backup run keeps the invariant -/

theorem filter_holds_cons_self {H : List (Nat × Bytes)} {g : DFile} {l : List DFile}
    {r : Repo} {top : Bool} (hg : Good r top l H) (r' : Repo) (hfiles : r'.files = g :: l) :
    H.filter (fun e => holds r' e.1) = H := by
  rw [List.filter_eq_self]
  intro e he
  obtain ⟨f, hf, hfd⟩ := good_dates_mem hg e he
  simp only [holds, hfiles, List.any_cons, Bool.or_eq_true, List.any_eq_true, beq_iff_eq]
  exact Or.inr ⟨f, hf, hfd⟩

theorem doBackup_spec {r : Repo} {H : List (Nat × Bytes)} {src : Src} {o : BOpts} {now : Nat}
    (hi : Inv r H) (hlt : ∀ f ∈ r.files, f.name.date < now)
    (hq : o.quick = true → o.full = false → QuickDetectable r src now) :
    ∃ r' out, doBackup r src o now = (r', out) ∧
      Inv r' (histAfter r' out H now src.committed) ∧
      (∀ f ∈ r'.files, f ∈ r.files ∨ f.name.date = now) ∧
      (wroteFile out = true → ∃ f ∈ r'.files, f.name.date = now) ∧
      (out = .noop → r' = r ∧ r.files ≠ [] ∧ src.raw = chainBytes r.files) ∧
      (wroteFile out = false → r'.files = r.files) := by
  have hle : ∀ f ∈ r.files, f.name.date ≤ now := fun f hf => Nat.le_of_lt (hlt f hf)
  rcases doBackup_cases hi hle hq with h | h | h
  · -- full backup
    rw [h, doFullBackup_eq hlt]
    by_cases hk : o.killold = true
    · simp only [hk, if_true]
      refine ⟨_, _, rfl, ?_, ?_, ?_, by simp, by simp [wroteFile]⟩
      · have : histAfter (deleteOldBackups (fullRepo r src o.gz now)) .full H now src.committed
            = [(now, src.committed)] := by
          simp only [histAfter, wroteFile, if_true]
          congr 1
          rw [List.filter_eq_nil_iff]
          intro e he
          obtain ⟨f, hf, hfd⟩ := good_dates_mem hi.good e he
          have := hlt f hf
          rw [deleteOld_fullRepo hi hlt]
          simp [holds, fullFile]; omega
        rw [this]
        exact inv_deleteOld_fullRepo hi hlt
      · rw [deleteOld_fullRepo hi hlt]
        intro f hf
        simp only [List.mem_singleton] at hf
        right; rw [hf]; rfl
      · intro _
        rw [deleteOld_fullRepo hi hlt]
        exact ⟨_, List.mem_cons_self, rfl⟩
    · simp only [hk, Bool.false_eq_true, if_false]
      refine ⟨_, _, rfl, ?_, ?_, ?_, by simp, by simp [wroteFile]⟩
      · have : histAfter (fullRepo r src o.gz now) .full H now src.committed
            = (now, src.committed) :: H := by
          simp only [histAfter, wroteFile, if_true]
          rw [filter_holds_cons_self hi.good (fullRepo r src o.gz now) rfl]
        rw [this]
        exact inv_fullRepo hi hlt
      · intro f hf
        rcases List.mem_cons.1 hf with hf | hf
        · right; rw [hf]; rfl
        · left; exact hf
      · intro _; exact ⟨_, List.mem_cons_self, rfl⟩
  · -- nothing to do
    rw [h.1]
    exact ⟨r, .noop, rfl, by simpa [histAfter, wroteFile] using hi, fun f hf => Or.inl hf,
      by simp [wroteFile], fun _ => ⟨rfl, h.2.1, h.2.2⟩, fun _ => rfl⟩
  · -- incremental backup
    obtain ⟨reposz, f0, rest, D, heq, hne, hf0, hD, hdat, hsz, hpre⟩ := h
    rw [heq]
    by_cases hpos : src.committed.length < reposz
    · -- `assert ndone == n` fails after the index file was written
      have hany : r.files.any (fun f => decide (f.name = (⟨now, false, o.gz⟩ : Name))) = false :=
        any_name_false (nm := ⟨now, false, o.gz⟩) hlt
      refine ⟨{ r with idxs := setK now src.committed r.idxs }, .err .assertion, ?_, ?_,
        fun f hf => Or.inl hf, by simp [wroteFile], by simp, fun _ => rfl⟩
      · simp [doIncrementalBackup, hany, hpos]
      · simpa [histAfter, wroteFile] using inv_orphan_index hi hlt
    · have hle' : reposz ≤ src.committed.length := by omega
      rw [doIncrementalBackup_eq hlt hle' hf0 hdat]
      have hpre' : src.committed.take reposz = chainBytes r.files := by
        rw [← hpre, Src.raw, List.take_append_of_le_length hle']
      refine ⟨_, _, rfl, ?_, ?_, ?_, by simp, by simp [wroteFile]⟩
      · have : histAfter (incrRepo r src o.gz now reposz D (chainLines r.files)) .incr H now
            src.committed = (now, src.committed) :: H := by
          simp only [histAfter, wroteFile, if_true]
          rw [filter_holds_cons_self hi.good
            (incrRepo r src o.gz now reposz D (chainLines r.files)) rfl]
        rw [this]
        exact inv_incrRepo hi hlt hD hsz hpre'
      · intro f hf
        rcases List.mem_cons.1 hf with hf | hf
        · right; rw [hf]; rfl
        · left; exact hf
      · intro _; exact ⟨_, List.mem_cons_self, rfl⟩

/-! ### the system: arbitrary evolution of the source, backups at increasing dates -/

def retained (s : St) : List (Nat × Bytes) := s.hist.filter (fun e => holds s.repo e.1)

structure SInv (s : St) : Prop where
  inv : Inv s.repo (retained s)
  histLe : ∀ e ∈ s.hist, e.1 ≤ s.last
  filesLe : ∀ f ∈ s.repo.files, f.name.date ≤ s.last

theorem sinv_init (src : Src) : SInv (St.init src) :=
  ⟨by simpa [St.init, retained] using inv_empty, by simp [St.init], by simp [St.init, Repo.empty]⟩

theorem sinv_evolve {s : St} (h : SInv s) (src' : Src) : SInv { s with src := src' } :=
  ⟨h.inv, h.histLe, h.filesLe⟩

theorem sinv_backup {s : St} {o : BOpts} {now : Nat} (h : SInv s) (hnow : s.last < now)
    (hq : o.quick = true → o.full = false → QuickDetectable s.repo s.src now) : SInv (backupStep s o now) := by
  have hlt : ∀ f ∈ s.repo.files, f.name.date < now := fun f hf => by
    have := h.filesLe f hf; omega
  obtain ⟨r', out, heq, hinv, hfiles, hnew, _, hsame⟩ := doBackup_spec h.inv hlt hq
  have hstep : backupStep s o now =
      (⟨r', s.src, if wroteFile out then (now, s.src.committed) :: s.hist else s.hist, now⟩ : St) := by
    simp [backupStep, heq]
  rw [hstep]
  refine ⟨?_, ?_, ?_⟩
  · show Inv r' (retained _)
    have : retained (⟨r', s.src, if wroteFile out then (now, s.src.committed) :: s.hist else s.hist,
          now⟩ : St)
        = histAfter r' out (retained s) now s.src.committed := by
      unfold retained histAfter
      by_cases hw : wroteFile out = true
      · simp only [hw, if_true]
        obtain ⟨f, hf, hfd⟩ := hnew hw
        have hh : holds r' now = true := by
          simp only [holds, List.any_eq_true, beq_iff_eq]; exact ⟨f, hf, hfd⟩
        rw [List.filter_cons_of_pos (by simpa using hh)]
        congr 1
        rw [List.filter_filter]
        apply List.filter_congr
        intro e he
        have hne : e.1 ≠ now := by have := h.histLe e he; omega
        by_cases hh' : holds r' e.1 = true
        · have hold : holds s.repo e.1 = true := by
            simp only [holds, List.any_eq_true, beq_iff_eq] at hh' ⊢
            obtain ⟨g, hg, hgd⟩ := hh'
            rcases hfiles g hg with hg' | hg'
            · exact ⟨g, hg', hgd⟩
            · exact absurd (hgd ▸ hg') hne
          simp [hh', hold]
        · simp [hh']
      · have hw' : wroteFile out = false := by simpa using hw
        simp only [hw', Bool.false_eq_true, if_false]
        simp only [holds, hsame hw']
    rw [this]; exact hinv
  · intro e he
    show e.1 ≤ now
    by_cases hw : wroteFile out = true
    · simp only [hw, if_true] at he
      rcases List.mem_cons.1 he with he | he
      · rw [he]; exact Nat.le_refl _
      · have := h.histLe e he; omega
    · simp only [hw] at he
      have := h.histLe e he; omega
  · intro f hf
    show f.name.date ≤ now
    rcases hfiles f hf with hf | hf
    · have := h.filesLe f hf; omega
    · omega

end Proofs.Repozo
