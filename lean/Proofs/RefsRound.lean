/-
  C14 helper lemmas, part 5: writing then reading — the round trip — and small facts about
  `get_refs` and Python-2 `str` oids on the reading side.
  Core Lean only.
-/
import Proofs.RefsCommit
import Proofs.RefsLoad
namespace Proofs.Refs
open ZodbModel ZodbModel.Refs ZodbModel.Refs.Tree

/-- a reference written for leaf `l`, read back by a connection of the writer's database, stands
    for what `l` referred to -/
theorem sameTarget_of {env : Env} {objs : List Obj} {sf : WState} {ls : LState} {l : PLeaf} {tk : Tok}
    {lf : LLeaf} (h1 : TokFor env objs sf l tk) (h2 : LeafFor env.db ls tk lf) :
    SameTarget env objs sf ls l lf := by
  cases l with
  | strong t =>
    obtain ⟨o, oid, ho, hc, hm⟩ := h1
    by_cases hown : curJar env o sf t = env.own
    · rw [if_pos hown] at hm
      have hdb : jarDb env (curJar env o sf t) = env.db := by rw [hown]; rfl
      cases hna : o.newargs.isSome with
      | true =>
        simp only [hna, if_true] at hm; subst hm
        obtain ⟨b, h, x, hb, rfl, ex, hd, hoid⟩ := h2
        simp only [OidTok.norm, Except.ok.injEq] at hb; subst hb
        exact ⟨o, oid, h, x, ho, hc, rfl, ex, hoid, by rw [hdb]; exact hd⟩
      | false =>
        simp only [hna] at hm; subst hm
        obtain ⟨b, h, x, hb, rfl, ex, hd, hoid⟩ := h2
        simp only [OidTok.norm, Except.ok.injEq] at hb; subst hb
        exact ⟨o, oid, h, x, ho, hc, rfl, ex, hoid, by rw [hdb]; exact hd⟩
    · rw [if_neg hown] at hm
      obtain ⟨d, c, hj, hm⟩ := hm
      have hdb : jarDb env (curJar env o sf t) = d := by rw [hj]; rfl
      cases hna : o.newargs.isSome with
      | true =>
        simp only [hna, if_true] at hm; subst hm
        obtain ⟨b, h, x, hb, rfl, ex, hd, hoid⟩ := h2
        simp only [OidTok.norm, Except.ok.injEq] at hb; subst hb
        exact ⟨o, oid, h, x, ho, hc, rfl, ex, hoid, by rw [hdb]; exact hd⟩
      | false =>
        simp only [hna] at hm; subst hm
        obtain ⟨b, h, x, hb, rfl, ex, hd, hoid⟩ := h2
        simp only [OidTok.norm, Except.ok.injEq] at hb; subst hb
        exact ⟨o, oid, h, x, ho, hc, rfl, ex, hoid, by rw [hdb]; exact hd⟩
  | weak t =>
    obtain ⟨o, oid, ho, hc, hm⟩ := h1
    by_cases hown : curJar env o sf t = env.own
    · rw [if_pos hown] at hm; subst hm
      obtain ⟨b, hb, rfl⟩ := h2
      simp only [OidTok.norm, Except.ok.injEq] at hb; subst hb
      exact ⟨o, oid, ho, hc, by simp [hown]⟩
    · rw [if_neg hown] at hm
      obtain ⟨d, c, hj, rfl⟩ := hm
      obtain ⟨b, hb, rfl⟩ := h2
      simp only [OidTok.norm, Except.ok.injEq] at hb; subst hb
      exact ⟨o, oid, ho, hc, by rw [if_neg hown, hj]; rfl⟩

/-! ### every stored object has an oid when the commit is over -/

theorem curOid_of_mem_AH {o : Obj} {s : WState} {h : H} (hm : h ∈ AH s) : curOid o s h ≠ none := by
  unfold curOid
  cases hl : lookup h s.assigned with
  | some x => simp
  | none => exact absurd hm ((lookup_none_iff h _).1 hl)

/-- everything on the stack has an oid -/
def SInv (objs : List Obj) (s : WState) : Prop :=
  ∀ h ∈ s.stack, ∃ o, objs[h]? = some o ∧ curOid o s h ≠ none

theorem curOid_ne_none_mono {objs : List Obj} {s s' : WState} (he : Ext objs s s') {h : H} {o : Obj}
    (ho : objs[h]? = some o) (hc : curOid o s h ≠ none) : curOid o s' h ≠ none := by
  cases hc' : curOid o s h with
  | none => exact absurd hc' hc
  | some oid => rw [curOid_mono he ho hc']; simp

theorem storeLoop_oids {env : Env} {objs : List Obj} :
    ∀ (fuel : Nat) (s s' : WState) (out : List (H × Record)), SInv objs s →
      storeLoop env objs fuel s = .ok (out, s') →
      ∀ hr ∈ out, ∃ o, objs[hr.1]? = some o ∧ curOid o s' hr.1 ≠ none
  | 0, s, s', out, _, h => by
    obtain ⟨_, rfl, rfl⟩ := storeLoop_zero_ok h
    simp
  | fuel + 1, s, s', out, hi, h => by
    rcases storeLoop_succ_ok h with ⟨_, rfl, rfl⟩ | ⟨x, rest, r, s1, out', hst, hs, hr, rfl⟩
    · simp
    · obtain ⟨o, ho, he, _, new, h1, h2, _, h4, _⟩ := serialize_disc hs
      have he' : Ext objs s s1 := he
      have h1' : s1.stack = new.reverse ++ rest := h1
      have hi1 : SInv objs s1 := by
        intro n hn
        rw [h1'] at hn
        rcases List.mem_append.1 hn with hn | hn
        · obtain ⟨_, ⟨o', ho', _⟩, _⟩ := h4 n (List.mem_reverse.1 hn)
          refine ⟨o', ho', curOid_of_mem_AH ?_⟩
          rw [h2]; exact List.mem_append_left _ hn
        · obtain ⟨o', ho', hc'⟩ := hi n (by rw [hst]; exact List.mem_cons_of_mem _ hn)
          exact ⟨o', ho', curOid_ne_none_mono he' ho' hc'⟩
      have ih := storeLoop_oids fuel s1 s' out' hi1 hr
      obtain ⟨he2, _⟩ := storeLoop_records fuel s1 s' out' hr
      intro hr' hmem
      rcases List.mem_cons.1 hmem with rfl | hmem
      · obtain ⟨o', ho', hc'⟩ := hi x (by rw [hst]; simp)
        exact ⟨o', ho', curOid_ne_none_mono (ext_trans he' he2) ho' hc'⟩
      · exact ih hr' hmem

theorem commitLoop_oids {env : Env} {objs : List Obj} {p : Pending} {fuel : Nat} :
    ∀ (reg : List H) (s s' : WState) (done : List H) (out : List (H × Record)),
      commitLoop env objs p fuel reg s done = .ok (out, s') →
      ∀ hr ∈ out, ∃ o, objs[hr.1]? = some o ∧ curOid o s' hr.1 ≠ none
  | [], s, s', done, out, h => by
    simp only [commitLoop, Except.ok.injEq, Prod.mk.injEq] at h
    obtain ⟨rfl, rfl⟩ := h
    simp
  | x :: rest, s, s', done, out, h => by
    obtain ⟨o, ho, hcur, _, hcase⟩ := commitLoop_cons_ok h
    rcases hcase with ⟨_, out1, s1, out2, hs, hr, rfl⟩ | ⟨_, hr⟩
    · have hi : SInv objs { s with stack := [x] } := by
        intro n hn
        have : n = x := by simpa using hn
        subst this
        exact ⟨o, ho, hcur⟩
      have r1 := storeLoop_oids fuel _ s1 out1 hi hs
      have r2 := commitLoop_oids rest s1 s' _ out2 hr
      obtain ⟨e2, _⟩ := commitLoop_records rest s1 s' _ out2 hr
      intro hr' hmem
      rcases List.mem_append.1 hmem with hmem | hmem
      · obtain ⟨o', ho', hc'⟩ := r1 hr' hmem
        exact ⟨o', ho', curOid_ne_none_mono e2 ho' hc'⟩
      · exact r2 hr' hmem
    · exact commitLoop_oids rest s s' done out hr

theorem commit_out_oid {env : Env} {objs : List Obj} {p : Pending} {out : List (H × Record)}
    {sf : WState} (hc : commit env objs p = .ok (out, sf)) :
    ∀ hr ∈ out, ∃ oid, finalOid objs sf hr.1 = some oid := by
  intro hr hmem
  obtain ⟨o, ho, hne⟩ := commitLoop_oids p.registered WState.init sf [] out hc hr hmem
  unfold finalOid
  rw [ho]
  cases hc' : curOid o sf hr.1 with
  | none => exact absurd hc' hne
  | some oid => exact ⟨oid, by simp [hc']⟩

/-! ### the round trip of one record and of a whole session -/

theorem roundtrip_state {env : Env} {objs : List Obj} {sf : WState} {o : Obj} {r : Record}
    {ls : LState} {t : Tree LLeaf} (hr : RecFor env objs sf o r)
    (hl : Tree.Rel (LeafFor env.db ls) r.state t) : Tree.Rel (SameTarget env objs sf ls) o.state t :=
  Rel.comp (R := TokFor env objs sf) (S := LeafFor env.db ls) (T := SameTarget env objs sf ls) (fun _ _ _ h1 h2 => sameTarget_of h1 h2) hr.2.2 hl

/-- Load anything, in any order, from a database that holds the records of a commit: every activated
    object whose oid is that of a stored object has that object's state, each strong reference
    leading to the in-memory object with the oid (and database) the referenced object had. -/
theorem roundtrip_session {env : Env} {objs : List Obj} {p : Pending} {out : List (H × Record)}
    {sf : WState} (hc : commit env objs p = .ok (out, sf)) (lenv : LEnv)
    (hstore : ∀ hr ∈ out, ∀ oid, finalOid objs sf hr.1 = some oid →
      lookup (env.db, oid) lenv.store = some hr.2)
    (ops : List LOp) :
    ∀ hr ∈ out, ∀ (o : Obj) (oid : Oid) (hl : Nat) (x : LObj) (t : Tree LLeaf),
      objs[hr.1]? = some o → finalOid objs sf hr.1 = some oid →
      (lrun lenv ops).heap[hl]? = some x → x.db = env.db → x.oid = oid → x.state = some t →
      Tree.Rel (SameTarget env objs sf (lrun lenv ops)) o.state t := by
  intro hr hmem o oid hl x t ho hoid ex hdb hxo hst
  obtain ⟨_, hs⟩ := lrun_inv lenv ops
  obtain ⟨r, hlook, rel⟩ := hs hl x t ex hst
  rw [hdb, hxo, hstore hr hmem oid hoid] at hlook
  cases hlook
  obtain ⟨o', ho', hrec⟩ := commit_records hc hr hmem
  rw [ho] at ho'; cases ho'
  rw [hdb] at rel
  exact roundtrip_state hrec rel

/-! ### `get_refs`, and `str` oids on the reading side -/

theorem getRefs_fst (toks : List Tok) :
    (getRefs toks).map (fun l => l.map (·.1)) = referencesOf toks := by
  induction toks with
  | nil => rfl
  | cons t ts ih =>
    cases t with
    | tup o c =>
      simp only [getRefs, referencesOf]
      rw [← ih]
      cases o.norm <;> cases getRefs ts <;> rfl
    | oid o =>
      simp only [getRefs, referencesOf]
      rw [← ih]
      cases o.norm <;> cases getRefs ts <;> rfl
    | weak o d => simpa [getRefs, referencesOf] using ih
    | multi d o c => simpa [getRefs, referencesOf] using ih
    | multiOid d o => simpa [getRefs, referencesOf] using ih
    | legacyWeak o => simpa [getRefs, referencesOf] using ih

theorem persistentLoad_py2 (lenv : LEnv) (db : Db) (ls : LState) (tk : Tok) :
    persistentLoad lenv db ls (Tok.mapOid py2 tk) = persistentLoad lenv db ls tk := by
  cases tk <;> simp [persistentLoad, Tok.mapOid, loadPersistent, loadOid, norm_py2]

end Proofs.Refs
