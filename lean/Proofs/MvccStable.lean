/-
  Within an epoch the snapshot function itself never changes (C02: "ONE point of the commit
  order"), and the log only grows.
-/
import Proofs.MvccMain
namespace Proofs.Mvcc
open ZodbModel.Mvcc

theorem vlog_eq_of {s s' : Sys} (h1 : s'.log = s.log) (h2 : s'.infl = s.infl) : vlog s' = vlog s := by
  unfold vlog finishing; rw [h1, h2]

theorem vlog_of_not_finishing {s : Sys} (h : ∀ f, s.infl = some f → f.phase ≠ .finishing) :
    vlog s = s.log := by
  rcases vlog_cases s with ⟨f, hf, hp, _⟩ | ⟨_, hv⟩
  · exact absurd hp (h f hf)
  · exact hv

theorem vlog_of_finishing {s : Sys} {f : Infl} (hf : s.infl = some f) (hp : f.phase = .finishing) :
    vlog s = f.txn :: s.log := by
  rcases vlog_cases s with ⟨f', hf', _, hv⟩ | ⟨hn, _⟩
  · rw [hf] at hf'; simp only [Option.some.injEq] at hf'; subst hf'; exact hv
  · exact absurd hp (hn f hf)

/-- how an action changes the virtual log: not at all, except `finishEnter`, which adds the
    transaction now certain to be published -/
theorem vlog_step {s s' : Sys} (a : Act) (h : step s a = .ok s') :
    vlog s' = vlog s ∨
    (∃ f, a = .finishEnter ∧ s.infl = some f ∧ f.phase = .voted ∧ vlog s = s.log ∧
          vlog s' = f.txn :: s.log) := by
  cases a with
  | newInstance => have := newInstance_ok h; subst this; exact Or.inl (vlog_eq_of rfl rfl)
  | reopen i => obtain ⟨_, _, rfl⟩ := reopen_ok h; exact Or.inl (vlog_eq_of rfl rfl)
  | close i => obtain ⟨_, rfl⟩ := close_ok h; exact Or.inl (vlog_eq_of rfl rfl)
  | pollRead i => obtain ⟨_, _, _, rfl⟩ := pollRead_ok h; exact Or.inl (vlog_eq_of rfl rfl)
  | pollApply i => obtain ⟨L, _, _, _, rfl⟩ := pollApply_ok h; exact Or.inl (vlog_eq_of rfl rfl)
  | read i oid =>
    obtain ⟨_, hc⟩ := read_ok h
    rcases hc with rfl | ⟨_, _, _, _, _, _, rfl⟩
    · exact Or.inl rfl
    · exact Or.inl (vlog_eq_of rfl rfl)
  | write i oid d => obtain ⟨_, rfl⟩ := write_ok h; exact Or.inl (vlog_eq_of rfl rfl)
  | invalidateCache i => obtain ⟨_, rfl⟩ := invalidateCache_ok h; exact Or.inl (vlog_eq_of rfl rfl)
  | abort i =>
    obtain ⟨_, hnfb, rfl⟩ := abort_ok h
    left
    dsimp only
    split
    · next hc =>
      have hnf : ∀ f, s.infl = some f → f.phase ≠ .finishing := by
        intro f hf hp
        simp only [committing, hf] at hc
        simp [inFinishBy, finishing, hf, hp] at hnfb
        simp [hnfb] at hc
      rw [vlog_of_not_finishing hnf]
      rw [vlog_of_not_finishing (s := dropInfl _) (fun f hf => by rw [dropInfl_infl] at hf; cases hf)]
      rw [dropInfl_log]; rfl
    · exact vlog_eq_of rfl rfl
  | begin c t =>
    obtain ⟨hnone, _, rfl⟩ := begin_ok h
    left
    rw [vlog_of_not_finishing (s := s) (fun f hf => by rw [hnone] at hf; cases hf)]
    exact vlog_of_not_finishing (fun f hf => by
      simp only [Option.some.injEq] at hf; subst hf; exact fun e => by cases e)
  | store ws =>
    obtain ⟨f, ws', hf, hp, rfl⟩ := store_ok h
    left
    rw [vlog_of_not_finishing (s := s) (fun f' hf' => by
      rw [hf] at hf'; simp only [Option.some.injEq] at hf'; subst hf'; rw [hp]; decide)]
    exact vlog_of_not_finishing (fun f' hf' => by
      simp only [Option.some.injEq] at hf'; subst hf'; exact fun e => by cases e)
  | vote =>
    obtain ⟨f, hf, hp, rfl⟩ := vote_ok h
    left
    rw [vlog_of_not_finishing (s := s) (fun f' hf' => by
      rw [hf] at hf'; simp only [Option.some.injEq] at hf'; subst hf'; rw [hp]; decide)]
    exact vlog_of_not_finishing (fun f' hf' => by
      simp only [Option.some.injEq] at hf'; subst hf'; exact fun e => by cases e)
  | extAbort =>
    obtain ⟨f, hf, hp, rfl⟩ := extAbort_ok h
    left
    rw [vlog_of_not_finishing (s := s) (fun f' hf' => by
      rw [hf] at hf'; simp only [Option.some.injEq] at hf'; subst hf'; exact hp)]
    exact vlog_of_not_finishing (fun f' hf' => by cases hf')
  | finishEnter =>
    obtain ⟨f, hf, hp, rfl⟩ := finishEnter_ok h
    right
    refine ⟨f, rfl, hf, hp, ?_, ?_⟩
    · exact vlog_of_not_finishing (fun f' hf' => by
        rw [hf] at hf'; simp only [Option.some.injEq] at hf'; subst hf'; rw [hp]; decide)
    · exact vlog_of_finishing (s := { s with infl := some { f with phase := .finishing } })
        (f := { f with phase := .finishing }) rfl rfl
  | deliver j =>
    obtain ⟨f, hf, hp, _, _, _, rfl⟩ := deliver_ok h
    left
    rw [vlog_of_finishing hf hp]
    exact vlog_of_finishing (f := { f with delivered := j :: f.delivered }) rfl hp
  | publish =>
    obtain ⟨f, hf, hp, _, rfl⟩ := publish_ok h
    left
    rw [vlog_of_finishing hf hp]
    cases f.who with
    | none => exact vlog_of_not_finishing (fun f' hf' => by cases hf')
    | some i => exact vlog_of_not_finishing (s := setInst _ i _) (fun f' hf' => by cases hf')
  | openHist a b => obtain ⟨_, _, _, _, rfl⟩ := openHist_ok h; exact Or.inl (vlog_eq_of rfl rfl)
  | hread hh oid =>
    obtain ⟨_, hc⟩ := hread_ok h
    rcases hc with rfl | ⟨_, _, _, _, rfl⟩
    · exact Or.inl rfl
    · exact Or.inl (vlog_eq_of rfl rfl)
  | hpoll hh => have := hpoll_ok h; subst this; exact Or.inl rfl
  | hcommit hh => exact absurd h hcommit_not_ok
  | hstore hh => exact absurd h hstore_not_ok
  | hnewOid hh => exact absurd h hnewOid_not_ok

theorem setInst_start {s : Sys} {j : Nat} {x' : Inst} (i : Nat) (h : x'.start = (s.insts j).start) :
    ((setInst s j x').insts i).start = (s.insts i).start := by
  show (upd s.insts j x' i).start = _
  by_cases hij : i = j
  · subst hij; rw [upd_same]; exact h
  · rw [upd_other _ _ _ _ hij]

/-- only instance `i`'s own `pollApply` moves its bound -/
theorem start_step {s s' : Sys} (a : Act) (h : step s a = .ok s') {i : Nat} (hi : i < s.n)
    (ha : a ≠ .pollApply i) : (s'.insts i).start = (s.insts i).start := by
  cases a with
  | newInstance =>
    have := newInstance_ok h; subst this
    show (upd s.insts s.n _ i).start = _
    rw [upd_other _ _ _ _ (by omega)]
  | reopen j => obtain ⟨_, _, rfl⟩ := reopen_ok h; exact setInst_start i rfl
  | close j => obtain ⟨_, rfl⟩ := close_ok h; exact setInst_start i rfl
  | pollRead j => obtain ⟨_, _, _, rfl⟩ := pollRead_ok h; exact setInst_start i rfl
  | pollApply j =>
    obtain ⟨L, _, _, _, rfl⟩ := pollApply_ok h
    have hij : i ≠ j := fun e => ha (by rw [e])
    show (upd s.insts j _ i).start = _
    rw [upd_other _ _ _ _ hij]
  | read j oid =>
    obtain ⟨_, hc⟩ := read_ok h
    rcases hc with rfl | ⟨_, _, _, _, _, _, rfl⟩
    · rfl
    · exact setInst_start i rfl
  | write j oid d => obtain ⟨_, rfl⟩ := write_ok h; exact setInst_start i rfl
  | invalidateCache j => obtain ⟨_, rfl⟩ := invalidateCache_ok h; exact setInst_start i rfl
  | abort j =>
    obtain ⟨_, _, rfl⟩ := abort_ok h
    dsimp only
    split
    · rw [dropInfl_insts]; exact setInst_start (s := s) i rfl
    · exact setInst_start i rfl
  | begin c t => obtain ⟨_, _, rfl⟩ := begin_ok h; rfl
  | store ws => obtain ⟨f, ws', _, _, rfl⟩ := store_ok h; rfl
  | vote => obtain ⟨f, _, _, rfl⟩ := vote_ok h; rfl
  | extAbort => obtain ⟨f, _, _, rfl⟩ := extAbort_ok h; rfl
  | finishEnter => obtain ⟨f, _, _, rfl⟩ := finishEnter_ok h; rfl
  | deliver j =>
    obtain ⟨f, _, _, _, _, _, rfl⟩ := deliver_ok h
    show (upd s.insts j _ i).start = _
    by_cases hij : i = j
    · subst hij; rw [upd_same]
    · rw [upd_other _ _ _ _ hij]
  | publish =>
    obtain ⟨f, _, _, _, rfl⟩ := publish_ok h
    cases f.who with
    | none => rfl
    | some j => exact setInst_start (s := { s with log := f.txn :: s.log, infl := none }) i rfl
  | openHist a b => obtain ⟨_, _, _, _, rfl⟩ := openHist_ok h; rfl
  | hread hh oid =>
    obtain ⟨_, hc⟩ := hread_ok h
    rcases hc with rfl | ⟨_, _, _, _, rfl⟩ <;> rfl
  | hpoll hh => have := hpoll_ok h; subst this; rfl
  | hcommit hh => exact absurd h hcommit_not_ok
  | hstore hh => exact absurd h hstore_not_ok
  | hnewOid hh => exact absurd h hnewOid_not_ok

/-- Between two of its own polls, the snapshot an instance reads from is one fixed function:
    no action of anybody changes `stateAt (vlog ·) start_i`. -/
theorem snapshot_stable {s s' : Sys} (hr : Reachable s) (a : Act) (h : step s a = .ok s')
    {i : Nat} (hi : i < s.n) (ha : a ≠ .pollApply i) :
    (s'.insts i).start = (s.insts i).start ∧
    ∀ oid, stateAt (vlog s') (s'.insts i).start oid = stateAt (vlog s) (s.insts i).start oid := by
  have hst := start_step a h hi ha
  refine ⟨hst, fun oid => ?_⟩
  rw [hst]
  rcases vlog_step a h with hv | ⟨f, _, hf, hp, hv, hv'⟩
  · rw [hv]
  · rw [hv, hv']
    have hinv := mvcc_inv hr
    have hd : f.delivered = [] := (hinv.glob.infl_ok f hf).2.2.2.1 (by rw [hp]; decide)
    have := start_le_infl hinv.glob (hinv.inst i hi) hf (by rw [hd]; simp)
    exact stateAt_cons_ge oid this

/-- the committed log only grows, by transactions newer than everything in it -/
theorem log_grows {s s' : Sys} (a : Act) (h : step s a = .ok s') :
    s'.log = s.log ∨ ∃ T, s'.log = T :: s.log := by
  cases a with
  | newInstance => have := newInstance_ok h; subst this; exact Or.inl rfl
  | reopen i => obtain ⟨_, _, rfl⟩ := reopen_ok h; exact Or.inl rfl
  | close i => obtain ⟨_, rfl⟩ := close_ok h; exact Or.inl rfl
  | pollRead i => obtain ⟨_, _, _, rfl⟩ := pollRead_ok h; exact Or.inl rfl
  | pollApply i => obtain ⟨L, _, _, _, rfl⟩ := pollApply_ok h; exact Or.inl rfl
  | read i oid =>
    obtain ⟨_, hc⟩ := read_ok h
    rcases hc with rfl | ⟨_, _, _, _, _, _, rfl⟩ <;> exact Or.inl rfl
  | write i oid d => obtain ⟨_, rfl⟩ := write_ok h; exact Or.inl rfl
  | invalidateCache i => obtain ⟨_, rfl⟩ := invalidateCache_ok h; exact Or.inl rfl
  | abort i =>
    obtain ⟨_, _, rfl⟩ := abort_ok h
    dsimp only
    split
    · rw [dropInfl_log]; exact Or.inl rfl
    · exact Or.inl rfl
  | begin c t => obtain ⟨_, _, rfl⟩ := begin_ok h; exact Or.inl rfl
  | store ws => obtain ⟨f, ws', _, _, rfl⟩ := store_ok h; exact Or.inl rfl
  | vote => obtain ⟨f, _, _, rfl⟩ := vote_ok h; exact Or.inl rfl
  | extAbort => obtain ⟨f, _, _, rfl⟩ := extAbort_ok h; exact Or.inl rfl
  | finishEnter => obtain ⟨f, _, _, rfl⟩ := finishEnter_ok h; exact Or.inl rfl
  | deliver j => obtain ⟨f, _, _, _, _, _, rfl⟩ := deliver_ok h; exact Or.inl rfl
  | publish =>
    obtain ⟨f, _, _, _, rfl⟩ := publish_ok h
    right
    cases f.who with
    | none => exact ⟨_, rfl⟩
    | some j => exact ⟨_, rfl⟩
  | openHist a b => obtain ⟨_, _, _, _, rfl⟩ := openHist_ok h; exact Or.inl rfl
  | hread hh oid =>
    obtain ⟨_, hc⟩ := hread_ok h
    rcases hc with rfl | ⟨_, _, _, _, rfl⟩ <;> exact Or.inl rfl
  | hpoll hh => have := hpoll_ok h; subst this; exact Or.inl rfl
  | hcommit hh => exact absurd h hcommit_not_ok
  | hstore hh => exact absurd h hstore_not_ok
  | hnewOid hh => exact absurd h hnewOid_not_ok

end Proofs.Mvcc
