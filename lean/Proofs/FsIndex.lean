/-
  Helper lemmas for C19 (`Props/C19.lean`): the model of `fsIndex` (`ZodbModel/FsIndex.lean`)
  refines a sorted dictionary.  Core Lean only.
-/
import ZodbModel.FsIndex
namespace Proofs.FsIndex
open ZodbModel ZodbModel.FsIndex

/-- decidable equality of results, so that concrete runs of the model can be checked by `decide` -/
instance instDecidableEqExcept {ε α : Type} [DecidableEq ε] [DecidableEq α] :
    DecidableEq (Except ε α) := fun a b =>
  match a, b with
  | .ok x, .ok y =>
    if h : x = y then isTrue (by rw [h]) else isFalse (fun e => h (by injection e))
  | .error x, .error y =>
    if h : x = y then isTrue (by rw [h]) else isFalse (fun e => h (by injection e))
  | .ok _, .error _ => isFalse (fun e => by cases e)
  | .error _, .ok _ => isFalse (fun e => by cases e)

/-! ### generic lemmas on sorted association lists -/

abbrev Sorted {α} (l : AL α) : Prop := l.Pairwise (fun x y => x.1 < y.1)

theorem alGet_mem {α} {k : Nat} {v : α} {l : AL α} (h : alGet k l = some v) : (k, v) ∈ l := by
  induction l with
  | nil => simp [alGet] at h
  | cons x t ih =>
    obtain ⟨k', v'⟩ := x
    simp only [alGet] at h
    split at h
    · simp_all
    · exact List.mem_cons_of_mem _ (ih h)

theorem alGet_of_mem {α} {k : Nat} {v : α} {l : AL α} (hs : Sorted l) (h : (k, v) ∈ l) :
    alGet k l = some v := by
  induction l with
  | nil => simp at h
  | cons x t ih =>
    obtain ⟨k', v'⟩ := x
    rw [Sorted, List.pairwise_cons] at hs
    simp only [alGet]
    rcases List.mem_cons.1 h with h | h
    · simp_all
    · have := hs.1 _ h
      simp only at this
      rw [if_neg (by omega)]
      exact ih hs.2 h

theorem alGet_eq_some_iff {α} {k : Nat} {v : α} {l : AL α} (hs : Sorted l) :
    alGet k l = some v ↔ (k, v) ∈ l := ⟨alGet_mem, alGet_of_mem hs⟩

theorem alGet_ne_none {α} {k : Nat} {l : AL α} (h : alGet k l ≠ none) : ∃ v, (k, v) ∈ l := by
  cases h' : alGet k l with
  | none => exact absurd h' h
  | some v => exact ⟨v, alGet_mem h'⟩

theorem alGet_eq_none_of {α} {k : Nat} {l : AL α} (h : ∀ x ∈ l, x.1 ≠ k) : alGet k l = none := by
  cases h' : alGet k l with
  | none => rfl
  | some v => exact absurd rfl (h _ (alGet_mem h'))

theorem alGet_alSet {α} (k k' : Nat) (v : α) (l : AL α) :
    alGet k' (alSet k v l) = if k' = k then some v else alGet k' l := by
  induction l with
  | nil => simp [alSet, alGet]
  | cons x t ih =>
    obtain ⟨k₀, v₀⟩ := x
    simp only [alSet]
    split
    · simp [alGet]
    · split
      · subst_vars
        simp only [alGet]
        split <;> rfl
      · simp only [alGet, ih]
        split
        · subst_vars
          rw [if_neg (by omega)]
        · rfl

theorem mem_alSet {α} {k : Nat} {v : α} {l : AL α} {x : Nat × α} (h : x ∈ alSet k v l) :
    x = (k, v) ∨ x ∈ l := by
  induction l with
  | nil => simpa [alSet] using h
  | cons y t ih =>
    obtain ⟨k₀, v₀⟩ := y
    simp only [alSet] at h
    split at h
    · simpa using h
    · split at h
      · rcases List.mem_cons.1 h with h | h
        · exact .inl h
        · exact .inr (List.mem_cons_of_mem _ h)
      · rcases List.mem_cons.1 h with h | h
        · exact .inr (h ▸ List.mem_cons_self)
        · rcases ih h with h | h
          · exact .inl h
          · exact .inr (List.mem_cons_of_mem _ h)

theorem alSet_sorted {α} (k : Nat) (v : α) {l : AL α} (hs : Sorted l) : Sorted (alSet k v l) := by
  induction l with
  | nil => simp [alSet, Sorted]
  | cons y t ih =>
    obtain ⟨k₀, v₀⟩ := y
    have hs' := List.pairwise_cons.1 hs
    simp only [alSet]
    split
    · refine List.pairwise_cons.2 ⟨?_, hs⟩
      intro a ha
      rcases List.mem_cons.1 ha with ha | ha
      · subst ha; simpa
      · have := hs'.1 _ ha
        simp only at this ⊢
        omega
    · split
      · subst_vars
        exact List.pairwise_cons.2 ⟨hs'.1, hs'.2⟩
      · refine List.pairwise_cons.2 ⟨?_, ih hs'.2⟩
        intro a ha
        rcases mem_alSet ha with ha | ha
        · subst ha
          simp only
          omega
        · exact hs'.1 _ ha

theorem alDel_sublist {α} (k : Nat) (l : AL α) : (alDel k l).Sublist l := by
  induction l with
  | nil => simp [alDel]
  | cons y t ih =>
    obtain ⟨k₀, v₀⟩ := y
    simp only [alDel]
    split
    · exact List.sublist_cons_self _ _
    · exact ih.cons_cons _

theorem alDel_sorted {α} (k : Nat) {l : AL α} (hs : Sorted l) : Sorted (alDel k l) :=
  List.Pairwise.sublist (alDel_sublist k l) hs

theorem mem_alDel {α} {k : Nat} {l : AL α} {x : Nat × α} (h : x ∈ alDel k l) : x ∈ l :=
  (alDel_sublist k l).subset h

theorem alGet_alDel {α} (k k' : Nat) {l : AL α} (hs : Sorted l) :
    alGet k' (alDel k l) = if k' = k then none else alGet k' l := by
  induction l with
  | nil => simp [alDel, alGet]
  | cons y t ih =>
    obtain ⟨k₀, v₀⟩ := y
    have hs' := List.pairwise_cons.1 hs
    simp only [alDel]
    split
    · subst_vars
      simp only [alGet]
      split
      · subst_vars
        apply alGet_eq_none_of
        intro x hx
        have := hs'.1 _ hx
        simp only at this
        omega
      · rfl
    · simp only [alGet, ih hs'.2]
      split
      · subst_vars
        rw [if_neg (by omega)]
      · rfl

/-! ### bounded searches on sorted association lists -/

theorem alMinGE_none {α} {k : Nat} {l : AL α} (h : alMinGE k l = none) : ∀ x ∈ l, x.1 < k := by
  induction l with
  | nil => simp
  | cons y t ih =>
    obtain ⟨k₀, v₀⟩ := y
    simp only [alMinGE] at h
    split at h
    · simp at h
    · intro x hx
      rcases List.mem_cons.1 hx with hx | hx
      · subst hx; simp only; omega
      · exact ih h x hx

theorem alMinGE_some {α} {k m : Nat} {l : AL α} (hs : Sorted l) (h : alMinGE k l = some m) :
    (∃ v, (m, v) ∈ l) ∧ k ≤ m ∧ ∀ x ∈ l, k ≤ x.1 → m ≤ x.1 := by
  induction l with
  | nil => simp [alMinGE] at h
  | cons y t ih =>
    obtain ⟨k₀, v₀⟩ := y
    have hs' := List.pairwise_cons.1 hs
    simp only [alMinGE] at h
    split at h
    · injection h with h; subst h
      refine ⟨⟨v₀, List.mem_cons_self⟩, ‹_›, ?_⟩
      intro x hx _
      rcases List.mem_cons.1 hx with hx | hx
      · subst hx; exact Nat.le_refl _
      · exact Nat.le_of_lt (hs'.1 _ hx)
    · obtain ⟨⟨v, hv⟩, h2, h3⟩ := ih hs'.2 h
      refine ⟨⟨v, List.mem_cons_of_mem _ hv⟩, h2, ?_⟩
      intro x hx hk
      rcases List.mem_cons.1 hx with hx | hx
      · subst hx; simp only at hk; omega
      · exact h3 x hx hk

theorem alMaxLE_none {α} {k : Nat} {l : AL α} (hs : Sorted l) (h : alMaxLE k l = none) :
    ∀ x ∈ l, k < x.1 := by
  cases l with
  | nil => simp
  | cons y t =>
    obtain ⟨k₀, v₀⟩ := y
    have hs' := List.pairwise_cons.1 hs
    simp only [alMaxLE] at h
    split at h
    · split at h <;> simp at h
    · intro x hx
      rcases List.mem_cons.1 hx with hx | hx
      · subst hx; simp only; omega
      · have := hs'.1 _ hx
        simp only at this
        omega

theorem alMaxLE_some {α} {k m : Nat} {l : AL α} (hs : Sorted l) (h : alMaxLE k l = some m) :
    (∃ v, (m, v) ∈ l) ∧ m ≤ k ∧ ∀ x ∈ l, x.1 ≤ k → x.1 ≤ m := by
  induction l generalizing m with
  | nil => simp [alMaxLE] at h
  | cons y t ih =>
    obtain ⟨k₀, v₀⟩ := y
    have hs' := List.pairwise_cons.1 hs
    simp only [alMaxLE] at h
    split at h
    · cases h' : alMaxLE k t with
      | none =>
        rw [h'] at h
        injection h with h; subst h
        refine ⟨⟨v₀, List.mem_cons_self⟩, ‹_›, ?_⟩
        intro x hx hk
        rcases List.mem_cons.1 hx with hx | hx
        · subst hx; exact Nat.le_refl _
        · have := alMaxLE_none hs'.2 h' x hx
          omega
      | some m' =>
        rw [h'] at h
        injection h with h; subst h
        obtain ⟨⟨v, hv⟩, h2, h3⟩ := ih hs'.2 h'
        refine ⟨⟨v, List.mem_cons_of_mem _ hv⟩, h2, ?_⟩
        intro x hx hk
        rcases List.mem_cons.1 hx with hx | hx
        · subst hx
          exact Nat.le_of_lt (hs'.1 _ hv)
        · exact h3 x hx hk
    · simp at h

theorem alMin_spec {α} {l : AL α} (hs : Sorted l) (hne : l ≠ []) :
    ∃ s v, alMin l = some s ∧ (s, v) ∈ l ∧ ∀ x ∈ l, s ≤ x.1 := by
  cases l with
  | nil => exact absurd rfl hne
  | cons y t =>
    obtain ⟨k₀, v₀⟩ := y
    have hs' := List.pairwise_cons.1 hs
    refine ⟨k₀, v₀, rfl, List.mem_cons_self, ?_⟩
    intro x hx
    rcases List.mem_cons.1 hx with hx | hx
    · subst hx; exact Nat.le_refl _
    · exact Nat.le_of_lt (hs'.1 _ hx)

theorem alMax_spec {α} {l : AL α} (hs : Sorted l) (hne : l ≠ []) :
    ∃ s v, alMax l = some s ∧ (s, v) ∈ l ∧ ∀ x ∈ l, x.1 ≤ s := by
  induction l with
  | nil => exact absurd rfl hne
  | cons y t ih =>
    obtain ⟨k₀, v₀⟩ := y
    have hs' := List.pairwise_cons.1 hs
    cases t with
    | nil =>
      refine ⟨k₀, v₀, rfl, List.mem_cons_self, ?_⟩
      intro x hx
      simp only [List.mem_singleton] at hx
      subst hx; exact Nat.le_refl _
    | cons z t' =>
      obtain ⟨s, v, h1, h2, h3⟩ := ih hs'.2 (by simp)
      refine ⟨s, v, ?_, List.mem_cons_of_mem _ h2, ?_⟩
      · simpa [alMax] using h1
      · intro x hx
        rcases List.mem_cons.1 hx with hx | hx
        · subst hx
          exact Nat.le_of_lt (hs'.1 _ h2)
        · exact h3 x hx

/-! ### key arithmetic -/

theorem pre_mk {p s : Nat} (hs : s < 65536) : pre (mk p s) = p := by unfold pre mk; omega
theorem suf_mk {p s : Nat} (hs : s < 65536) : suf (mk p s) = s := by unfold suf mk; omega
theorem mk_pre_suf (k : Nat) : mk (pre k) (suf k) = k := by unfold pre suf mk; omega
theorem suf_lt (k : Nat) : suf k < 65536 := by unfold suf; omega
theorem pre_lt {k : Nat} (hk : k < 2 ^ 64) : pre k < 2 ^ 48 := by unfold pre; omega
theorem key_ext {k k' : Nat} (h1 : pre k = pre k') (h2 : suf k = suf k') : k = k' := by
  unfold pre suf at *; omega

/-! ### `get` in terms of membership -/

theorem get_eq_some_iff {ix : Idx} (h : Inv ix) {k v : Nat} :
    get ix k = some v ↔ ∃ b, (pre k, b) ∈ ix ∧ (suf k, v) ∈ b := by
  unfold ZodbModel.FsIndex.get
  constructor
  · intro hg
    cases hb : alGet (pre k) ix with
    | none => simp [hb] at hg
    | some b =>
      rw [hb] at hg
      exact ⟨b, alGet_mem hb, alGet_mem hg⟩
  · rintro ⟨b, hb, hv⟩
    rw [alGet_of_mem h.1 hb]
    exact alGet_of_mem (h.2 _ hb).2.2.1 hv

theorem get_ne_none_iff {ix : Idx} (h : Inv ix) {k : Nat} :
    get ix k ≠ none ↔ ∃ b v, (pre k, b) ∈ ix ∧ (suf k, v) ∈ b := by
  constructor
  · intro hg
    cases hv : get ix k with
    | none => exact absurd hv hg
    | some v =>
      obtain ⟨b, hb, hv⟩ := (get_eq_some_iff h).1 hv
      exact ⟨b, v, hb, hv⟩
  · rintro ⟨b, v, hb, hv⟩
    rw [(get_eq_some_iff h).2 ⟨b, hb, hv⟩]
    simp

theorem bucket_unique {ix : Idx} (h : Inv ix) {p : Nat} {b b' : AL Nat}
    (hb : (p, b) ∈ ix) (hb' : (p, b') ∈ ix) : b = b' := by
  have h1 := alGet_of_mem h.1 hb
  have h2 := alGet_of_mem h.1 hb'
  rw [h1] at h2
  exact Option.some.inj h2

/-! ### invariant preservation -/

theorem inv_empty : Inv ([] : Idx) ∧ ∀ k, get [] k = none := by
  refine ⟨⟨List.Pairwise.nil, by simp⟩, fun k => rfl⟩

theorem alSet_ne_nil {α} (k : Nat) (v : α) (l : AL α) : alSet k v l ≠ [] := by
  intro hc
  have := alGet_alSet k k v l
  rw [hc] at this
  simp [alGet] at this

theorem bucketInv_single {s v : Nat} (hs : s < 65536) (hv : v < 2 ^ 48) : BucketInv [(s, v)] := by
  refine ⟨by simp, by simp, ?_⟩
  intro sv h
  simp only [List.mem_singleton] at h
  subst h
  exact ⟨hs, hv⟩

theorem bucketInv_alSet {b : AL Nat} (hb : BucketInv b) {s v : Nat} (hs : s < 65536)
    (hv : v < 2 ^ 48) : BucketInv (alSet s v b) := by
  refine ⟨alSet_ne_nil _ _ _, alSet_sorted _ _ hb.2.1, ?_⟩
  intro sv h
  rcases mem_alSet h with h | h
  · subst h; exact ⟨hs, hv⟩
  · exact hb.2.2 _ h

theorem bucketInv_alDel {b : AL Nat} (hb : BucketInv b) {s : Nat} (hne : alDel s b ≠ []) :
    BucketInv (alDel s b) :=
  ⟨hne, alDel_sorted _ hb.2.1, fun _ h => hb.2.2 _ (mem_alDel h)⟩

theorem inv_alSet {ix : Idx} (h : Inv ix) {p : Nat} {b : AL Nat} (hp : p < 2 ^ 48)
    (hb : BucketInv b) : Inv (alSet p b ix) := by
  refine ⟨alSet_sorted _ _ h.1, ?_⟩
  intro pb hpb
  rcases mem_alSet hpb with hpb | hpb
  · subst hpb; exact ⟨hp, hb⟩
  · exact h.2 _ hpb

theorem inv_alDel {ix : Idx} (h : Inv ix) (p : Nat) : Inv (alDel p ix) :=
  ⟨alDel_sorted _ h.1, fun _ hpb => h.2 _ (mem_alDel hpb)⟩

theorem get_alSet (ix : Idx) (p : Nat) (b : AL Nat) (k' : Nat) :
    get (alSet p b ix) k' = if pre k' = p then alGet (suf k') b else get ix k' := by
  unfold ZodbModel.FsIndex.get
  rw [alGet_alSet]
  by_cases hp : pre k' = p
  · rw [if_pos hp, if_pos hp]
  · rw [if_neg hp, if_neg hp]

theorem get_alDel {ix : Idx} (h : Inv ix) (p : Nat) (k' : Nat) :
    get (alDel p ix) k' = if pre k' = p then none else get ix k' := by
  unfold ZodbModel.FsIndex.get
  rw [alGet_alDel _ _ h.1]
  by_cases hp : pre k' = p
  · rw [if_pos hp, if_pos hp]
  · rw [if_neg hp, if_neg hp]

theorem get_of_bucket {ix : Idx} {k : Nat} {b : AL Nat} (hb : alGet (pre k) ix = some b) :
    get ix k = alGet (suf k) b := by
  unfold ZodbModel.FsIndex.get
  rw [hb]

theorem get_of_no_bucket {ix : Idx} {k : Nat} (hb : alGet (pre k) ix = none) :
    get ix k = none := by
  unfold ZodbModel.FsIndex.get
  rw [hb]

/-! ### set / del -/

theorem set_overflow (ix : Idx) (k v : Nat) (hv : 2 ^ 64 ≤ v) :
    ZodbModel.FsIndex.set ix k v = .error .structError := by
  unfold ZodbModel.FsIndex.set
  rw [if_pos hv]

theorem set_refines (ix : Idx) (k v : Nat) (h : Inv ix) (hk : k < 2 ^ 64) (hv : v < 2 ^ 48) :
    ∃ ix', ZodbModel.FsIndex.set ix k v = .ok ix' ∧ Inv ix' ∧
      ∀ k', get ix' k' = if k' = k then some v else get ix k' := by
  have hv' : v % 2 ^ 48 = v := Nat.mod_eq_of_lt hv
  have hnv : ¬ v ≥ 2 ^ 64 := by omega
  unfold ZodbModel.FsIndex.set
  rw [if_neg hnv]
  simp only [hv']
  cases hb : alGet (pre k) ix with
  | none =>
    refine ⟨_, rfl, inv_alSet h (pre_lt hk) (bucketInv_single (suf_lt k) hv), ?_⟩
    intro k'
    rw [get_alSet]
    by_cases hkk : k' = k
    · subst hkk; simp [alGet]
    · rw [if_neg hkk]
      split
      · rename_i hp
        have hs : suf k' ≠ suf k := fun hs => hkk (key_ext hp hs)
        simp only [alGet, if_neg hs]
        rw [get_of_no_bucket (by rw [hp]; exact hb)]
      · rfl
  | some b =>
    have hbi := (h.2 _ (alGet_mem hb)).2
    refine ⟨_, rfl, inv_alSet h (pre_lt hk) (bucketInv_alSet hbi (suf_lt k) hv), ?_⟩
    intro k'
    rw [get_alSet, alGet_alSet]
    by_cases hkk : k' = k
    · subst hkk; simp
    · rw [if_neg hkk]
      split
      · rename_i hp
        have hs : suf k' ≠ suf k := fun hs => hkk (key_ext hp hs)
        rw [if_neg hs, get_of_bucket (by rw [hp]; exact hb)]
      · rfl

theorem del_refines (ix : Idx) (k : Nat) (h : Inv ix) :
    (get ix k = none → del ix k = .error .keyError) ∧
    (get ix k ≠ none → ∃ ix', del ix k = .ok ix' ∧ Inv ix' ∧
      ∀ k', get ix' k' = if k' = k then none else get ix k') := by
  cases hb : alGet (pre k) ix with
  | none =>
    have hg : get ix k = none := get_of_no_bucket hb
    have hd : del ix k = .error .keyError := by unfold del; rw [hb]
    exact ⟨fun _ => hd, fun hne => absurd hg hne⟩
  | some b =>
    have hg : get ix k = alGet (suf k) b := get_of_bucket hb
    cases hv : alGet (suf k) b with
    | none =>
      have hd : del ix k = .error .keyError := by unfold del; rw [hb]; simp only [hv]
      rw [hv] at hg
      exact ⟨fun _ => hd, fun hne => absurd hg hne⟩
    | some v =>
      rw [hv] at hg
      refine ⟨fun hn => (by rw [hg] at hn; cases hn), fun _ => ?_⟩
      have hbm := alGet_mem hb
      have hbi := (h.2 _ hbm)
      have hother : ∀ k', k' ≠ k → pre k' = pre k →
          alGet (suf k') (alDel (suf k) b) = get ix k' := by
        intro k' hkk hp
        have hs : suf k' ≠ suf k := fun hs => hkk (key_ext hp hs)
        rw [alGet_alDel _ _ hbi.2.2.1, if_neg hs, get_of_bucket (by rw [hp]; exact hb)]
      by_cases he : (alDel (suf k) b).isEmpty = true
      · refine ⟨alDel (pre k) ix, ?_, inv_alDel h _, ?_⟩
        · unfold del; rw [hb]; simp only [hv, he, if_true]
        · intro k'
          rw [get_alDel h]
          by_cases hkk : k' = k
          · subst hkk; simp
          · rw [if_neg hkk]
            split
            · rename_i hp
              rw [← hother k' hkk hp, List.isEmpty_iff.1 he]
              rfl
            · rfl
      · have hne : alDel (suf k) b ≠ [] := fun hc => he (List.isEmpty_iff.2 hc)
        refine ⟨alSet (pre k) (alDel (suf k) b) ix, ?_,
          inv_alSet h hbi.1 (bucketInv_alDel hbi.2 hne), ?_⟩
        · unfold del; rw [hb]; simp only [hv, he]; rfl
        · intro k'
          rw [get_alSet]
          by_cases hkk : k' = k
          · subst hkk
            rw [alGet_alDel _ _ hbi.2.2.1]
            simp
          · rw [if_neg hkk]
            split
            · rename_i hp
              exact hother k' hkk hp
            · rfl

/-! ### iteration -/

theorem mem_items_iff (ix : Idx) (h : Inv ix) (k v : Nat) :
    (k, v) ∈ items ix ↔ get ix k = some v := by
  rw [get_eq_some_iff h]
  unfold items
  simp only [List.mem_flatMap, List.mem_map]
  constructor
  · rintro ⟨⟨p, b⟩, hpb, ⟨s, v'⟩, hsv, heq⟩
    simp only [Prod.mk.injEq] at heq
    obtain ⟨rfl, rfl⟩ := heq
    have := ((h.2 _ hpb).2.2.2 _ hsv).1
    simp only at this
    rw [pre_mk this, suf_mk this]
    exact ⟨b, hpb, hsv⟩
  · rintro ⟨b, hb, hv⟩
    exact ⟨(pre k, b), hb, (suf k, v), hv, by simp [mk_pre_suf]⟩

theorem items_cons (p : Nat) (b : AL Nat) (t : Idx) :
    items ((p, b) :: t) = b.map (fun sv => (mk p sv.1, sv.2)) ++ items t := by
  simp [items]

theorem inv_tail {pb : Nat × AL Nat} {t : Idx} (h : Inv (pb :: t)) : Inv t :=
  ⟨(List.pairwise_cons.1 h.1).2, fun x hx => h.2 x (List.mem_cons_of_mem _ hx)⟩

theorem keys_sorted (ix : Idx) (h : Inv ix) : (keys ix).Pairwise (· < ·) := by
  unfold keys
  rw [List.pairwise_map]
  induction ix with
  | nil => simp [items]
  | cons pb t ih =>
    obtain ⟨p, b⟩ := pb
    have hb := (h.2 _ List.mem_cons_self).2
    rw [items_cons, List.pairwise_append]
    refine ⟨?_, ih (inv_tail h), ?_⟩
    · rw [List.pairwise_map]
      exact hb.2.1.imp (fun hab => by simp only [mk]; omega)
    · intro x hx y hy
      simp only [List.mem_map] at hx
      obtain ⟨⟨s, v⟩, hsv, rfl⟩ := hx
      unfold items at hy
      simp only [List.mem_flatMap, List.mem_map] at hy
      obtain ⟨⟨p', b'⟩, hpb', ⟨s', v'⟩, hsv', rfl⟩ := hy
      have h1 := (hb.2.2 _ hsv).1
      have h2 := (List.pairwise_cons.1 h.1).1 _ hpb'
      simp only [mk] at *
      omega

theorem len_eq (ix : Idx) : len ix = (items ix).length := by
  induction ix with
  | nil => rfl
  | cons pb t ih =>
    obtain ⟨p, b⟩ := pb
    rw [items_cons, List.length_append, List.length_map, ← ih]
    simp [len]

/-! ### bounded searches lifted to the two-level index -/

theorem bucket_min {ix : Idx} (h : Inv ix) {p : Nat} {b : AL Nat} (hb : (p, b) ∈ ix) :
    ∃ s, alMin b = some s ∧ s < 65536 ∧ get ix (mk p s) ≠ none ∧
      ∀ m, get ix m ≠ none → pre m = p → s ≤ suf m := by
  have hbi := (h.2 _ hb).2
  obtain ⟨s, v, h1, h2, h3⟩ := alMin_spec hbi.2.1 hbi.1
  have hs : s < 65536 := (hbi.2.2 _ h2).1
  refine ⟨s, h1, hs, ?_, ?_⟩
  · rw [get_ne_none_iff h]
    exact ⟨b, v, by rw [pre_mk hs]; exact hb, by rw [suf_mk hs]; exact h2⟩
  · intro m hm hp
    obtain ⟨b', v', hb', hv'⟩ := (get_ne_none_iff h).1 hm
    rw [hp] at hb'
    have := bucket_unique h hb hb'
    subst this
    exact h3 _ hv'

theorem bucket_max {ix : Idx} (h : Inv ix) {p : Nat} {b : AL Nat} (hb : (p, b) ∈ ix) :
    ∃ s, alMax b = some s ∧ s < 65536 ∧ get ix (mk p s) ≠ none ∧
      ∀ m, get ix m ≠ none → pre m = p → suf m ≤ s := by
  have hbi := (h.2 _ hb).2
  obtain ⟨s, v, h1, h2, h3⟩ := alMax_spec hbi.2.1 hbi.1
  have hs : s < 65536 := (hbi.2.2 _ h2).1
  refine ⟨s, h1, hs, ?_, ?_⟩
  · rw [get_ne_none_iff h]
    exact ⟨b, v, by rw [pre_mk hs]; exact hb, by rw [suf_mk hs]; exact h2⟩
  · intro m hm hp
    obtain ⟨b', v', hb', hv'⟩ := (get_ne_none_iff h).1 hm
    rw [hp] at hb'
    have := bucket_unique h hb hb'
    subst this
    exact h3 _ hv'

theorem bucket_minGE_some {ix : Idx} (h : Inv ix) {p : Nat} {b : AL Nat} (hb : (p, b) ∈ ix)
    {j s : Nat} (hj : alMinGE j b = some s) :
    s < 65536 ∧ j ≤ s ∧ get ix (mk p s) ≠ none ∧
      ∀ m, get ix m ≠ none → pre m = p → j ≤ suf m → s ≤ suf m := by
  have hbi := (h.2 _ hb).2
  obtain ⟨⟨v, h1⟩, h2, h3⟩ := alMinGE_some hbi.2.1 hj
  have hs : s < 65536 := (hbi.2.2 _ h1).1
  refine ⟨hs, h2, ?_, ?_⟩
  · rw [get_ne_none_iff h]
    exact ⟨b, v, by rw [pre_mk hs]; exact hb, by rw [suf_mk hs]; exact h1⟩
  · intro m hm hp hjm
    obtain ⟨b', v', hb', hv'⟩ := (get_ne_none_iff h).1 hm
    rw [hp] at hb'
    have := bucket_unique h hb hb'
    subst this
    exact h3 _ hv' hjm

theorem bucket_minGE_none {ix : Idx} (h : Inv ix) {p : Nat} {b : AL Nat} (hb : (p, b) ∈ ix)
    {j : Nat} (hj : alMinGE j b = none) :
    ∀ m, get ix m ≠ none → pre m = p → suf m < j := by
  intro m hm hp
  obtain ⟨b', v', hb', hv'⟩ := (get_ne_none_iff h).1 hm
  rw [hp] at hb'
  have := bucket_unique h hb hb'
  subst this
  exact alMinGE_none hj _ hv'

theorem bucket_maxLE_some {ix : Idx} (h : Inv ix) {p : Nat} {b : AL Nat} (hb : (p, b) ∈ ix)
    {j s : Nat} (hj : alMaxLE j b = some s) :
    s < 65536 ∧ s ≤ j ∧ get ix (mk p s) ≠ none ∧
      ∀ m, get ix m ≠ none → pre m = p → suf m ≤ j → suf m ≤ s := by
  have hbi := (h.2 _ hb).2
  obtain ⟨⟨v, h1⟩, h2, h3⟩ := alMaxLE_some hbi.2.1 hj
  have hs : s < 65536 := (hbi.2.2 _ h1).1
  refine ⟨hs, h2, ?_, ?_⟩
  · rw [get_ne_none_iff h]
    exact ⟨b, v, by rw [pre_mk hs]; exact hb, by rw [suf_mk hs]; exact h1⟩
  · intro m hm hp hjm
    obtain ⟨b', v', hb', hv'⟩ := (get_ne_none_iff h).1 hm
    rw [hp] at hb'
    have := bucket_unique h hb hb'
    subst this
    exact h3 _ hv' hjm

theorem bucket_maxLE_none {ix : Idx} (h : Inv ix) {p : Nat} {b : AL Nat} (hb : (p, b) ∈ ix)
    {j : Nat} (hj : alMaxLE j b = none) :
    ∀ m, get ix m ≠ none → pre m = p → j < suf m := by
  intro m hm hp
  obtain ⟨b', v', hb', hv'⟩ := (get_ne_none_iff h).1 hm
  rw [hp] at hb'
  have := bucket_unique h hb hb'
  subst this
  exact alMaxLE_none (h.2 _ hb).2.2.1 hj _ hv'

theorem prefix_minGE_some {ix : Idx} (h : Inv ix) {q p : Nat} (hq : alMinGE q ix = some p) :
    ∃ b, (p, b) ∈ ix ∧ q ≤ p ∧ ∀ m, get ix m ≠ none → q ≤ pre m → p ≤ pre m := by
  obtain ⟨⟨b, h1⟩, h2, h3⟩ := alMinGE_some h.1 hq
  refine ⟨b, h1, h2, ?_⟩
  intro m hm hqm
  obtain ⟨b', v', hb', _⟩ := (get_ne_none_iff h).1 hm
  exact h3 _ hb' hqm

theorem prefix_minGE_none {ix : Idx} (h : Inv ix) {q : Nat} (hq : alMinGE q ix = none) :
    ∀ m, get ix m ≠ none → pre m < q := by
  intro m hm
  obtain ⟨b', v', hb', _⟩ := (get_ne_none_iff h).1 hm
  exact alMinGE_none hq _ hb'

theorem prefix_maxLE_some {ix : Idx} (h : Inv ix) {q p : Nat} (hq : alMaxLE q ix = some p) :
    ∃ b, (p, b) ∈ ix ∧ p ≤ q ∧ ∀ m, get ix m ≠ none → pre m ≤ q → pre m ≤ p := by
  obtain ⟨⟨b, h1⟩, h2, h3⟩ := alMaxLE_some h.1 hq
  refine ⟨b, h1, h2, ?_⟩
  intro m hm hqm
  obtain ⟨b', v', hb', _⟩ := (get_ne_none_iff h).1 hm
  exact h3 _ hb' hqm

theorem prefix_maxLE_none {ix : Idx} (h : Inv ix) {q : Nat} (hq : alMaxLE q ix = none) :
    ∀ m, get ix m ≠ none → q < pre m := by
  intro m hm
  obtain ⟨b', v', hb', _⟩ := (get_ne_none_iff h).1 hm
  exact alMaxLE_none h.1 hq _ hb'

theorem prefix_lt {ix : Idx} (h : Inv ix) {m : Nat} (hm : get ix m ≠ none) : pre m < 2 ^ 48 := by
  obtain ⟨b', v', hb', _⟩ := (get_ne_none_iff h).1 hm
  exact (h.2 _ hb').1

/-! ### from "either a witness or ValueError" to the three-part refinement statement -/

theorem refines_of_spec {P : Nat → Prop} {N : Prop} {r : Except Err Nat}
    (huniq : ∀ m m', P m → P m' → m = m') (hex : ∀ m, P m → ¬ N)
    (hspec : (∃ m, r = .ok m ∧ P m) ∨ (r = .error .valueError ∧ N)) :
    (∀ m, r = .ok m ↔ P m) ∧ (r = .error .valueError ↔ N) ∧
      (∀ e, r = .error e → e = .valueError) := by
  rcases hspec with ⟨m, he, hP⟩ | ⟨he, hN⟩
  · subst he
    refine ⟨fun m' => ⟨fun hm => ?_, fun hm => ?_⟩, ⟨fun hc => ?_, fun hn => ?_⟩, fun e hc => ?_⟩
    · injection hm with hm; subst hm; exact hP
    · rw [huniq m m' hP hm]
    · cases hc
    · exact absurd hn (hex m hP)
    · cases hc
  · subst he
    refine ⟨fun m' => ⟨fun hm => ?_, fun hm => ?_⟩, ⟨fun _ => hN, fun _ => rfl⟩, fun e hc => ?_⟩
    · cases hm
    · exact absurd hN (hex m' hm)
    · injection hc with hc; exact hc.symm

/-! ### minKey -/

theorem minKey_spec (ix : Idx) (h : Inv ix) (k : Nat) :
    (∃ m, minKey ix (some k) = .ok m ∧
      (get ix m ≠ none ∧ k ≤ m ∧ ∀ m', get ix m' ≠ none → k ≤ m' → m ≤ m')) ∨
    (minKey ix (some k) = .error .valueError ∧ ∀ m, get ix m ≠ none → m < k) := by
  unfold minKey
  simp only
  cases h1 : alMinGE (pre k) ix with
  | none =>
    right
    refine ⟨rfl, fun m hm => ?_⟩
    have := prefix_minGE_none h h1 m hm
    unfold pre at this
    omega
  | some p =>
    obtain ⟨b, hb, hp1, hp2⟩ := prefix_minGE_some h h1
    simp only [alGet_of_mem h.1 hb]
    by_cases hpk : p = pre k
    · rw [if_neg (fun hn => hn hpk)]
      subst hpk
      cases h2 : alMinGE (suf k) b with
      | some s =>
        obtain ⟨hs1, hs2, hs3, hs4⟩ := bucket_minGE_some h hb h2
        left
        refine ⟨mk (pre k) s, rfl, hs3, ?_, ?_⟩
        · unfold pre suf mk at *; omega
        · intro m' hm' hkm
          have g1 := hs4 m' hm'
          unfold pre suf mk at *
          omega
      | none =>
        have hn := bucket_minGE_none h hb h2
        simp only
        by_cases hmx : pre k = maxPrefix
        · rw [if_pos hmx]
          right
          refine ⟨rfl, fun m hm => ?_⟩
          have g1 := hn m hm
          have g2 := prefix_lt h hm
          unfold maxPrefix at hmx
          unfold pre suf at *
          omega
        · rw [if_neg hmx]
          cases h3 : alMinGE (pre k + 1) ix with
          | none =>
            right
            refine ⟨rfl, fun m hm => ?_⟩
            have g1 := hn m hm
            have g2 := prefix_minGE_none h h3 m hm
            unfold pre suf at *
            omega
          | some p' =>
            obtain ⟨b', hb', hp1', hp2'⟩ := prefix_minGE_some h h3
            simp only [alGet_of_mem h.1 hb']
            obtain ⟨s, hs1, hs2, hs3, hs4⟩ := bucket_min h hb'
            simp only [hs1]
            left
            refine ⟨mk p' s, rfl, hs3, ?_, ?_⟩
            · unfold pre suf mk at *; omega
            · intro m' hm' hkm
              have g1 := hn m' hm'
              have g2 := hp2' m' hm'
              have g3 := hs4 m' hm'
              unfold pre suf mk at *
              omega
    · rw [if_pos hpk]
      obtain ⟨s, hs1, hs2, hs3, hs4⟩ := bucket_min h hb
      simp only [hs1]
      left
      refine ⟨mk p s, rfl, hs3, ?_, ?_⟩
      · unfold pre suf mk at *; omega
      · intro m' hm' hkm
        have g2 := hp2 m' hm'
        have g3 := hs4 m' hm'
        unfold pre suf mk at *
        omega

/-- every key of an index that satisfies `Inv` is an 8-byte id -/
theorem get_lt (ix : Idx) (h : Inv ix) (m : Nat) (hm : FsIndex.get ix m ≠ none) : m < 2 ^ 64 := by
  unfold FsIndex.get at hm
  cases hg : alGet (pre m) ix with
  | none => rw [hg] at hm; exact absurd rfl hm
  | some b =>
    have hp := (h.2 _ (alGet_mem hg)).1
    simp only [pre] at hp
    omega


theorem minKey_refines (ix : Idx) (h : Inv ix) (k : Nat) (_hk : k < 2 ^ 64) :
    (∀ m, minKey ix (some k) = .ok m ↔
      (get ix m ≠ none ∧ k ≤ m ∧ ∀ m', get ix m' ≠ none → k ≤ m' → m ≤ m')) ∧
    (minKey ix (some k) = .error .valueError ↔ ∀ m, get ix m ≠ none → m < k) ∧
    (∀ e, minKey ix (some k) = .error e → e = .valueError) := by
  refine refines_of_spec ?_ ?_ (minKey_spec ix h k)
  · rintro m m' ⟨a1, a2, a3⟩ ⟨b1, b2, b3⟩
    have := a3 m' b1 b2
    have := b3 m a1 a2
    omega
  · rintro m ⟨a1, a2, _⟩ hN
    have := hN m a1
    omega

/-! ### maxKey -/

theorem maxKey_spec (ix : Idx) (h : Inv ix) (k : Nat) :
    (∃ m, maxKey ix (some k) = .ok m ∧
      (get ix m ≠ none ∧ m ≤ k ∧ ∀ m', get ix m' ≠ none → m' ≤ k → m' ≤ m)) ∨
    (maxKey ix (some k) = .error .valueError ∧ ∀ m, get ix m ≠ none → k < m) := by
  unfold maxKey
  simp only
  cases h1 : alMaxLE (pre k) ix with
  | none =>
    right
    refine ⟨rfl, fun m hm => ?_⟩
    have := prefix_maxLE_none h h1 m hm
    unfold pre at this
    omega
  | some p =>
    obtain ⟨b, hb, hp1, hp2⟩ := prefix_maxLE_some h h1
    simp only [alGet_of_mem h.1 hb]
    by_cases hpk : p = pre k
    · rw [if_neg (fun hn => hn hpk)]
      subst hpk
      cases h2 : alMaxLE (suf k) b with
      | some s =>
        obtain ⟨hs1, hs2, hs3, hs4⟩ := bucket_maxLE_some h hb h2
        left
        refine ⟨mk (pre k) s, rfl, hs3, ?_, ?_⟩
        · unfold pre suf mk at *; omega
        · intro m' hm' hkm
          have g1 := hs4 m' hm'
          unfold pre suf mk at *
          omega
      | none =>
        have hn := bucket_maxLE_none h hb h2
        simp only
        by_cases hmx : pre k = 0
        · rw [if_pos hmx]
          right
          refine ⟨rfl, fun m hm => ?_⟩
          have g1 := hn m hm
          unfold pre suf at *
          omega
        · rw [if_neg hmx]
          cases h3 : alMaxLE (pre k - 1) ix with
          | none =>
            right
            refine ⟨rfl, fun m hm => ?_⟩
            have g1 := hn m hm
            have g2 := prefix_maxLE_none h h3 m hm
            unfold pre suf at *
            omega
          | some p' =>
            obtain ⟨b', hb', hp1', hp2'⟩ := prefix_maxLE_some h h3
            simp only [alGet_of_mem h.1 hb']
            obtain ⟨s, hs1, hs2, hs3, hs4⟩ := bucket_max h hb'
            simp only [hs1]
            left
            refine ⟨mk p' s, rfl, hs3, ?_, ?_⟩
            · unfold pre suf mk at *; omega
            · intro m' hm' hkm
              have g1 := hn m' hm'
              have g2 := hp2' m' hm'
              have g3 := hs4 m' hm'
              unfold pre suf mk at *
              omega
    · rw [if_pos hpk]
      obtain ⟨s, hs1, hs2, hs3, hs4⟩ := bucket_max h hb
      simp only [hs1]
      left
      refine ⟨mk p s, rfl, hs3, ?_, ?_⟩
      · unfold pre suf mk at *; omega
      · intro m' hm' hkm
        have g2 := hp2 m' hm'
        have g3 := hs4 m' hm'
        unfold pre suf mk at *
        omega

theorem maxKey_refines (ix : Idx) (h : Inv ix) (k : Nat) (_hk : k < 2 ^ 64) :
    (∀ m, maxKey ix (some k) = .ok m ↔
      (get ix m ≠ none ∧ m ≤ k ∧ ∀ m', get ix m' ≠ none → m' ≤ k → m' ≤ m)) ∧
    (maxKey ix (some k) = .error .valueError ↔ ∀ m, get ix m ≠ none → k < m) ∧
    (∀ e, maxKey ix (some k) = .error e → e = .valueError) := by
  refine refines_of_spec ?_ ?_ (maxKey_spec ix h k)
  · rintro m m' ⟨a1, a2, a3⟩ ⟨b1, b2, b3⟩
    have := a3 m' b1 b2
    have := b3 m a1 a2
    omega
  · rintro m ⟨a1, a2, _⟩ hN
    have := hN m a1
    omega

/-! ### minKey() / maxKey() without argument -/

theorem minKey_none_spec (ix : Idx) (h : Inv ix) :
    (∃ m, minKey ix none = .ok m ∧
      (get ix m ≠ none ∧ 0 ≤ m ∧ ∀ m', get ix m' ≠ none → 0 ≤ m' → m ≤ m')) ∨
    (minKey ix none = .error .valueError ∧ ∀ m, get ix m = none) := by
  cases ix with
  | nil => exact .inr ⟨rfl, fun m => rfl⟩
  | cons pb t =>
    obtain ⟨p, b⟩ := pb
    have hb : (p, b) ∈ (p, b) :: t := List.mem_cons_self
    obtain ⟨s, hs1, hs2, hs3, hs4⟩ := bucket_min h hb
    left
    refine ⟨mk p s, ?_, hs3, Nat.zero_le _, ?_⟩
    · simp only [minKey, hs1]
    · intro m' hm' _
      obtain ⟨b', v', hb', _⟩ := (get_ne_none_iff h).1 hm'
      have g1 : p ≤ pre m' := by
        rcases List.mem_cons.1 hb' with e | e
        · injection e with e1 _; omega
        · exact Nat.le_of_lt ((List.pairwise_cons.1 h.1).1 _ e)
      have g3 := hs4 m' hm'
      unfold pre suf mk at *
      omega

theorem minKey_none_refines (ix : Idx) (h : Inv ix) :
    (∀ m, minKey ix none = .ok m ↔
      (get ix m ≠ none ∧ 0 ≤ m ∧ ∀ m', get ix m' ≠ none → 0 ≤ m' → m ≤ m')) ∧
    (minKey ix none = .error .valueError ↔ ∀ m, get ix m = none) ∧
    (∀ e, minKey ix none = .error e → e = .valueError) := by
  refine refines_of_spec ?_ ?_ (minKey_none_spec ix h)
  · rintro m m' ⟨a1, a2, a3⟩ ⟨b1, b2, b3⟩
    have := a3 m' b1 b2
    have := b3 m a1 a2
    omega
  · rintro m ⟨a1, _, _⟩ hN
    exact a1 (hN m)

theorem maxKey_none_spec (ix : Idx) (h : Inv ix) :
    (∃ m, maxKey ix none = .ok m ∧
      (get ix m ≠ none ∧ ∀ m', get ix m' ≠ none → m' ≤ m)) ∨
    (maxKey ix none = .error .valueError ∧ ∀ m, get ix m = none) := by
  by_cases hne : ix = []
  · subst hne
    exact .inr ⟨rfl, fun m => rfl⟩
  · obtain ⟨p, b, hp1, hb, hp3⟩ := alMax_spec h.1 hne
    obtain ⟨s, hs1, hs2, hs3, hs4⟩ := bucket_max h hb
    left
    refine ⟨mk p s, ?_, hs3, ?_⟩
    · simp only [maxKey, hp1, alGet_of_mem h.1 hb, hs1]
    · intro m' hm'
      obtain ⟨b', v', hb', _⟩ := (get_ne_none_iff h).1 hm'
      have g1 := hp3 _ hb'
      have g3 := hs4 m' hm'
      unfold pre suf mk at *
      simp only at g1
      omega

theorem maxKey_none_refines (ix : Idx) (h : Inv ix) :
    (∀ m, maxKey ix none = .ok m ↔ (get ix m ≠ none ∧ ∀ m', get ix m' ≠ none → m' ≤ m)) ∧
    (maxKey ix none = .error .valueError ↔ ∀ m, get ix m = none) ∧
    (∀ e, maxKey ix none = .error e → e = .valueError) := by
  refine refines_of_spec ?_ ?_ (maxKey_none_spec ix h)
  · rintro m m' ⟨a1, a3⟩ ⟨b1, b3⟩
    have := a3 m' b1
    have := b3 m a1
    omega
  · rintro m ⟨a1, _⟩ hN
    exact a1 (hN m)

/-! ### reachable states -/

theorem applyOp_inv {ix : Idx} (h : Inv ix) {o : Op} (hw : OpWF o) : Inv (applyOp ix o) := by
  cases o with
  | set k v =>
    obtain ⟨ix', h1, h2, _⟩ := set_refines ix k v h hw.1 hw.2
    simp only [applyOp, h1]
    exact h2
  | del k =>
    by_cases hg : get ix k = none
    · have := (del_refines ix k h).1 hg
      simp only [applyOp, this]
      exact h
    · obtain ⟨ix', h1, h2, _⟩ := (del_refines ix k h).2 hg
      simp only [applyOp, h1]
      exact h2
  | clear => exact inv_empty.1

theorem foldl_applyOp_inv (ops : List Op) (ix : Idx) (h : Inv ix) (hw : ∀ o ∈ ops, OpWF o) :
    Inv (ops.foldl applyOp ix) := by
  induction ops generalizing ix with
  | nil => exact h
  | cons o t ih =>
    simp only [List.foldl_cons]
    exact ih _ (applyOp_inv h (hw o List.mem_cons_self))
      (fun o' ho' => hw o' (List.mem_cons_of_mem _ ho'))

theorem reachable_inv (ops : List Op) (hw : ∀ o ∈ ops, OpWF o) : Inv (ops.foldl applyOp []) :=
  foldl_applyOp_inv ops [] inv_empty.1 hw

/-! ### update -/

theorem update_refines (kvs : List (Nat × Nat)) (ix : Idx) (h : Inv ix)
    (hw : ∀ kv ∈ kvs, kv.1 < 2 ^ 64 ∧ kv.2 < 2 ^ 48) :
    ∃ ix', update ix kvs = .ok ix' ∧ Inv ix' ∧ ∀ k, get ix' k = updSpec (get ix k) k kvs := by
  induction kvs generalizing ix with
  | nil => exact ⟨ix, rfl, h, fun k => rfl⟩
  | cons kv t ih =>
    obtain ⟨k0, v0⟩ := kv
    have hkv := hw (k0, v0) List.mem_cons_self
    obtain ⟨ix1, h1, hi1, hg1⟩ := set_refines ix k0 v0 h hkv.1 hkv.2
    obtain ⟨ix2, h2, hi2, hg2⟩ := ih ix1 hi1 (fun kv' hm => hw kv' (List.mem_cons_of_mem _ hm))
    refine ⟨ix2, ?_, hi2, ?_⟩
    · simp only [update, h1]; exact h2
    · intro k
      rw [hg2 k, hg1 k]
      rfl

/-! ### save / load -/

theorem length_flatMap_const {α} (l : List α) (f : α → Bytes) (n : Nat)
    (hf : ∀ x ∈ l, (f x).length = n) : (l.flatMap f).length = n * l.length := by
  induction l with
  | nil => simp
  | cons x t ih =>
    simp only [List.flatMap_cons, List.length_append, List.length_cons]
    rw [hf x List.mem_cons_self, ih (fun y hy => hf y (List.mem_cons_of_mem _ hy)),
      Nat.mul_succ, Nat.add_comm]

theorem chunks_flatMap {α} (l : List α) (f : α → Bytes) (n : Nat)
    (hf : ∀ x ∈ l, (f x).length = n) : chunks n l.length (l.flatMap f) = l.map f := by
  induction l with
  | nil => rfl
  | cons x t ih =>
    have hx := hf x List.mem_cons_self
    simp only [List.length_cons, chunks, List.flatMap_cons, List.map_cons]
    rw [List.take_left' hx, List.drop_left' hx, ih (fun y hy => hf y (List.mem_cons_of_mem _ hy))]

theorem bucket_roundtrip (b : AL Nat) (hb : ∀ sv ∈ b, sv.1 < 65536 ∧ sv.2 < 2 ^ 48) :
    bucketFromString (bucketToString b) = b := by
  have hk : (b.flatMap fun sv => be 2 sv.1).length = 2 * b.length :=
    length_flatMap_const _ _ _ (fun _ _ => be_length _ _)
  have hv : (b.flatMap fun sv => be 6 sv.2).length = 6 * b.length :=
    length_flatMap_const _ _ _ (fun _ _ => be_length _ _)
  have hlen : (bucketToString b).length / 8 = b.length := by
    unfold bucketToString
    rw [List.length_append, hk, hv]
    omega
  unfold bucketFromString
  simp only [hlen]
  unfold bucketToString
  rw [List.take_left' hk, List.drop_left' hk,
    chunks_flatMap _ _ _ (fun _ _ => be_length _ _),
    chunks_flatMap _ _ _ (fun _ _ => be_length _ _), List.zip_map', List.map_map]
  conv => rhs; rw [← List.map_id b]
  apply List.map_congr_left
  intro sv hsv
  obtain ⟨h1, h2⟩ := hb sv hsv
  simp [beVal_be 2 sv.1 (by omega), beVal_be 6 sv.2 (by omega)]

theorem alSet_last {α} (k : Nat) (v : α) (l : AL α) (h : ∀ x ∈ l, x.1 < k) :
    alSet k v l = l ++ [(k, v)] := by
  induction l with
  | nil => rfl
  | cons y t ih =>
    obtain ⟨k₀, v₀⟩ := y
    have h0 := h _ List.mem_cons_self
    simp only at h0
    simp only [alSet, List.cons_append]
    rw [if_neg (by omega), if_neg (by omega), ih (fun x hx => h x (List.mem_cons_of_mem _ hx))]

theorem foldl_frames (ix acc : Idx) (hs : Sorted ix) (hacc : ∀ x ∈ acc, ∀ y ∈ ix, x.1 < y.1)
    (hb : ∀ pb ∈ ix, bucketFromString (bucketToString pb.2) = pb.2) :
    (ix.map fun pb => (pb.1, bucketToString pb.2)).foldl
      (fun acc f => alSet f.1 (bucketFromString f.2) acc) acc = acc ++ ix := by
  induction ix generalizing acc with
  | nil => simp
  | cons pb t ih =>
    obtain ⟨p, b⟩ := pb
    have hs' := List.pairwise_cons.1 hs
    have hb0 : bucketFromString (bucketToString b) = b := hb _ List.mem_cons_self
    simp only [List.map_cons, List.foldl_cons]
    rw [hb0, alSet_last _ _ _ (fun x hx => hacc x hx _ List.mem_cons_self),
      ih (acc ++ [(p, b)]) hs'.2 ?_ (fun pb hpb => hb pb (List.mem_cons_of_mem _ hpb))]
    · simp
    · intro x hx y hy
      rcases List.mem_append.1 hx with hx | hx
      · exact hacc x hx y (List.mem_cons_of_mem _ hy)
      · simp only [List.mem_singleton] at hx
        subst hx
        exact hs'.1 _ hy

theorem save_load_id (ix : Idx) (h : Inv ix) (pos : Nat) : load (save ix pos) = (pos, ix) := by
  unfold load save
  simp only
  rw [foldl_frames ix [] h.1 (by simp) (fun pb hpb => bucket_roundtrip _ (h.2 _ hpb).2.2.2)]
  simp

end Proofs.FsIndex
