/-
  Helper lemmas for C04: tid generation (`ZodbModel/Tid.lean`).
-/
import ZodbModel.Tid
namespace Proofs.FileStoreTid
open ZodbModel.Tid

theorem lt_later (t o : Nat) : o < later t o := by
  unfold later; split <;> omega

theorem le_later (t o : Nat) : t ≤ later t o := by
  unfold later; split <;> omega

theorem later_eq_of_lt {t o : Nat} (h : o < t) : later t o = t := by
  unfold later; simp [h]

theorem lt_newTid (ts now : Nat) : ts < newTid ts now := lt_later now ts

/-- every issued tid is above the starting timestamp -/
theorem issue_gt (ts : Nat) (clock : List Nat) : ∀ t ∈ issue ts clock, ts < t := by
  induction clock generalizing ts with
  | nil => simp [issue]
  | cons now rest ih =>
    intro t ht
    simp only [issue, List.mem_cons] at ht
    rcases ht with rfl | ht
    · exact lt_newTid ts now
    · have := ih (newTid ts now) t ht
      have := lt_newTid ts now
      omega

theorem issue_pairwise (ts : Nat) (clock : List Nat) : (issue ts clock).Pairwise (· < ·) := by
  induction clock generalizing ts with
  | nil => simp [issue]
  | cons now rest ih =>
    simp only [issue, List.pairwise_cons]
    exact ⟨issue_gt _ rest, ih _⟩

theorem issue_length (ts : Nat) (clock : List Nat) : (issue ts clock).length = clock.length := by
  induction clock generalizing ts with
  | nil => simp [issue]
  | cons now rest ih => simp [issue, ih]

end Proofs.FileStoreTid
