/-
  Helper lemmas for C17, copy part (`Props/C17.lean`): restoring what an iterator yields into an
  empty FileStorage gives a FileStorage whose iterator yields the same history
  (`ZodbModel/Copy.lean`).  Core Lean only.
-/
import ZodbModel.Copy
namespace Proofs.Copy
open ZodbModel ZodbModel.Copy

/-! ### `lastIdx` -/

theorem lastIdx_some {oid : Nat} {l : List Nat} {i : Nat} (h : lastIdx oid l = some i) :
    l[i]? = some oid := by
  induction l generalizing i with
  | nil => simp [lastIdx] at h
  | cons o rest ih =>
    unfold lastIdx at h
    cases hr : lastIdx oid rest with
    | some j =>
      simp only [hr, Option.some.injEq] at h
      subst h
      simpa using ih hr
    | none =>
      simp only [hr] at h
      by_cases ho : o = oid
      · simp only [ho, if_true, Option.some.injEq] at h
        subst h
        simp [ho]
      · simp [ho] at h

theorem lastIdx_lt {oid : Nat} {l : List Nat} {i : Nat} (h : lastIdx oid l = some i) :
    i < l.length := by
  have := lastIdx_some h
  exact (List.getElem?_eq_some_iff.1 this).1

/-! ### `iterRecs` is pointwise -/

theorem iterRecs_length {older : Store} {rs : List Rec} {irs : List IRec}
    (h : iterRecs older rs = some irs) : irs.length = rs.length := by
  induction rs generalizing irs with
  | nil => simp [iterRecs] at h; subst h; rfl
  | cons r rs ih =>
    simp only [iterRecs] at h
    split at h
    · rename_i x xs hx hxs
      simp only [Option.some.injEq] at h
      subst h
      simp [ih hxs]
    · simp at h

theorem iterRecs_get {older : Store} {rs : List Rec} {irs : List IRec}
    (h : iterRecs older rs = some irs) {i : Nat} {r : Rec} (hr : rs[i]? = some r) :
    ∃ ir, irs[i]? = some ir ∧ iterRec older r = some ir := by
  induction rs generalizing irs i with
  | nil => simp at hr
  | cons r0 rs ih =>
    simp only [iterRecs] at h
    split at h
    · rename_i x xs hx hxs
      simp only [Option.some.injEq] at h
      subst h
      cases i with
      | zero =>
        simp only [List.getElem?_cons_zero, Option.some.injEq] at hr
        subst hr
        exact ⟨x, by simp, hx⟩
      | succ j =>
        simp only [List.getElem?_cons_succ] at hr
        obtain ⟨ir, h1, h2⟩ := ih hxs hr
        exact ⟨ir, by simpa using h1, h2⟩
    · simp at h

theorem iterRec_oid {older : Store} {r : Rec} {ir : IRec} (h : iterRec older r = some ir) :
    ir.oid = r.oid ∧ ir.tid = r.serial := by
  unfold iterRec at h
  split at h
  · simp only [Option.some.injEq] at h; subst h; exact ⟨rfl, rfl⟩
  · simp only [Option.some.injEq] at h; subst h; exact ⟨rfl, rfl⟩
  · split at h
    · split at h
      · simp only [Option.some.injEq] at h; subst h; exact ⟨rfl, rfl⟩
      · simp at h
    · simp at h

theorem iterRecs_oids {older : Store} {rs : List Rec} {irs : List IRec}
    (h : iterRecs older rs = some irs) : irs.map (·.oid) = rs.map (·.oid) := by
  induction rs generalizing irs with
  | nil => simp [iterRecs] at h; subst h; rfl
  | cons r rs ih =>
    simp only [iterRecs] at h
    split at h
    · rename_i x xs hx hxs
      simp only [Option.some.injEq] at h
      subst h
      simp [ih hxs, (iterRec_oid hx).1]
    · simp at h

/-! ### pointers into a store are stable under newer transactions -/

theorem recAt_append (newer : Store) (t : Txn) (older : Store) (i : Nat) :
    recAt (newer ++ t :: older) older.length i = (t.recs[i]?).map (fun r => (r, older)) := by
  induction newer with
  | nil => simp [recAt]
  | cons n newer ih =>
    simp only [List.cons_append, recAt]
    rw [if_neg]
    · exact ih
    · simp only [List.length_append, List.length_cons]; omega

theorem loadBack_append (newer : Store) (t : Txn) (older : Store) (i : Nat) :
    loadBack (newer ++ t :: older) older.length i = loadBack (t :: older) older.length i := by
  induction newer with
  | nil => rfl
  | cons n newer ih =>
    simp only [List.cons_append]
    rw [loadBack, if_neg]
    · exact ih
    · simp only [List.length_append, List.length_cons]; omega

/-- key lemma: a back pointer to record `i` of a transaction resolves to exactly the data the
    iterator yields for that record -/
theorem loadBack_eq_iter {older : Store} {t : Txn} {irs : List IRec} (newer : Store)
    (h : iterRecs older t.recs = some irs) {i : Nat} {ir : IRec} (hi : irs[i]? = some ir) :
    loadBack (newer ++ t :: older) older.length i = some ir.data := by
  rw [loadBack_append]
  have hlen := iterRecs_length h
  have hi' : i < t.recs.length := by
    have := (List.getElem?_eq_some_iff.1 hi).1; omega
  have hr : t.recs[i]? = some t.recs[i] := List.getElem?_eq_getElem hi'
  obtain ⟨ir', h1, h2⟩ := iterRecs_get h hr
  rw [hi] at h1
  simp only [Option.some.injEq] at h1
  subst h1
  simp only [loadBack, if_true, hr]
  unfold iterRec at h2
  cases hb : t.recs[i].body with
  | full d => simp only [hb, Option.some.injEq] at h2; subst h2; rfl
  | uncreate => simp only [hb, Option.some.injEq] at h2; subst h2; rfl
  | back l j =>
    simp only [hb] at h2 ⊢
    split at h2
    · rename_i d r' o hd hr'
      split at h2
      · simp only [Option.some.injEq] at h2; subst h2; exact hd
      · simp at h2
    · simp at h2

/-! ### the simulation invariant of a copy in progress

`rpre` is the list of source transactions copied so far, NEWEST FIRST (aligned with the
destination store `D`). -/

/-- destination `D` iterates to the abstractions of `rpre` -/
def Sim : Store → List ITxn → Prop
  | [], [] => True
  | dt :: older, t :: rp =>
    Sim older rp ∧ ∃ it, iterTxn older dt = some it ∧ absTxn it = absTxn t
  | _, _ => False

/-- a hint is sound w.r.t. the transactions copied before (weak form: it may name a transaction
    that is absent or does not hold the oid — then it is simply not used) -/
def HintOK (rpre : List ITxn) (r : IRec) : Prop :=
  ∀ h, r.dataTxn = some h → ∀ t ∈ rpre, t.tid = h →
    ∀ i, lastIdx r.oid (t.recs.map (·.oid)) = some i → ∀ q, t.recs[i]? = some q → q.data = r.data

theorem absTxn_oids {a b : ITxn} (h : absTxn a = absTxn b) :
    a.recs.map (·.oid) = b.recs.map (·.oid) := by
  have : (absTxn a).recs.map (·.oid) = (absTxn b).recs.map (·.oid) := by rw [h]
  simpa [absTxn, absRec, List.map_map, Function.comp_def] using this

theorem absTxn_get {a b : ITxn} (h : absTxn a = absTxn b) {i : Nat} {x : IRec}
    (hx : a.recs[i]? = some x) : ∃ y, b.recs[i]? = some y ∧ absRec x = absRec y := by
  have h1 : (absTxn a).recs[i]? = (absTxn b).recs[i]? := by rw [h]
  simp only [absTxn, List.getElem?_map, hx, Option.map_some] at h1
  cases hy : b.recs[i]? with
  | none => simp [hy] at h1
  | some y => simp only [hy, Option.map_some, Option.some.injEq] at h1; exact ⟨y, rfl, h1⟩

theorem iterTxn_recs {older : Store} {t : Txn} {it : ITxn} (h : iterTxn older t = some it) :
    iterRecs older t.recs = some it.recs ∧ it.tid = t.tid ∧ it.status = t.status ∧
      it.user = t.user ∧ it.desc = t.desc ∧ it.ext = t.ext := by
  unfold iterTxn at h
  split at h
  · rename_i rs hrs
    simp only [Option.some.injEq] at h
    subst h
    exact ⟨hrs, rfl, rfl, rfl, rfl, rfl⟩
  · simp at h

/-- what `_txn_find` finds is the copy of a source transaction with that tid -/
theorem txnFind_sim {D : Store} {rpre : List ITxn} (hs : Sim D rpre) {h : Nat} {dt : Txn}
    {older : Store} (hf : txnFind D h = some (dt, older)) :
    ∃ newer t it, D = newer ++ dt :: older ∧ t ∈ rpre ∧ t.tid = h ∧
      iterTxn older dt = some it ∧ absTxn it = absTxn t := by
  induction D generalizing rpre with
  | nil => simp [txnFind] at hf
  | cons d D ih =>
    cases rpre with
    | nil => simp [Sim] at hs
    | cons t rp =>
      simp only [Sim] at hs
      obtain ⟨hs1, it, hit, habs⟩ := hs
      simp only [txnFind] at hf
      split at hf
      · rename_i htid
        simp only [Option.some.injEq, Prod.mk.injEq] at hf
        obtain ⟨rfl, rfl⟩ := hf
        refine ⟨[], t, it, rfl, List.mem_cons_self, ?_, hit, habs⟩
        have h1 := (iterTxn_recs hit).2.1
        have h2 : it.tid = t.tid := by
          have : (absTxn it).tid = (absTxn t).tid := by rw [habs]
          simpa [absTxn] using this
        omega
      · obtain ⟨newer, t', it', h1, h2, h3, h4, h5⟩ := ih hs1 hf
        exact ⟨d :: newer, t', it', by simp [h1], List.mem_cons_of_mem _ h2, h3, h4, h5⟩

/-- one `restore`: it succeeds, and the iterator of the destination yields the same oid, tid and
    data for the new record (the hint may be dropped) -/
theorem restoreRec_sim {D : Store} {rpre : List ITxn} (hs : Sim D rpre) {r : IRec}
    (hh : HintOK rpre r) :
    ∃ x, restoreRec D r = .ok x ∧ ∃ ir, iterRec D x = some ir ∧ absRec ir = absRec r := by
  unfold restoreRec prevPos
  cases hdt : r.dataTxn with
  | none =>
    simp only
    cases hd : r.data with
    | some d => exact ⟨_, rfl, _, rfl, by simp [absRec, hd]⟩
    | none => exact ⟨_, rfl, _, rfl, by simp [absRec, hd]⟩
  | some h =>
    simp only
    cases hf : txnFind D h with
    | none =>
      simp only
      cases hd : r.data with
      | some d => exact ⟨_, rfl, _, rfl, by simp [absRec, hd]⟩
      | none => exact ⟨_, rfl, _, rfl, by simp [absRec, hd]⟩
    | some p =>
      obtain ⟨dt, older⟩ := p
      obtain ⟨newer, t, it, hD, hmem, htid, hit, habs⟩ := txnFind_sim hs hf
      obtain ⟨hrecs, -⟩ := iterTxn_recs hit
      have hoids : oids dt = t.recs.map (·.oid) := by
        rw [← absTxn_oids habs, iterRecs_oids hrecs]; rfl
      simp only [dataFind]
      cases hl : lastIdx r.oid (oids dt) with
      | none =>
        simp only
        cases hd : r.data with
        | some d => exact ⟨_, rfl, _, rfl, by simp [absRec, hd]⟩
        | none => exact ⟨_, rfl, _, rfl, by simp [absRec, hd]⟩
      | some i =>
        simp only
        have hlt : i < dt.recs.length := by
          have := lastIdx_lt hl; simpa [oids] using this
        have hq : dt.recs[i]? = some dt.recs[i] := List.getElem?_eq_getElem hlt
        obtain ⟨ir, hir1, hir2⟩ := iterRecs_get hrecs hq
        obtain ⟨y, hy1, hy2⟩ := absTxn_get habs hir1
        have hdata : ir.data = r.data := by
          have h1 : y.data = r.data := hh h hdt t hmem htid i (hoids ▸ hl) y hy1
          have h2 : ir.data = y.data := by
            have : (absRec ir).data = (absRec y).data := by rw [hy2]
            simpa [absRec] using this
          rw [h2, h1]
        have hqoid : dt.recs[i].oid = r.oid := by
          have := lastIdx_some hl
          simp only [oids, List.getElem?_map, hq, Option.map_some, Option.some.injEq] at this
          exact this
        -- the pointer case, shared by all bodies that yield a pointer
        have hptr : ∃ ir', iterRec D ⟨r.oid, r.tid, indexGet D r.oid, .back older.length i⟩ = some ir' ∧
            absRec ir' = absRec r := by
          refine ⟨⟨r.oid, r.tid, ir.data, some dt.recs[i].serial⟩, ?_, by simp [absRec, hdata]⟩
          simp only [iterRec, hD, loadBack_eq_iter newer hrecs hir1, recAt_append, hq,
            Option.map_some, hqoid, if_true]
        simp only [hq]
        cases hb : dt.recs[i].body with
        | full d =>
          simp only
          unfold iterRec at hir2
          simp only [hb, Option.some.injEq] at hir2
          have hrd : r.data = some d := by rw [← hdata, ← hir2]
          simp only [hrd, ne_eq, not_true_eq_false, if_false, if_true]
          exact ⟨_, rfl, hptr⟩
        | back l j => exact ⟨_, rfl, hptr⟩
        | uncreate => exact ⟨_, rfl, hptr⟩

theorem restoreRecs_sim {D : Store} {rpre : List ITxn} (hs : Sim D rpre) {rs : List IRec}
    (hh : ∀ r ∈ rs, HintOK rpre r) :
    ∃ xs, restoreRecs D rs = .ok xs ∧ ∃ irs, iterRecs D xs = some irs ∧
      irs.map absRec = rs.map absRec := by
  induction rs with
  | nil => exact ⟨[], rfl, [], rfl, rfl⟩
  | cons r rs ih =>
    obtain ⟨x, hx, ir, hir, habs⟩ := restoreRec_sim hs (hh r List.mem_cons_self)
    obtain ⟨xs, hxs, irs, hirs, habss⟩ := ih (fun r' hr' => hh r' (List.mem_cons_of_mem _ hr'))
    refine ⟨x :: xs, by simp [restoreRecs, hx, hxs], ir :: irs, by simp [iterRecs, hir, hirs], ?_⟩
    simp [habs, habss]

/-- one transaction: `tpc_begin(txn, tid, status)`, all `restore`s, vote, finish -/
theorem restoreTxn_sim {D : Store} {rpre : List ITxn} (hs : Sim D rpre) {t : ITxn}
    (hh : ∀ r ∈ t.recs, HintOK rpre r) :
    ∃ D', restoreTxn D t t.tid = .ok D' ∧ Sim D' (t :: rpre) := by
  obtain ⟨xs, hxs, irs, hirs, habs⟩ := restoreRecs_sim hs hh
  refine ⟨⟨t.tid, t.status, t.user, t.desc, t.ext, xs⟩ :: D, by simp [restoreTxn, hxs], ?_⟩
  simp only [Sim]
  refine ⟨hs, ⟨t.tid, t.status, t.user, t.desc, t.ext, irs⟩, by simp [iterTxn, hirs], ?_⟩
  simp [absTxn, habs]

/-- all hints of a source are sound (weak form), `rpre` = what precedes, newest first -/
def SrcOKFrom (rpre : List ITxn) : List ITxn → Prop
  | [] => True
  | t :: rest => (∀ r ∈ t.recs, HintOK rpre r) ∧ SrcOKFrom (t :: rpre) rest

theorem copyBlobLoop_sim {src : List ITxn} {D : Store} {rpre : List ITxn} (hs : Sim D rpre)
    (hok : SrcOKFrom rpre src) :
    ∃ D', copyBlobLoop src D = .ok D' ∧ Sim D' (src.reverse ++ rpre) := by
  induction src generalizing D rpre with
  | nil => exact ⟨D, rfl, by simpa using hs⟩
  | cons t rest ih =>
    obtain ⟨h1, h2⟩ := hok
    obtain ⟨D1, hD1, hs1⟩ := restoreTxn_sim hs h1
    obtain ⟨D', hD', hs'⟩ := ih hs1 h2
    refine ⟨D', by simp [copyBlobLoop, hD1, hD'], ?_⟩
    simpa using hs'

/-- strictly increasing tids: the time-stamp fix-up never fires -/
def TidsIncreasing (src : List ITxn) : Prop := src.Pairwise (fun a b => a.tid < b.tid)

theorem copyLoop_eq_blob {src : List ITxn} (hsorted : TidsIncreasing src) (ts : Option Nat)
    (hts : ∀ s, ts = some s → ∀ t ∈ src, s < t.tid) (D : Store) :
    copyLoop src ts D = copyBlobLoop src D := by
  induction src generalizing ts D with
  | nil => rfl
  | cons t rest ih =>
    have hp := List.pairwise_cons.1 hsorted
    have hfix : fixTid ts t.tid = (t.tid, some t.tid) := by
      unfold fixTid
      cases ts with
      | none => rfl
      | some s =>
        have := hts s rfl t List.mem_cons_self
        simp only
        rw [if_neg (by omega)]
    simp only [copyLoop, copyBlobLoop, hfix]
    cases hr : restoreTxn D t t.tid with
    | error e => rfl
    | ok D1 =>
      simp only
      apply ih hp.2
      intro s hs t' ht'
      simp only [Option.some.injEq] at hs
      subst hs
      exact hp.1 t' ht'

/-- `Sim` says the destination's iterator yields the source's history -/
theorem sim_iterate {D : Store} {rpre : List ITxn} (hs : Sim D rpre) :
    ∃ its, iterate D = some its ∧ absH its = absH rpre.reverse := by
  induction D generalizing rpre with
  | nil =>
    cases rpre with
    | nil => exact ⟨[], rfl, rfl⟩
    | cons t rp => simp [Sim] at hs
  | cons d D ih =>
    cases rpre with
    | nil => simp [Sim] at hs
    | cons t rp =>
      simp only [Sim] at hs
      obtain ⟨hs1, it, hit, habs⟩ := hs
      obtain ⟨its, h1, h2⟩ := ih hs1
      refine ⟨its ++ [it], by simp [iterate, h1, hit], ?_⟩
      simp only [absH, List.map_append, List.reverse_cons, List.map_cons, List.map_nil] at h2 ⊢
      rw [h2, habs]

/-- `copy_same_history`, general form: every source whose tids increase and whose hints are sound -/
theorem copy_same_history {src : List ITxn} (hsorted : TidsIncreasing src) (hok : SrcOKFrom [] src) :
    ∃ D, copy src [] = .ok D ∧ ∃ its, iterate D = some its ∧ absH its = absH src := by
  obtain ⟨D, hD, hs⟩ := copyBlobLoop_sim (D := []) (rpre := []) (by simp [Sim]) hok
  obtain ⟨its, h1, h2⟩ := sim_iterate hs
  refine ⟨D, ?_, its, h1, by simpa using h2⟩
  unfold copy
  rw [copyLoop_eq_blob hsorted none (by simp)]
  exact hD

/-- the blob variant (`copyTransactionsFromTo`, no fix-up) needs no order on the tids -/
theorem copyBlob_same_history {src : List ITxn} (hok : SrcOKFrom [] src) :
    ∃ D, copyBlobLoop src [] = .ok D ∧ ∃ its, iterate D = some its ∧ absH its = absH src := by
  obtain ⟨D, hD, hs⟩ := copyBlobLoop_sim (D := []) (rpre := []) (by simp [Sim]) hok
  obtain ⟨its, h1, h2⟩ := sim_iterate hs
  exact ⟨D, hD, its, h1, by simpa using h2⟩

/-! ### iterator ranges -/

theorem hintOK_mono {rpre rpre' : List ITxn} (hsub : ∀ t ∈ rpre', t ∈ rpre) {r : IRec}
    (h : HintOK rpre r) : HintOK rpre' r :=
  fun hh hdt t ht => h hh hdt t (hsub t ht)

theorem srcOK_sublist {src' src : List ITxn} (h : src'.Sublist src) :
    ∀ {rpre rpre' : List ITxn}, (∀ t ∈ rpre', t ∈ rpre) → SrcOKFrom rpre src → SrcOKFrom rpre' src' := by
  induction h with
  | slnil => intro _ _ _ _; trivial
  | cons a _ ih =>
    intro rpre rpre' hsub hok
    exact ih (fun t ht => List.mem_cons_of_mem _ (hsub t ht)) hok.2
  | cons_cons a _ ih =>
    intro rpre rpre' hsub hok
    refine ⟨fun r hr => hintOK_mono hsub (hok.1 r hr), ih ?_ hok.2⟩
    intro t ht
    rcases List.mem_cons.1 ht with ht | ht
    · exact ht ▸ List.mem_cons_self
    · exact List.mem_cons_of_mem _ (hsub t ht)

theorem iterRange_sublist (src : List ITxn) (a b : Option Nat) : (iterRange src a b).Sublist src := by
  unfold iterRange
  cases a <;> cases b <;> simp only
  · exact List.Sublist.refl _
  · exact List.takeWhile_sublist _
  · exact List.dropWhile_sublist _
  · exact (List.takeWhile_sublist _).trans (List.dropWhile_sublist _)

/-- membership in `[start, stop]` -/
def inRange (a b : Option Nat) (t : ITxn) : Bool :=
  (match a with | none => true | some a => decide (a ≤ t.tid)) &&
  (match b with | none => true | some b => decide (t.tid ≤ b))

theorem dropWhile_sorted {src : List ITxn} (hs : TidsIncreasing src) (a : Nat) :
    src.dropWhile (fun t => decide (t.tid < a)) = src.filter (fun t => decide (a ≤ t.tid)) := by
  induction src with
  | nil => rfl
  | cons t rest ih =>
    have hp := List.pairwise_cons.1 hs
    by_cases h : t.tid < a
    · rw [List.dropWhile_cons_of_pos (by simpa using h), List.filter_cons_of_neg (by simp; omega)]
      exact ih hp.2
    · rw [List.dropWhile_cons_of_neg (by simpa using h), List.filter_cons_of_pos (by simp; omega)]
      congr 1
      symm
      rw [List.filter_eq_self]
      intro t' ht'
      have := hp.1 t' ht'
      simp; omega

theorem takeWhile_sorted {src : List ITxn} (hs : TidsIncreasing src) (b : Nat) :
    src.takeWhile (fun t => decide (t.tid ≤ b)) = src.filter (fun t => decide (t.tid ≤ b)) := by
  induction src with
  | nil => rfl
  | cons t rest ih =>
    have hp := List.pairwise_cons.1 hs
    by_cases h : t.tid ≤ b
    · rw [List.takeWhile_cons_of_pos (by simpa using h), List.filter_cons_of_pos (by simpa using h)]
      congr 1
      exact ih hp.2
    · rw [List.takeWhile_cons_of_neg (by simpa using h), List.filter_cons_of_neg (by simpa using h)]
      symm
      rw [List.filter_eq_nil_iff]
      intro t' ht'
      have := hp.1 t' ht'
      simp; omega

/-- on a source with increasing tids, `iterator(start, stop)` yields exactly the transactions with
    `start ≤ tid ≤ stop` -/
theorem iterRange_eq_filter {src : List ITxn} (hs : TidsIncreasing src) (a b : Option Nat) :
    iterRange src a b = src.filter (inRange a b) := by
  unfold iterRange inRange
  cases a with
  | none =>
    cases b with
    | none =>
      simp only [Bool.and_self]
      exact (List.filter_eq_self.2 (fun _ _ => rfl)).symm
    | some b => simpa using takeWhile_sorted hs b
  | some a =>
    cases b with
    | none => simpa using dropWhile_sorted hs a
    | some b =>
      simp only
      rw [dropWhile_sorted hs a, takeWhile_sorted (List.Pairwise.sublist List.filter_sublist hs) b,
        List.filter_filter]
      congr 1
      funext t
      simp [Bool.and_comm]

theorem copy_range {src : List ITxn} (hsorted : TidsIncreasing src) (hok : SrcOKFrom [] src)
    (a b : Option Nat) :
    ∃ D, copy (iterRange src a b) [] = .ok D ∧ ∃ its, iterate D = some its ∧
      absH its = absH (iterRange src a b) :=
  copy_same_history (List.Pairwise.sublist (iterRange_sublist src a b) hsorted)
    (srcOK_sublist (iterRange_sublist src a b) (fun _ h => h) hok)

/-! ### strong form: hints that name the transaction really holding the data are preserved -/

/-- a hint names a preceding transaction whose LAST record of the oid carries the same data and
    whose record tid is the hinted tid (what a FileStorage iterator yields) -/
def HintStrong (rpre : List ITxn) (r : IRec) : Prop :=
  ∀ h, r.dataTxn = some h → (∃ t ∈ rpre, t.tid = h) ∧
    ∀ t ∈ rpre, t.tid = h → ∃ i q, lastIdx r.oid (t.recs.map (·.oid)) = some i ∧
      t.recs[i]? = some q ∧ q.data = r.data ∧ q.tid = h

def SrcStrongFrom (rpre : List ITxn) : List ITxn → Prop
  | [] => True
  | t :: rest => (∀ r ∈ t.recs, HintStrong rpre r) ∧ SrcStrongFrom (t :: rpre) rest

/-- destination `D` iterates to exactly `rpre` (hints included) -/
def SimS : Store → List ITxn → Prop
  | [], [] => True
  | dt :: older, t :: rp => SimS older rp ∧ iterTxn older dt = some t
  | _, _ => False

theorem simS_sim {D : Store} {rpre : List ITxn} (h : SimS D rpre) : Sim D rpre := by
  induction D generalizing rpre with
  | nil => cases rpre <;> simp_all [Sim, SimS]
  | cons d D ih =>
    cases rpre with
    | nil => simp [SimS] at h
    | cons t rp => exact ⟨ih h.1, t, h.2, rfl⟩

theorem hintStrong_ok {rpre : List ITxn} {r : IRec} (h : HintStrong rpre r) : HintOK rpre r := by
  intro hh hdt t ht htid i hi q hq
  obtain ⟨i', q', h1, h2, h3, -⟩ := (h hh hdt).2 t ht htid
  rw [hi] at h1
  simp only [Option.some.injEq] at h1
  subst h1
  rw [hq] at h2
  simp only [Option.some.injEq] at h2
  subst h2
  exact h3

theorem srcStrong_ok {src rpre : List ITxn} (h : SrcStrongFrom rpre src) : SrcOKFrom rpre src := by
  induction src generalizing rpre with
  | nil => trivial
  | cons t rest ih => exact ⟨fun r hr => hintStrong_ok (h.1 r hr), ih h.2⟩

theorem txnFind_of_mem {D : Store} {rpre : List ITxn} (hs : SimS D rpre) {t : ITxn} (ht : t ∈ rpre) :
    ∃ p, txnFind D t.tid = some p := by
  induction D generalizing rpre with
  | nil => cases rpre <;> simp_all [SimS]
  | cons d D ih =>
    cases rpre with
    | nil => simp at ht
    | cons t0 rp =>
      simp only [txnFind]
      split
      · exact ⟨_, rfl⟩
      · rename_i hne
        rcases List.mem_cons.1 ht with ht | ht
        · subst ht
          exact absurd (iterTxn_recs hs.2).2.1.symm hne
        · exact ih hs.1 ht

theorem restoreRec_simS {D : Store} {rpre : List ITxn} (hs : SimS D rpre) {r : IRec}
    (hh : HintStrong rpre r) :
    ∃ x, restoreRec D r = .ok x ∧ iterRec D x = some r := by
  obtain ⟨roid, rtid, rdata, rhint⟩ := r
  unfold restoreRec prevPos
  cases rhint with
  | none =>
    simp only
    cases rdata with
    | some d => exact ⟨_, rfl, rfl⟩
    | none => exact ⟨_, rfl, rfl⟩
  | some h =>
    simp only
    obtain ⟨⟨t0, ht0, htid0⟩, hall⟩ := hh h rfl
    obtain ⟨p, hf⟩ := txnFind_of_mem hs ht0
    rw [htid0] at hf
    obtain ⟨dt, older⟩ := p
    obtain ⟨newer, t, it, hD, hmem, htid, hit, habs⟩ := txnFind_sim (simS_sim hs) hf
    obtain ⟨i, q, hl, hq, hqd, hqt⟩ := hall t hmem htid
    simp only at hl hqd
    obtain ⟨hrecs, -⟩ := iterTxn_recs hit
    have hoids : oids dt = t.recs.map (·.oid) := by
      rw [← absTxn_oids habs, iterRecs_oids hrecs]; rfl
    have hl' : lastIdx roid (oids dt) = some i := hoids ▸ hl
    have hlt : i < dt.recs.length := by
      have := lastIdx_lt hl'; simpa [oids] using this
    have hdq : dt.recs[i]? = some dt.recs[i] := List.getElem?_eq_getElem hlt
    obtain ⟨ir, hir1, hir2⟩ := iterRecs_get hrecs hdq
    obtain ⟨y, hy1, hy2⟩ := absTxn_get habs hir1
    rw [hq] at hy1
    simp only [Option.some.injEq] at hy1
    subst hy1
    have hird : ir.data = rdata := by
      have : (absRec ir).data = (absRec q).data := by rw [hy2]
      simp only [absRec] at this
      rw [this, hqd]
    have hirt : dt.recs[i].serial = h := by
      have h1 : (absRec ir).tid = (absRec q).tid := by rw [hy2]
      simp only [absRec] at h1
      rw [← (iterRec_oid hir2).2, h1, hqt]
    have hqoid : dt.recs[i].oid = roid := by
      have := lastIdx_some hl'
      simp only [oids, List.getElem?_map, hdq, Option.map_some, Option.some.injEq] at this
      exact this
    have hptr : iterRec D ⟨roid, rtid, indexGet D roid, .back older.length i⟩ =
        some ⟨roid, rtid, rdata, some h⟩ := by
      simp only [iterRec, hD, loadBack_eq_iter newer hrecs hir1, recAt_append, hdq,
        Option.map_some, hqoid, if_true, hird, hirt]
    simp only [hf, dataFind, hl', hdq]
    cases hb : dt.recs[i].body with
    | full d =>
      simp only
      unfold iterRec at hir2
      simp only [hb, Option.some.injEq] at hir2
      have hrd : rdata = some d := by rw [← hird, ← hir2]
      simp only [hrd, ne_eq, not_true_eq_false, if_false, if_true]
      exact ⟨_, rfl, hrd ▸ hptr⟩
    | back l j => exact ⟨_, rfl, hptr⟩
    | uncreate => exact ⟨_, rfl, hptr⟩

theorem restoreRecs_simS {D : Store} {rpre : List ITxn} (hs : SimS D rpre) {rs : List IRec}
    (hh : ∀ r ∈ rs, HintStrong rpre r) :
    ∃ xs, restoreRecs D rs = .ok xs ∧ iterRecs D xs = some rs := by
  induction rs with
  | nil => exact ⟨[], rfl, rfl⟩
  | cons r rs ih =>
    obtain ⟨x, hx, hir⟩ := restoreRec_simS hs (hh r List.mem_cons_self)
    obtain ⟨xs, hxs, hirs⟩ := ih (fun r' hr' => hh r' (List.mem_cons_of_mem _ hr'))
    exact ⟨x :: xs, by simp [restoreRecs, hx, hxs], by simp [iterRecs, hir, hirs]⟩

theorem restoreTxn_simS {D : Store} {rpre : List ITxn} (hs : SimS D rpre) {t : ITxn}
    (hh : ∀ r ∈ t.recs, HintStrong rpre r) :
    ∃ D', restoreTxn D t t.tid = .ok D' ∧ SimS D' (t :: rpre) := by
  obtain ⟨xs, hxs, hirs⟩ := restoreRecs_simS hs hh
  refine ⟨⟨t.tid, t.status, t.user, t.desc, t.ext, xs⟩ :: D, by simp [restoreTxn, hxs], hs, ?_⟩
  simp [iterTxn, hirs]

theorem copyBlobLoop_simS {src : List ITxn} {D : Store} {rpre : List ITxn} (hs : SimS D rpre)
    (hok : SrcStrongFrom rpre src) :
    ∃ D', copyBlobLoop src D = .ok D' ∧ SimS D' (src.reverse ++ rpre) := by
  induction src generalizing D rpre with
  | nil => exact ⟨D, rfl, by simpa using hs⟩
  | cons t rest ih =>
    obtain ⟨h1, h2⟩ := hok
    obtain ⟨D1, hD1, hs1⟩ := restoreTxn_simS hs h1
    obtain ⟨D', hD', hs'⟩ := ih hs1 h2
    exact ⟨D', by simp [copyBlobLoop, hD1, hD'], by simpa using hs'⟩

theorem simS_iterate {D : Store} {rpre : List ITxn} (hs : SimS D rpre) :
    iterate D = some rpre.reverse := by
  induction D generalizing rpre with
  | nil => cases rpre <;> simp_all [SimS, iterate]
  | cons d D ih =>
    cases rpre with
    | nil => simp [SimS] at hs
    | cons t rp => simp [iterate, ih hs.1, hs.2]

/-- with sound, precise hints the destination's iterator yields EXACTLY what the source's did -/
theorem copy_same_iteration {src : List ITxn} (hsorted : TidsIncreasing src)
    (hok : SrcStrongFrom [] src) : ∃ D, copy src [] = .ok D ∧ iterate D = some src := by
  obtain ⟨D, hD, hs⟩ := copyBlobLoop_simS (D := []) (rpre := []) (by simp [SimS]) hok
  refine ⟨D, ?_, by simpa using simS_iterate hs⟩
  unfold copy
  rw [copyLoop_eq_blob hsorted none (by simp)]
  exact hD

/-! ### a FileStorage source: what its iterator yields has sound, precise hints -/

/-- the transaction with exactly `l` older transactions, and those -/
def txnAt : Store → Nat → Option (Txn × Store)
  | [], _ => none
  | t :: older, l => if l = older.length then some (t, older) else txnAt older l

/-- a back pointer `(l, i)` of a record of `oid` designates the LAST record of `oid` in an older
    transaction — what `_transactionalUndoRecord`, `restore` and the packer write (the position the
    index held) -/
def PtrOK (older : Store) (oid l i : Nat) : Prop :=
  ∃ t' older', txnAt older l = some (t', older') ∧ lastIdx oid (oids t') = some i

/-- record-level well-formedness of a FileStorage: tids strictly increase, the tid of a data
    record is the tid of its transaction, back pointers are `PtrOK` -/
def StoreOK : Store → Prop
  | [] => True
  | t :: older =>
    StoreOK older ∧ (∀ t' ∈ older, t'.tid < t.tid) ∧
      ∀ r ∈ t.recs, r.serial = t.tid ∧
        (match r.body with | .back l i => PtrOK older r.oid l i | _ => True)

theorem txnAt_split {S : Store} {l : Nat} {t : Txn} {older : Store}
    (h : txnAt S l = some (t, older)) : ∃ newer, S = newer ++ t :: older ∧ l = older.length := by
  induction S with
  | nil => simp [txnAt] at h
  | cons a S ih =>
    simp only [txnAt] at h
    split at h
    · rename_i hl
      simp only [Option.some.injEq, Prod.mk.injEq] at h
      obtain ⟨rfl, rfl⟩ := h
      exact ⟨[], rfl, hl⟩
    · obtain ⟨newer, h1, h2⟩ := ih h
      exact ⟨a :: newer, by simp [h1], h2⟩

theorem simS_split {newer : Store} {t : Txn} {older : Store} {rs : List ITxn}
    (h : SimS (newer ++ t :: older) rs) :
    ∃ rn it ro, rs = rn ++ it :: ro ∧ SimS older ro ∧ iterTxn older t = some it := by
  induction newer generalizing rs with
  | nil =>
    cases rs with
    | nil => simp [SimS] at h
    | cons it ro => exact ⟨[], it, ro, rfl, h.1, h.2⟩
  | cons a newer ih =>
    cases rs with
    | nil => simp [SimS] at h
    | cons x rs =>
      obtain ⟨rn, it, ro, h1, h2, h3⟩ := ih h.1
      exact ⟨x :: rn, it, ro, by simp [h1], h2, h3⟩

/-- newest-first formulation of `SrcStrongFrom` -/
def StrongN : List ITxn → Prop
  | [] => True
  | t :: rp => StrongN rp ∧ ∀ r ∈ t.recs, HintStrong rp r

theorem strongN_suffix {a b : List ITxn} (h : StrongN (a ++ b)) : StrongN b := by
  induction a with
  | nil => exact h
  | cons x a ih => exact ih h.1

theorem strongN_from {l rp : List ITxn} (h : StrongN (l.reverse ++ rp)) : SrcStrongFrom rp l := by
  induction l generalizing rp with
  | nil => trivial
  | cons t rest ih =>
    have h' : StrongN (rest.reverse ++ t :: rp) := by simpa using h
    exact ⟨(strongN_suffix h').2, ih h'⟩

theorem iterRecs_of_forall {older : Store} {rs : List Rec}
    (h : ∀ r ∈ rs, ∃ ir, iterRec older r = some ir) : ∃ irs, iterRecs older rs = some irs := by
  induction rs with
  | nil => exact ⟨[], rfl⟩
  | cons r rs ih =>
    obtain ⟨ir, hir⟩ := h r List.mem_cons_self
    obtain ⟨irs, hirs⟩ := ih (fun r' hr' => h r' (List.mem_cons_of_mem _ hr'))
    exact ⟨ir :: irs, by simp [iterRecs, hir, hirs]⟩

theorem iterRecs_mem {older : Store} {rs : List Rec} {irs : List IRec}
    (h : iterRecs older rs = some irs) {ir : IRec} (hm : ir ∈ irs) :
    ∃ r ∈ rs, iterRec older r = some ir := by
  induction rs generalizing irs with
  | nil => simp [iterRecs] at h; subst h; simp at hm
  | cons r rs ih =>
    simp only [iterRecs] at h
    split at h
    · rename_i x xs hx hxs
      simp only [Option.some.injEq] at h
      subst h
      rcases List.mem_cons.1 hm with hm | hm
      · exact ⟨r, List.mem_cons_self, hm ▸ hx⟩
      · obtain ⟨r', h1, h2⟩ := ih hxs hm
        exact ⟨r', List.mem_cons_of_mem _ h1, h2⟩
    · simp at h

/-- the tid of every record of every transaction is the transaction's tid -/
theorem storeOK_serial {S : Store} (h : StoreOK S) {t : Txn} (ht : t ∈ S) {r : Rec}
    (hr : r ∈ t.recs) : r.serial = t.tid := by
  induction S with
  | nil => simp at ht
  | cons a S ih =>
    rcases List.mem_cons.1 ht with ht | ht
    · subst ht; exact (h.2.2 r hr).1
    · exact ih h.1 ht

theorem storeOK_iter {S : Store} (h : StoreOK S) :
    ∃ rs, SimS S rs ∧ StrongN rs ∧ rs.map (·.tid) = S.map (·.tid) := by
  induction S with
  | nil => exact ⟨[], trivial, trivial, rfl⟩
  | cons t older ih =>
    obtain ⟨hok, hlt, hrecs⟩ := h
    obtain ⟨rs, hsim, hstr, htids⟩ := ih hok
    -- tids of `rs` are below `t.tid` and pairwise distinct (decreasing)
    have hdec : ∀ S' : Store, (StoreOK S') → S'.Pairwise (fun a b => b.tid < a.tid) := by
      intro S' hS'
      induction S' with
      | nil => exact List.Pairwise.nil
      | cons a S' ih' => exact List.pairwise_cons.2 ⟨hS'.2.1, ih' hS'.1⟩
    have hrsdec : rs.Pairwise (fun a b => b.tid < a.tid) := by
      have h1 := hdec older hok
      have h2 : (older.map (·.tid)).Pairwise (fun a b => b < a) := by
        simpa [List.pairwise_map] using h1
      rw [← htids] at h2
      simpa [List.pairwise_map] using h2
    -- every record iterates, with a strong hint
    have hall : ∀ r ∈ t.recs, ∃ ir, iterRec older r = some ir ∧ HintStrong rs ir := by
      intro r hr
      obtain ⟨hser, hb⟩ := hrecs r hr
      unfold iterRec
      cases hbody : r.body with
      | full d => exact ⟨_, rfl, fun h hh => by simp at hh⟩
      | uncreate => exact ⟨_, rfl, fun h hh => by simp at hh⟩
      | back l i =>
        simp only [hbody] at hb
        obtain ⟨t', older', hat, hlast⟩ := hb
        obtain ⟨newer, hsplit, hl⟩ := txnAt_split hat
        subst hl
        obtain ⟨rn, it', ro, hrs, hsimo, hit'⟩ := simS_split (hsplit ▸ hsim)
        obtain ⟨hirecs, hittid, -⟩ := iterTxn_recs hit'
        have hilt : i < t'.recs.length := by
          have := lastIdx_lt hlast; simpa [oids] using this
        have hq : t'.recs[i]? = some t'.recs[i] := List.getElem?_eq_getElem hilt
        obtain ⟨q, hq1, hq2⟩ := iterRecs_get hirecs hq
        have hqoid : t'.recs[i].oid = r.oid := by
          have := lastIdx_some hlast
          simp only [oids, List.getElem?_map, hq, Option.map_some, Option.some.injEq] at this
          exact this
        have ht'mem : t' ∈ older := by rw [hsplit]; simp
        have hser' : t'.recs[i].serial = t'.tid :=
          storeOK_serial hok ht'mem (List.getElem_mem hilt)
        refine ⟨⟨r.oid, r.serial, q.data, some t'.recs[i].serial⟩, ?_, ?_⟩
        · simp only [hsplit, loadBack_eq_iter newer hirecs hq1, recAt_append, hq, Option.map_some,
            hqoid, if_true]
        · intro h hh
          simp only [Option.some.injEq] at hh
          subst hh
          have hit'mem : it' ∈ rs := by rw [hrs]; simp
          refine ⟨⟨it', hit'mem, by rw [hittid, hser']⟩, ?_⟩
          intro t'' ht'' htid''
          -- uniqueness of tids in `rs`
          have heq : t'' = it' := by
            rw [hrs] at ht'' hrsdec
            have hp := List.pairwise_append.1 hrsdec
            have hp2 := List.pairwise_cons.1 hp.2.1
            rcases List.mem_append.1 ht'' with hm | hm
            · have := hp.2.2 t'' hm it' List.mem_cons_self
              rw [hittid, ← hser'] at this; omega
            · rcases List.mem_cons.1 hm with hm | hm
              · exact hm
              · have := hp2.1 t'' hm
                rw [hittid, ← hser'] at this; omega
          subst heq
          refine ⟨i, q, ?_, hq1, rfl, ?_⟩
          · have : t''.recs.map (·.oid) = oids t' := iterRecs_oids hirecs
            simp only [this]; exact hlast
          · rw [(iterRec_oid hq2).2]
    obtain ⟨irs, hirs⟩ := iterRecs_of_forall (fun r hr => (hall r hr).imp fun _ h => h.1)
    refine ⟨⟨t.tid, t.status, t.user, t.desc, t.ext, irs⟩ :: rs,
      ⟨hsim, by simp [iterTxn, hirs]⟩, ⟨hstr, ?_⟩, by simp [htids]⟩
    intro ir hir
    obtain ⟨r, hr, hri⟩ := iterRecs_mem hirs hir
    obtain ⟨ir', h1, h2⟩ := hall r hr
    rw [hri] at h1
    simp only [Option.some.injEq] at h1
    exact h1 ▸ h2

/-- the iterator of a well-formed FileStorage yields increasing tids and sound, precise hints -/
theorem storeOK_source {S : Store} (h : StoreOK S) :
    ∃ src, iterate S = some src ∧ TidsIncreasing src ∧ SrcStrongFrom [] src := by
  obtain ⟨rs, hsim, hstr, htids⟩ := storeOK_iter h
  refine ⟨rs.reverse, simS_iterate hsim, ?_, strongN_from (by simpa using hstr)⟩
  have hdec : S.Pairwise (fun a b => b.tid < a.tid) := by
    clear hsim hstr htids
    induction S with
    | nil => exact List.Pairwise.nil
    | cons a S ih => exact List.pairwise_cons.2 ⟨h.2.1, ih h.1⟩
  have h2 : (S.map (·.tid)).Pairwise (fun a b => b < a) := by
    simpa [List.pairwise_map] using hdec
  rw [← htids] at h2
  have h3 : rs.Pairwise (fun a b => b.tid < a.tid) := by simpa [List.pairwise_map] using h2
  unfold TidsIncreasing
  rw [List.pairwise_reverse]
  exact h3

/-! ### blobs and the `prev` field -/

/-- the blob files of the destination are exactly: one per source record that is a blob record
    and whose file the source has — same (oid, tid), same content -/
theorem mem_copyBlobs (isBlob : Bytes → Bool) (sb : Blobs) (src : List ITxn) (e : (Nat × Nat) × Bytes) :
    e ∈ copyBlobs isBlob sb src ↔
      ∃ t ∈ src, ∃ r ∈ t.recs, ∃ d, r.data = some d ∧ isBlob d = true ∧
        loadBlob sb r.oid r.tid = some e.2 ∧ e.1 = (r.oid, r.tid) := by
  unfold copyBlobs
  simp only [List.mem_flatMap, List.mem_filterMap]
  constructor
  · rintro ⟨t, ht, r, hr, h⟩
    refine ⟨t, ht, r, hr, ?_⟩
    cases hd : r.data with
    | none => simp [hd] at h
    | some d =>
      simp only [hd] at h
      by_cases hb : isBlob d = true
      · simp only [hb, if_true] at h
        cases hl : loadBlob sb r.oid r.tid with
        | none => simp [hl] at h
        | some c =>
          simp only [hl, Option.some.injEq] at h
          subst h
          exact ⟨d, rfl, hb, rfl, rfl⟩
      · simp [hb] at h
  · rintro ⟨t, ht, r, hr, d, hd, hb, hl, he⟩
    refine ⟨t, ht, r, hr, ?_⟩
    simp only [hd, hb, if_true, hl, Option.some.injEq]
    exact Prod.ext he.symm rfl

/-- what `restore` writes into the header: the oid, the source record's tid, and as `prev` the
    position the index held (the newest committed record of the oid, `none` = 0) -/
theorem restoreRec_fields {D : Store} {r : IRec} {x : Rec} (h : restoreRec D r = .ok x) :
    x.oid = r.oid ∧ x.serial = r.tid ∧ x.prev = indexGet D r.oid := by
  unfold restoreRec at h
  split at h
  · simp at h
  · simp only [Except.ok.injEq] at h; subst h; exact ⟨rfl, rfl, rfl⟩
  · split at h <;> (simp only [Except.ok.injEq] at h; subst h; exact ⟨rfl, rfl, rfl⟩)

/-- the index entry designates the LAST record of the oid in the NEWEST transaction that has one -/
theorem indexGet_spec {D : Store} {oid l i : Nat} (h : indexGet D oid = some (l, i)) :
    ∃ newer t older, D = newer ++ t :: older ∧ l = older.length ∧
      lastIdx oid (oids t) = some i ∧ ∀ n ∈ newer, lastIdx oid (oids n) = none := by
  induction D with
  | nil => simp [indexGet] at h
  | cons t D ih =>
    simp only [indexGet] at h
    cases hl : lastIdx oid (oids t) with
    | some j =>
      simp only [hl, Option.some.injEq, Prod.mk.injEq] at h
      obtain ⟨rfl, rfl⟩ := h
      exact ⟨[], t, D, rfl, rfl, hl, by simp⟩
    | none =>
      simp only [hl] at h
      obtain ⟨newer, t', older, h1, h2, h3, h4⟩ := ih h
      refine ⟨t :: newer, t', older, by simp [h1], h2, h3, ?_⟩
      intro n hn
      rcases List.mem_cons.1 hn with hn | hn
      · exact hn ▸ hl
      · exact h4 n hn

end Proofs.Copy
