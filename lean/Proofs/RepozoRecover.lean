/-
  Helper lemmas for C18, part 4: `do_recover` and `do_verify` on a repository satisfying the
  invariant, and on a damaged copy of it.
-/
import Proofs.RepozoBackup
namespace Proofs.Repozo
open ZodbModel ZodbModel.Repozo

/-! ### `.dat` lines covering a chain -/

/-- the `.dat` holds, under `g`'s name, `g`'s size and checksum -/
def LineFor (lines : List DatLine) (g : DFile) : Prop :=
  ∃ ln, truthLookup g.name lines = some ln ∧ g.content.length + ln.startpos = ln.endpos ∧
    g.content = ln.sum

def Covers (lines : List DatLine) (l : List DFile) : Prop := ∀ g ∈ upToFull l, LineFor lines g

/-- every line describes a file of `files` exactly -/
def SoundLines (files : List DFile) (lines : List DatLine) : Prop :=
  ∀ ln ∈ lines, ∃ g ∈ files, g.name = ln.fn ∧ g.content.length + ln.startpos = ln.endpos ∧
    g.content = ln.sum

theorem truthLookup_snoc (nm : Name) (xs : List DatLine) (ln : DatLine) :
    truthLookup nm (xs ++ [ln]) = if ln.fn = nm then some ln else truthLookup nm xs := by
  simp [truthLookup, List.foldl_append]

theorem foldl_lookup {nm : Name} {xs : List DatLine} {acc : Option DatLine} {ln : DatLine}
    (h : xs.foldl (fun acc l => if l.fn = nm then some l else acc) acc = some ln) :
    (ln ∈ xs ∧ ln.fn = nm) ∨ acc = some ln := by
  induction xs generalizing acc with
  | nil => right; simpa using h
  | cons x t ih =>
    simp only [List.foldl_cons] at h
    rcases ih h with h' | h'
    · left; exact ⟨List.mem_cons_of_mem _ h'.1, h'.2⟩
    · split at h'
      · rename_i hx
        cases h'
        left; exact ⟨List.mem_cons_self, hx⟩
      · right; exact h'

theorem truthLookup_some {nm : Name} {xs : List DatLine} {ln : DatLine}
    (h : truthLookup nm xs = some ln) : ln ∈ xs ∧ ln.fn = nm := by
  rcases foldl_lookup h with h | h
  · exact h
  · cases h

theorem covers_chainLines {l : List DFile} (hd : DecDates l) : Covers (chainLines l) l := by
  induction l with
  | nil => intro g hg; simp [upToFull] at hg
  | cons f t ih =>
    have hdec := List.pairwise_cons.1 hd
    intro g hg
    simp only [upToFull] at hg
    simp only [chainLines]
    by_cases hf : f.name.full = true
    · simp only [hf, ↓reduceIte, List.mem_singleton] at hg ⊢
      subst hg
      exact ⟨⟨g.name, 0, g.content.length, g.content⟩, by simp [truthLookup], by simp, rfl⟩
    · simp only [hf, Bool.false_eq_true, ↓reduceIte] at hg ⊢
      rcases List.mem_cons.1 hg with hg | hg
      · subst hg
        refine ⟨⟨g.name, (chainBytes t).length, (chainBytes t).length + g.content.length, g.content⟩,
          by rw [truthLookup_snoc]; simp, ?_, rfl⟩
        simp only; omega
      · have hgt := mem_upToFull hg
        have hlt := hdec.1 g hgt
        obtain ⟨ln, h1, h2, h3⟩ := ih hdec.2 g hg
        refine ⟨ln, ?_, h2, h3⟩
        rw [truthLookup_snoc]
        have : ¬ f.name = g.name := by intro e; rw [e] at hlt; omega
        simp only [this, if_false]
        exact h1

theorem chainLines_sound (l : List DFile) : SoundLines l (chainLines l) := by
  induction l with
  | nil => intro ln h; simp [chainLines] at h
  | cons f t ih =>
    intro ln h
    simp only [chainLines] at h
    split at h
    · simp only [List.mem_singleton] at h
      subst h
      exact ⟨f, List.mem_cons_self, rfl, by simp, rfl⟩
    · rcases List.mem_append.1 h with h | h
      · obtain ⟨g, hg, h1⟩ := ih ln h
        exact ⟨g, List.mem_cons_of_mem _ hg, h1⟩
      · simp only [List.mem_singleton] at h
        subst h
        exact ⟨f, List.mem_cons_self, rfl, by simp only; omega, rfl⟩

theorem soundLines_mono {a b : List DFile} {lines : List DatLine} (h : ∀ g ∈ a, g ∈ b)
    (hs : SoundLines a lines) : SoundLines b lines := by
  intro ln hln
  obtain ⟨g, hg, h1⟩ := hs ln hln
  exact ⟨g, h g hg, h1⟩

/-! ### `find_files` for an arbitrary date -/

theorem scan_good {r : Repo} {when : Nat} {top : Bool} {l : List DFile} {H : List (Nat × Bytes)}
    (hg : Good r top l H) (hd : DecDates l)
    (hc : top = false → l ≠ [] →
      ∃ D lines, chainDate l = some D ∧ getK D r.dats = some lines ∧ Covers lines l) :
    match H.find? (fun e => e.1 ≤ when) with
    | none => scanNeeded when l = []
    | some e => ∃ f t, scanNeeded when l = upToFull (f :: t) ∧ f.name.date = e.1 ∧
        chainBytes (f :: t) = e.2 ∧ getK e.1 r.idxs = some e.2 ∧
        ∃ D lines, chainDate (f :: t) = some D ∧ getK D r.dats = some lines ∧
          Covers lines (f :: t) := by
  induction l generalizing top H with
  | nil =>
    cases H with
    | nil => simp [scanNeeded]
    | cons e hs => simp [Good] at hg
  | cons f t ih =>
    cases H with
    | nil => simp [Good] at hg
    | cons e hs =>
      obtain ⟨h1, h2, h3, h4, _, h6⟩ := hg
      have hdec := List.pairwise_cons.1 hd
      have ctx : ∃ D lines, chainDate (f :: t) = some D ∧ getK D r.dats = some lines ∧
          Covers lines (f :: t) := by
        cases top with
        | true =>
          obtain ⟨D, hD, hdat⟩ := h4 rfl
          exact ⟨D, _, hD, hdat, covers_chainLines hd⟩
        | false => exact hc rfl (by simp)
      by_cases hw : e.1 ≤ when
      · simp only [List.find?_cons, hw, decide_true]
        exact ⟨f, t, scanNeeded_cons_le hd (by omega), h1, h2, h3, ctx⟩
      · simp only [List.find?_cons, hw, decide_false]
        rw [scanNeeded_cons_gt (by omega)]
        apply ih h6 hdec.2
        intro hff hne
        obtain ⟨D, lines, hD, hdat, hcov⟩ := ctx
        refine ⟨D, lines, ?_, hdat, ?_⟩
        · simpa [chainDate, hff] using hD
        · intro g hg'
          apply hcov
          simp only [upToFull, hff, Bool.false_eq_true, if_false]
          exact List.mem_cons_of_mem _ hg'

theorem recoverVerifyLoop_ok {lines : List DatLine} {files : List DFile} (acc : Bytes)
    (h : ∀ g ∈ files, LineFor lines g) :
    recoverVerifyLoop lines files acc = (acc ++ concat files, none) := by
  induction files generalizing acc with
  | nil => simp [recoverVerifyLoop, concat]
  | cons f t ih =>
    obtain ⟨ln, h1, h2, h3⟩ := h f List.mem_cons_self
    simp only [recoverVerifyLoop, h1]
    rw [if_neg (by simpa using h2), if_neg (by simpa using h3)]
    rw [ih _ (fun g hg => h g (List.mem_cons_of_mem _ hg))]
    simp [concat]

theorem recoverStream_ok {r : Repo} {f : DFile} {t : List DFile} {D : Nat} {lines : List DatLine}
    (w : Bool) (hD : chainDate (f :: t) = some D) (hdat : getK D r.dats = some lines)
    (hcov : Covers lines (f :: t)) :
    recoverStream r (upToFull (f :: t)).reverse w = (chainBytes (f :: t), none) := by
  unfold recoverStream
  cases w with
  | false => simp [concat_reverse_upToFull]
  | true =>
    obtain ⟨f0, rest, h1, h2, _⟩ := head_reverse_upToFull hD
    simp only [if_true]
    rw [h1]
    simp only [h2, hdat]
    rw [← h1, recoverVerifyLoop_ok [] (fun g hg => hcov g (List.mem_reverse.1 hg))]
    simp [concat_reverse_upToFull]

/-- the repository's answer to "recover as of `when`" -/
theorem doRecover_spec {r : Repo} {H : List (Nat × Bytes)} (hi : Inv r H) (when : Nat) (w : Bool)
    (o : Out) :
    doRecover r when w o =
      match H.find? (fun e => e.1 ≤ when) with
      | none => (o, some .noFiles)
      | some e => (⟨some e.2, none, some e.2⟩, none) := by
  have hs := scan_good (when := when) hi.good hi.dec (by simp)
  unfold doRecover findFiles
  rw [sortDesc_of_dec hi.dec]
  cases hfind : H.find? (fun e => e.1 ≤ when) with
  | none =>
    rw [hfind] at hs
    simp only at hs
    simp [hs]
  | some e =>
    rw [hfind] at hs
    obtain ⟨f, t, h1, h2, h3, h4, D, lines, hD, hdat, hcov⟩ := hs
    simp only [h1, getLast_reverse_upToFull, recoverStream_ok w hD hdat hcov, h2, h4, h3]

theorem doRecoverStdout_spec {r : Repo} {H : List (Nat × Bytes)} (hi : Inv r H) (when : Nat)
    (w : Bool) :
    doRecoverStdout r when w =
      match H.find? (fun e => e.1 ≤ when) with
      | none => ([], some .noFiles)
      | some e => (e.2, none) := by
  have hs := scan_good (when := when) hi.good hi.dec (by simp)
  unfold doRecoverStdout findFiles
  rw [sortDesc_of_dec hi.dec]
  cases hfind : H.find? (fun e => e.1 ≤ when) with
  | none =>
    rw [hfind] at hs
    simp only at hs
    simp [hs]
  | some e =>
    rw [hfind] at hs
    obtain ⟨f, t, h1, _, h3, _, D, lines, hD, hdat, hcov⟩ := hs
    rw [h1]
    have : (upToFull (f :: t)).reverse.isEmpty = false := by
      have := upToFull_ne_nil (l := f :: t) (by simp)
      cases hu : upToFull (f :: t) with
      | nil => exact absurd hu this
      | cons a b => simp
    simp only [this, Bool.false_eq_true, if_false, recoverStream_ok w hD hdat hcov, h3]

/-! ### every file is recorded, and every record describes a file -/

theorem good_covered {r : Repo} {files : List DFile} {top : Bool} {l : List DFile}
    {H : List (Nat × Bytes)} (hg : Good r top l H) (hd : DecDates l) (hsub : ∀ g ∈ l, g ∈ files)
    (hc : top = false → l ≠ [] →
      ∃ D lines, chainDate l = some D ∧ getK D r.dats = some lines ∧ Covers lines l ∧
        SoundLines files lines) :
    ∀ g ∈ l, ∃ D lines, getK D r.dats = some lines ∧ LineFor lines g ∧ SoundLines files lines ∧
      (g.name.full = true → D = g.name.date) := by
  induction l generalizing top H with
  | nil => intro g hg'; simp at hg'
  | cons f t ih =>
    cases H with
    | nil => simp [Good] at hg
    | cons e hs =>
      obtain ⟨_, _, _, h4, _, h6⟩ := hg
      have hdec := List.pairwise_cons.1 hd
      have ctx : ∃ D lines, chainDate (f :: t) = some D ∧ getK D r.dats = some lines ∧
          Covers lines (f :: t) ∧ SoundLines files lines := by
        cases top with
        | true =>
          obtain ⟨D, hD, hdat⟩ := h4 rfl
          exact ⟨D, _, hD, hdat, covers_chainLines hd, soundLines_mono hsub (chainLines_sound _)⟩
        | false => exact hc rfl (by simp)
      obtain ⟨D, lines, hD, hdat, hcov, hsound⟩ := ctx
      intro g hg'
      rcases List.mem_cons.1 hg' with hg' | hg'
      · subst hg'
        refine ⟨D, lines, hdat, hcov g ?_, hsound, ?_⟩
        · simp only [upToFull]; split <;> simp
        · intro hfull
          simp only [chainDate, hfull, if_true] at hD
          simpa using hD.symm
      · apply ih h6 hdec.2 (fun g hg => hsub g (List.mem_cons_of_mem _ hg)) _ g hg'
        intro hff _
        refine ⟨D, lines, ?_, hdat, ?_, hsound⟩
        · simpa [chainDate, hff] using hD
        · intro g hg''
          apply hcov
          simp only [upToFull, hff, Bool.false_eq_true, if_false]
          exact List.mem_cons_of_mem _ hg''

theorem good_has_full {r : Repo} {top : Bool} {l : List DFile} {H : List (Nat × Bytes)}
    (hg : Good r top l H) (hne : l ≠ []) : ∃ g ∈ l, g.name.full = true := by
  induction l generalizing top H with
  | nil => exact absurd rfl hne
  | cons f t ih =>
    cases H with
    | nil => simp [Good] at hg
    | cons e hs =>
      obtain ⟨_, _, _, _, h5, h6⟩ := hg
      by_cases ht : t = []
      · exact ⟨f, List.mem_cons_self, h5 ht⟩
      · obtain ⟨g, hg', hf⟩ := ih h6 ht
        exact ⟨g, List.mem_cons_of_mem _ hg', hf⟩

/-- every data file is recorded in a `.dat` of the repository, with its size and checksum -/
theorem dat_complete {r : Repo} {H : List (Nat × Bytes)} (hi : Inv r H) :
    ∀ g ∈ r.files, ∃ p ∈ r.dats, ∃ ln ∈ p.2, ln.fn = g.name ∧
      g.content.length + ln.startpos = ln.endpos ∧ g.content = ln.sum := by
  intro g hg
  obtain ⟨D, lines, hdat, ⟨ln, h1, h2, h3⟩, _, _⟩ :=
    good_covered (files := r.files) hi.good hi.dec (fun g hg => hg) (by simp) g hg
  have := truthLookup_some h1
  exact ⟨(D, lines), getK_mem hdat, ln, this.1, this.2, h2, h3⟩

theorem full_has_dat {r : Repo} {H : List (Nat × Bytes)} (hi : Inv r H) :
    ∀ g ∈ r.files, g.name.full = true → ∃ lines, getK g.name.date r.dats = some lines ∧
      SoundLines r.files lines := by
  intro g hg hfull
  obtain ⟨D, lines, hdat, _, hsound, hD⟩ :=
    good_covered (files := r.files) hi.good hi.dec (fun g hg => hg) (by simp) g hg
  rw [hD hfull] at hdat
  exact ⟨lines, hdat, hsound⟩

/-- every line of every `.dat` describes a data file of the repository exactly -/
theorem dat_sound {r : Repo} {H : List (Nat × Bytes)} (hi : Inv r H) :
    ∀ p ∈ r.dats, SoundLines r.files p.2 := by
  intro p hp
  obtain ⟨f, hf, hfull, hfd⟩ := hi.datFull p hp
  obtain ⟨lines, hdat, hsound⟩ := full_has_dat hi f hf hfull
  have : getK p.1 r.dats = some p.2 := getK_of_mem hi.datKeys hp
  rw [hfd, this] at hdat
  cases hdat
  exact hsound

/-! ### `do_verify` -/

/-- the check `do_verify` makes for one line -/
def LineOK (files : List DFile) (quick : Bool) (l : DatLine) : Prop :=
  ∃ f, files.find? (fun f => f.name = l.fn) = some f ∧ f.content.length + l.startpos = l.endpos ∧
    (quick = false → f.content = l.sum)

theorem verifyLoop_none_iff (files : List DFile) (quick : Bool) (lines : List DatLine) :
    verifyLoop files quick lines = none ↔ ∀ l ∈ lines, LineOK files quick l := by
  induction lines with
  | nil => simp [verifyLoop]
  | cons l t ih =>
    simp only [verifyLoop, List.mem_cons, forall_eq_or_imp]
    cases hfind : files.find? (fun f => f.name = l.fn) with
    | none =>
      simp only [reduceCtorEq, false_iff, not_and]
      intro h
      obtain ⟨f, h1, _⟩ := h
      simp only [hfind] at h1
      cases h1
    | some f =>
      simp only
      by_cases h1 : f.content.length + l.startpos = l.endpos
      · rw [if_neg (by simpa using h1)]
        cases quick with
        | true =>
          simp only [Bool.not_true, Bool.false_and, Bool.false_eq_true, if_false, ih]
          constructor
          · intro h; exact ⟨⟨f, hfind, h1, by simp⟩, h⟩
          · intro h; exact h.2
        | false =>
          by_cases h2 : f.content = l.sum
          · simp only [Bool.not_false, Bool.true_and, h2, ne_eq, not_true_eq_false,
              decide_false, Bool.false_eq_true, if_false, ih]
            constructor
            · intro h; exact ⟨⟨f, hfind, h1, fun _ => h2⟩, h⟩
            · intro h; exact h.2
          · simp only [Bool.not_false, Bool.true_and, ne_eq, h2, not_false_eq_true, decide_true,
              if_true, reduceCtorEq, false_iff, not_and]
            intro h
            obtain ⟨f', h1', _, h3'⟩ := h
            rw [hfind] at h1'
            cases h1'
            exact absurd (h3' rfl) h2
      · rw [if_pos (by simpa using h1)]
        simp only [reduceCtorEq, false_iff, not_and]
        intro h
        obtain ⟨f', h1', h2', _⟩ := h
        rw [hfind] at h1'
        cases h1'
        exact absurd h2' h1

theorem mem_insertAscK {α} {p q : Nat × α} {t : List (Nat × α)} :
    q ∈ insertAscK p t ↔ q = p ∨ q ∈ t := by
  induction t with
  | nil => simp [insertAscK]
  | cons x t ih =>
    simp only [insertAscK]
    split
    · simp
    · simp only [List.mem_cons, ih]
      constructor
      · rintro (h | h | h) <;> simp [h]
      · rintro (h | h | h) <;> simp [h]

theorem mem_sortAscK {α} {q : Nat × α} {l : List (Nat × α)} : q ∈ sortAscK l ↔ q ∈ l := by
  induction l with
  | nil => simp [sortAscK]
  | cons p t ih =>
    show q ∈ insertAscK p (sortAscK t) ↔ _
    rw [mem_insertAscK, ih]; simp

theorem mem_verifyLines {r : Repo} {d0 : Nat} {first : List DatLine} {l : DatLine}
    (hk : KeysNodup r.dats) (h0 : getK d0 r.dats = some first) :
    l ∈ verifyLines r d0 first ↔ ∃ p ∈ r.dats, l ∈ p.2 := by
  unfold verifyLines
  simp only [List.mem_append, List.mem_flatMap, mem_sortAscK, List.mem_filter]
  constructor
  · rintro (h | ⟨p, ⟨hp, _⟩, hl⟩)
    · exact ⟨(d0, first), getK_mem h0, h⟩
    · exact ⟨p, hp, hl⟩
  · rintro ⟨p, hp, hl⟩
    by_cases hd : p.1 = d0
    · left
      have := getK_of_mem hk (show (p.1, p.2) ∈ r.dats from hp)
      rw [hd, h0] at this
      cases this
      exact hl
    · right
      exact ⟨p, ⟨hp, by simpa using hd⟩, hl⟩

/-- `do_verify` succeeds exactly when there is a backup to look at, its `.dat` exists, and every
    line of every `.dat` of the repository passes the size (and, unless quick, checksum) test -/
theorem doVerify_none_iff {r : Repo} (hk : KeysNodup r.dats) (quick : Bool) (now : Nat) :
    doVerify r quick now = none ↔
      (∃ f0 rest, findFiles r now = f0 :: rest ∧ getK f0.name.date r.dats ≠ none) ∧
      ∀ p ∈ r.dats, ∀ l ∈ p.2, LineOK r.files quick l := by
  unfold doVerify
  cases hff : findFiles r now with
  | nil => simp
  | cons f0 rest =>
    simp only
    cases hdat : getK f0.name.date r.dats with
    | none => simp [hdat]
    | some lines =>
      simp only [verifyLoop_none_iff]
      constructor
      · intro h
        refine ⟨⟨f0, rest, rfl, by simp [hdat]⟩, ?_⟩
        intro p hp l hl
        exact h l ((mem_verifyLines hk hdat).2 ⟨p, hp, hl⟩)
      · intro h l hl
        obtain ⟨p, hp, hl'⟩ := (mem_verifyLines hk hdat).1 hl
        exact h.2 p hp l hl'

/-! ### a damaged copy of a repository -/

/-- `r` is `r0` after any damage to its data files: files removed, contents changed; nothing
    added, `.dat` files untouched -/
structure Damaged (r0 r : Repo) : Prop where
  dats : r.dats = r0.dats
  distinct : DistinctDates r.files
  names : ∀ f ∈ r.files, ∃ f0 ∈ r0.files, f0.name = f.name

theorem find_name_of_mem {l : List DFile} {g : DFile} (hd : DistinctDates l) (hg : g ∈ l) :
    l.find? (fun f => f.name = g.name) = some g := by
  induction l with
  | nil => simp at hg
  | cons f t ih =>
    have hdec := List.pairwise_cons.1 hd
    rcases List.mem_cons.1 hg with hg | hg
    · subst hg; simp
    · have : ¬ f.name = g.name := by
        intro e
        exact hdec.1 g hg (by rw [e])
      simp only [List.find?_cons, this, decide_false]
      exact ih hdec.2 hg

theorem chainDate_of_full {l : List DFile} (h : ∃ g ∈ l, g.name.full = true) :
    ∃ D, chainDate l = some D := by
  induction l with
  | nil => obtain ⟨g, hg, _⟩ := h; simp at hg
  | cons f t ih =>
    simp only [chainDate]
    by_cases hf : f.name.full = true
    · simp [hf]
    · simp only [hf, Bool.false_eq_true, if_false]
      obtain ⟨g, hg, hgf⟩ := h
      rcases List.mem_cons.1 hg with hg | hg
      · subst hg; exact absurd hgf hf
      · exact ih ⟨g, hg, hgf⟩

/-- the damaged copy passes verification exactly when every recorded file is still there with its
    recorded size and (unless quick) content -/
theorem verify_damaged_iff {r0 r : Repo} {H : List (Nat × Bytes)} {now : Nat} (quick : Bool)
    (hi : Inv r0 H) (hne : r0.files ≠ []) (hd : Damaged r0 r)
    (hnow : ∀ f ∈ r0.files, f.name.date ≤ now) :
    doVerify r quick now = none ↔
      ∀ f0 ∈ r0.files, ∃ f ∈ r.files, f.name = f0.name ∧ f.content.length = f0.content.length ∧
        (quick = false → f.content = f0.content) := by
  have hk : KeysNodup r.dats := by rw [hd.dats]; exact hi.datKeys
  rw [doVerify_none_iff hk]
  constructor
  · rintro ⟨_, hall⟩ f0 hf0
    obtain ⟨p, hp, ln, hln, h1, h2, h3⟩ := dat_complete hi f0 hf0
    rw [← hd.dats] at hp
    obtain ⟨f, hfind, hsz, hsum⟩ := hall p hp ln hln
    have hfn : f.name = ln.fn := by simpa using List.find?_some hfind
    refine ⟨f, List.mem_of_find?_eq_some hfind, by rw [hfn, h1], by omega, ?_⟩
    intro hq; rw [hsum hq, h3]
  · intro hall
    constructor
    · -- there is something to verify, and its `.dat` exists
      have hdec := sortDesc_dec hd.distinct
      have hle : ∀ f ∈ sortDesc r.files, f.name.date ≤ now := by
        intro f hf
        obtain ⟨f0, hf0, hn⟩ := hd.names f (mem_sortDesc.1 hf)
        have := hnow f0 hf0
        rw [hn] at this; exact this
      obtain ⟨F0, hF0, hF0full⟩ := good_has_full hi.good hne
      obtain ⟨F, hF, hFn, _, _⟩ := hall F0 hF0
      obtain ⟨D, hD⟩ := chainDate_of_full (l := sortDesc r.files)
        ⟨F, mem_sortDesc.2 hF, by rw [hFn]; exact hF0full⟩
      obtain ⟨f0, rest, h1, h2, _⟩ := head_reverse_upToFull hD
      refine ⟨f0, rest, ?_, ?_⟩
      · unfold findFiles; rw [scanNeeded_of_le hdec hle, h1]
      · obtain ⟨g, hg, hgd, hgf⟩ := chainDate_mem hD
        obtain ⟨g0, hg0, hgn⟩ := hd.names g (mem_sortDesc.1 hg)
        obtain ⟨lines, hdat, _⟩ := full_has_dat hi g0 hg0 (by rw [hgn]; exact hgf)
        rw [h2, ← hgd, ← hgn, hd.dats, hdat]
        simp
    · intro p hp ln hln
      rw [hd.dats] at hp
      obtain ⟨g0, hg0, hn, hsz, hsum⟩ := dat_sound hi p hp ln hln
      obtain ⟨f, hf, hfn, hflen, hfc⟩ := hall g0 hg0
      refine ⟨f, ?_, by omega, ?_⟩
      · rw [← hn, ← hfn]; exact find_name_of_mem hd.distinct hf
      · intro hq; rw [hfc hq, hsum]

end Proofs.Repozo
