/-
  Connection model, part 7: the invariant of every state reachable by a C11 program (no savepoints),
  and its preservation by the simple steps.
-/
import Proofs.ConnProg
import Proofs.ConnClean
namespace Proofs.Conn
open ZodbModel ZodbModel.Conn

/-- invariant at the boundaries of program steps, for programs without savepoints -/
structure Inv11 (s : State) : Prop where
  str : Str [] s
  spNone : s.sp = none
  spsNil : s.sps = []
  creatingNil : s.creating = []
  regOid : ∀ i ∈ s.registered, (s.objs i).oid ≠ none
  regStatus : ∀ i ∈ s.registered, (s.objs i).status = .changed ∨
    ∃ k, (s.objs i).oid = some k ∧ s.added.get k = some i
  addedReg : ∀ k i, s.added.get k = some i → i ∈ s.registered
  changedReg : ∀ i, (s.objs i).status = .changed → i ∈ s.registered
  idle : s.needsToJoin = true → s.registered = [] ∧ s.added = []
  closedIdle : s.opened = false → s.needsToJoin = true
  serial0 : ∀ i, (s.objs i).oid = none → (s.objs i).serial = 0
  addedSerial : ∀ k i, s.added.get k = some i → (s.objs i).serial = 0
  commFresh : ∀ k, s.committed.get k ≠ none → k < s.nextOid
  addedUncommitted : ∀ k, s.added.get k ≠ none → s.committed.get k = none
  coh : ∀ k i, s.cache.get k = some i → ∃ r, s.snap.get k = some r ∧
    ((s.objs i).status ≠ .ghost → (s.objs i).serial = r.serial) ∧
    ((s.objs i).status = .uptodate → (s.objs i).val = r.val ∧ (s.objs i).refs = r.refs)
  snapC : ∀ k r, s.snap.get k = some r → ∃ c, s.committed.get k = some c ∧ 1 ≤ r.serial ∧
    r.serial ≤ c.serial ∧ (r.serial = c.serial → r = c)
  tidB : ∀ k c, s.committed.get k = some c → 1 ≤ c.serial ∧ c.serial ≤ s.lastTid

theorem inv11_init : Inv11 init := by
  constructor
  · constructor
    · intro k i h
      simp only [init, Map.get] at h
      split at h
      · cases h; subst_vars; simp [init]
      · cases h
    · intro k i h; simp [init] at h
    · intro i; simp only [init]; split <;> rfl
    · intro i k h
      simp only [init] at h ⊢
      split at h
      · cases h; subst_vars; simp [Map.get]
      · cases h
    · intro i k h
      simp only [init] at h ⊢
      split at h
      · cases h; omega
      · cases h
    · intro i j k h1 h2
      simp only [init] at h1 h2
      split at h1 <;> split at h2 <;> simp_all
    · exact Map.sorted_nil
  · rfl
  · rfl
  · rfl
  · intro i h; cases h
  · intro i h; cases h
  · intro k i h; simp [init] at h
  · intro i h
    simp only [init] at h
    split at h <;> cases h
  · intro _; exact ⟨rfl, rfl⟩
  · intro h; cases h
  · intro i h
    simp only [init] at h ⊢
    split at h
    · cases h
    · rename_i hi; simp [hi]
  · intro k i h; simp [init] at h
  · intro k h
    simp only [init, Map.get] at h ⊢
    split at h
    · omega
    · exact absurd rfl h
  · intro k h; simp [init] at h
  · intro k i h
    simp only [init, Map.get] at h ⊢
    split at h
    · cases h; subst_vars
      exact ⟨⟨1, 0, []⟩, by simp, by simp, by simp⟩
    · cases h
  · intro k r h
    simp only [init, Map.get] at h ⊢
    split at h
    · cases h; subst_vars; exact ⟨⟨1, 0, []⟩, by simp, by simp, by simp, fun _ => rfl⟩
    · cases h
  · intro k c h
    simp only [init, Map.get] at h ⊢
    split at h
    · cases h; simp
    · cases h

theorem Inv11.loadRec {s} (h : Inv11 s) (k) : loadRec s k = s.snap.get k := by
  unfold ZodbModel.Conn.loadRec; rw [h.spNone]

/-- an object in `_added` cannot be loaded: its oid has no record -/
theorem Inv11.added_noRec {s} (h : Inv11 s) {k i} (ha : s.added.get k = some i) : s.snap.get k = none := by
  cases hs : s.snap.get k with
  | none => rfl
  | some r =>
    obtain ⟨c, hc, _⟩ := h.snapC k r hs
    rw [h.addedUncommitted k (by rw [ha]; simp)] at hc; cases hc

/-- a cached object that is not a ghost carries the serial of a committed record (≥ 1) -/
theorem Inv11.cached_serial_pos {s} (h : Inv11 s) {k i} (hc : s.cache.get k = some i)
    (hg : (s.objs i).status ≠ .ghost) : 1 ≤ (s.objs i).serial := by
  obtain ⟨r, hr, h1, _⟩ := h.coh k i hc
  obtain ⟨c, hcc, h2, _⟩ := h.snapC k r hr
  rw [h1 hg]; exact h2

theorem access_inv11 {s} (h : Inv11 s) (i) : Inv11 (access s i).1 := by
  by_cases hg' : (s.objs i).status ≠ .ghost
  · rw [access_nonghost s i hg']; exact h
  have hg : (s.objs i).status = .ghost := by
    cases hs : (s.objs i).status <;> simp_all
  clear hg'
  unfold access
  simp only [hg, ne_eq, not_true_eq_false, if_false]
  split
  · exact h
  split
  · exact h
  split
  · exact h
  rename_i k hk
  rw [h.loadRec]
  split
  · exact h
  rename_i r hr
  -- the ghost is in the cache (an object in `_added` has no record)
  have hcache : s.cache.get k = some i := by
    have := h.str.known i k hk
    simp only [List.not_mem_nil, or_false] at this
    rcases this with h1 | h1
    · exact h1
    · rw [h.added_noRec h1] at hr; cases hr
  have hnadd : ∀ k', s.added.get k' ≠ some i := by
    intro k' hk'
    have := (h.str.addedS k' i hk').1
    rw [hk] at this; cases this
    have := (h.str.addedS k i hk').2
    rw [hcache] at this; cases this
  have hnreg : i ∉ s.registered := by
    intro hr
    rcases h.regStatus i hr with h1 | ⟨k', _, h1⟩
    · rw [hg] at h1; cases h1
    · exact hnadd k' h1
  constructor
  · exact h.str.setO_same i _ rfl rfl
  · exact h.spNone
  · exact h.spsNil
  · exact h.creatingNil
  · intro j hj
    have := h.regOid j hj
    simp only [setO]; split
    · subst_vars; exact absurd hj hnreg
    · exact this
  · intro j hj
    have := h.regStatus j hj
    simp only [setO]; split
    · subst_vars; exact absurd hj hnreg
    · exact this
  · exact h.addedReg
  · intro j hj
    simp only [setO] at hj
    split at hj
    · cases hj
    · exact h.changedReg j hj
  · exact h.idle
  · exact h.closedIdle
  · intro j hj
    simp only [setO] at hj ⊢
    split
    · subst_vars; simp [hk] at hj
    · rename_i hne; rw [if_neg hne] at hj; exact h.serial0 j hj
  · intro k' j hj
    simp only [setO]
    split
    · subst_vars; exact absurd hj (hnadd k')
    · exact h.addedSerial k' j hj
  · exact h.commFresh
  · exact h.addedUncommitted
  · intro k' j hj
    simp only [setO]
    split
    · subst_vars
      have := h.str.cacheS k' j hj
      rw [hk] at this; cases this
      exact ⟨r, hr, fun _ => rfl, fun _ => ⟨rfl, rfl⟩⟩
    · exact h.coh k' j hj
  · exact h.snapC
  · exact h.tidB

/-- changing the payload of an object that is not up to date (outside the database, or changed) -/
theorem Inv11.setPayload {s} (h : Inv11 s) (i : Nat) (o' : Obj)
    (ho : o'.oid = (s.objs i).oid) (hj : o'.jar = (s.objs i).jar)
    (hst : o'.status = (s.objs i).status) (hse : o'.serial = (s.objs i).serial)
    (hnu : (s.objs i).status = .uptodate → (s.objs i).jar = false) : Inv11 (setO s i o') := by
  have hobj : ∀ j, ((setO s i o').objs j).oid = (s.objs j).oid ∧ ((setO s i o').objs j).jar = (s.objs j).jar ∧
      ((setO s i o').objs j).status = (s.objs j).status ∧ ((setO s i o').objs j).serial = (s.objs j).serial := by
    intro j; simp only [setO]; split
    · subst_vars; exact ⟨ho, hj, hst, hse⟩
    · exact ⟨rfl, rfl, rfl, rfl⟩
  constructor
  · exact h.str.setO_same i o' ho hj
  · exact h.spNone
  · exact h.spsNil
  · exact h.creatingNil
  · intro j hj'; rw [(hobj j).1]; exact h.regOid j hj'
  · intro j hj'; rw [(hobj j).2.2.1, (hobj j).1]; exact h.regStatus j hj'
  · exact h.addedReg
  · intro j hj'; rw [(hobj j).2.2.1] at hj'; exact h.changedReg j hj'
  · exact h.idle
  · exact h.closedIdle
  · intro j hj'; rw [(hobj j).1] at hj'; rw [(hobj j).2.2.2]; exact h.serial0 j hj'
  · intro k j hj'; rw [(hobj j).2.2.2]; exact h.addedSerial k j hj'
  · exact h.commFresh
  · exact h.addedUncommitted
  · intro k j hj'
    obtain ⟨r, hr, h1, h2⟩ := h.coh k j hj'
    refine ⟨r, hr, ?_, ?_⟩
    · rw [(hobj j).2.2.1, (hobj j).2.2.2]; exact h1
    · intro hu
      rw [(hobj j).2.2.1] at hu
      simp only [setO]; split
      · subst_vars
        have := hnu hu
        have hj2 := h.str.jarOid j
        rw [h.str.cacheS k j hj'] at hj2
        rw [this] at hj2; cases hj2
      · exact h2 hu
  · exact h.snapC
  · exact h.tidB

theorem join_inv11 {s} (h : Inv11 s) (hne : s.registered ≠ [] ∨ True) : True := trivial

/-- `_p_changed = 1` on an up-to-date object of the connection -/
theorem markChanged_inv11 {s} (h : Inv11 s) (i : Nat) (hg : (s.objs i).status ≠ .ghost)
    (hopen : (s.objs i).jar = true → s.opened = true) : Inv11 (markChanged s i) := by
  unfold markChanged
  dsimp only
  split
  · exact h
  rename_i hjar
  split
  · exact h
  rename_i hch
  have hup : (s.objs i).status = .uptodate := by
    cases hs : (s.objs i).status <;> simp_all
  have hjar' : (s.objs i).jar = true := by simpa using hjar
  obtain ⟨k, hk⟩ : ∃ k, (s.objs i).oid = some k := by
    have := h.str.jarOid i; rw [hjar'] at this
    exact Option.isSome_iff_exists.1 this.symm
  -- the object with the new status
  have hobj : ∀ j, ((setO s i { s.objs i with status := .changed }).objs j).oid = (s.objs j).oid ∧
      ((setO s i { s.objs i with status := .changed }).objs j).serial = (s.objs j).serial ∧
      ((setO s i { s.objs i with status := .changed }).objs j).val = (s.objs j).val ∧
      ((setO s i { s.objs i with status := .changed }).objs j).refs = (s.objs j).refs ∧
      (j ≠ i → ((setO s i { s.objs i with status := .changed }).objs j).status = (s.objs j).status) ∧
      ((setO s i { s.objs i with status := .changed }).objs i).status = .changed := by
    intro j; simp only [setO]; split
    · subst_vars; simp
    · rename_i hne; simp [hne]
  have hstr1 : Str [] (setO s i { s.objs i with status := .changed }) := h.str.setO_same i _ rfl rfl
  -- everything but the registration
  have core : ∀ (t : State), t.objs = (setO s i { s.objs i with status := .changed }).objs →
      t.cache = s.cache → t.added = s.added → t.nextOid = s.nextOid → t.sp = s.sp → t.sps = [] →
      t.creating = s.creating → t.snap = s.snap → t.committed = s.committed →
      t.lastTid = s.lastTid → i ∈ t.registered → (∀ j ∈ s.registered, j ∈ t.registered) →
      (∀ j ∈ t.registered, j = i ∨ j ∈ s.registered) → (t.needsToJoin = true → False) →
      t.opened = true → Inv11 t := by
    intro t ho hc ha hn hsp hsps hcr hsn hcm hlt hireg hregs hregt hntj hop
    constructor
    · exact hstr1.congr ho hc ha hn
    · rw [hsp]; exact h.spNone
    · exact hsps
    · rw [hcr]; exact h.creatingNil
    · intro j hj; rw [ho, (hobj j).1]
      rcases hregt j hj with h1 | h1
      · subst h1; rw [hk]; simp
      · exact h.regOid j h1
    · intro j hj; rw [ho, ha]
      by_cases hji : j = i
      · subst hji; left; exact (hobj j).2.2.2.2.2
      · rw [(hobj j).2.2.2.2.1 hji, (hobj j).1]
        rcases hregt j hj with h1 | h1
        · exact absurd h1 hji
        · exact h.regStatus j h1
    · intro k' j hj; rw [ha] at hj; exact hregs j (h.addedReg k' j hj)
    · intro j hj
      rw [ho] at hj
      by_cases hji : j = i
      · subst hji; exact hireg
      · rw [(hobj j).2.2.2.2.1 hji] at hj; exact hregs j (h.changedReg j hj)
    · intro hh; exact absurd hh (fun h' => hntj h')
    · intro hh; rw [hop] at hh; cases hh
    · intro j hj; rw [ho] at hj ⊢; rw [(hobj j).1] at hj; rw [(hobj j).2.1]; exact h.serial0 j hj
    · intro k' j hj; rw [ha] at hj; rw [ho, (hobj j).2.1]; exact h.addedSerial k' j hj
    · rw [hcm, hn]; exact h.commFresh
    · rw [ha, hcm]; exact h.addedUncommitted
    · intro k' j hj
      rw [hc] at hj
      obtain ⟨r, hr, h1, h2⟩ := h.coh k' j hj
      rw [hsn, ho]
      refine ⟨r, hr, ?_, ?_⟩
      · intro _
        rw [(hobj j).2.1]
        by_cases hji : j = i
        · subst hji; exact h1 hg
        · apply h1; rw [← (hobj j).2.2.2.2.1 hji]; assumption
      · intro hu
        by_cases hji : j = i
        · subst hji; rw [(hobj j).2.2.2.2.2] at hu; cases hu
        · rw [(hobj j).2.2.2.2.1 hji] at hu
          rw [(hobj j).2.2.1, (hobj j).2.2.2.1]; exact h2 hu
    · rw [hsn, hcm]; exact h.snapC
    · rw [hcm, hlt]; exact h.tidB
  split
  rotate_left
  · rename_i hnone; rw [hk] at hnone; cases hnone
  rename_i k0 hk0
  have hkk : k = k0 := by rw [hk] at hk0; cases hk0; rfl
  subst hkk
  split
  · -- already registered through `_added`
    rename_i hadd
    rw [Map.has_iff] at hadd
    obtain ⟨j', hj'⟩ := Option.ne_none_iff_exists'.1 hadd
    have hji : j' = i := h.str.inj j' i k (h.str.addedS k j' hj').1 hk
    subst hji
    have hreg := h.addedReg k j' hj'
    apply core _ rfl rfl rfl rfl rfl h.spsNil rfl rfl rfl rfl hreg (fun j hj => hj)
      (fun j hj => Or.inr hj)
    · intro hn
      have := (h.idle hn).1
      rw [this] at hreg; cases hreg
    · exact hopen hjar'
  · have hjoin : ∀ (t : State), (join t).objs = t.objs ∧ (join t).cache = t.cache ∧
        (join t).added = t.added ∧ (join t).nextOid = t.nextOid ∧ (join t).sp = t.sp ∧
        (join t).creating = t.creating ∧ (join t).begun = t.begun ∧ (join t).snap = t.snap ∧
        (join t).committed = t.committed ∧ (join t).lastTid = t.lastTid ∧
        (join t).registered = t.registered ∧ (join t).needsToJoin = false ∧
        (t.sps = [] → (join t).sps = []) := by
      intro t; unfold join; split
      · simp
      · simp_all
    obtain ⟨j1, j2, j3, j4, j5, j6, j7, j8, j9, j10, j11, j12, j13⟩ :=
      hjoin (setO s i { s.objs i with status := .changed })
    refine core { join (setO s i { s.objs i with status := .changed }) with
      registered := (join (setO s i { s.objs i with status := .changed })).registered ++ [i] }
      j1 j2 j3 j4 j5 (j13 h.spsNil) j6 j8 j9 j10 ?_ ?_ ?_ ?_ ?_
    rotate_right
    · show (join _).opened = true
      have : ∀ t : State, (join t).opened = t.opened := by intro t; unfold join; split <;> rfl
      rw [this]; exact hopen hjar'
    · show i ∈ (join _).registered ++ [i]; simp
    · intro j hj; show j ∈ (join _).registered ++ [i]; rw [j11]; simp [setO, hj]
    · intro j hj
      have : j ∈ (join (setO s i { s.objs i with status := .changed })).registered ++ [i] := hj
      rw [j11] at this
      simp only [setO, List.mem_append, List.mem_singleton] at this
      exact this.symm
    · intro hn
      have : (join (setO s i { s.objs i with status := .changed })).needsToJoin = true := hn
      rw [j12] at this; cases this

theorem join_objs (t : State) : (join t).objs = t.objs := by
  unfold join; split <;> rfl

/-- what `markChanged` does to the object itself -/
theorem markChanged_obj (t : State) (i : Nat) :
    ((markChanged t i).objs i = t.objs i ∧ ((t.objs i).jar = false ∨ (t.objs i).status = .changed)) ∨
    ((t.objs i).jar = true ∧ (markChanged t i).objs i = { t.objs i with status := .changed }) := by
  unfold markChanged
  dsimp only
  by_cases hj : (t.objs i).jar = true
  · simp only [hj, Bool.not_true, Bool.false_eq_true, if_false]
    by_cases hc : (t.objs i).status = .changed
    · simp only [hc, if_true]; left; simp
    · simp only [hc, if_false]
      right
      refine ⟨trivial, ?_⟩
      repeat' split
      all_goals first | (simp [setO]; done) | (show (join _).objs i = _; rw [join_objs]; simp [setO])
  · left
    have : (t.objs i).jar = false := by simpa using hj
    simp [this]

theorem access_opened (s : State) (i) : (access s i).1.opened = s.opened := by
  unfold access; dsimp only; repeat' split
  all_goals rfl

theorem access_jar (s : State) (i) : ((access s i).1.objs i).jar = (s.objs i).jar := by
  rcases access_objs s i i with h | h
  · rw [h]
  · exact h.2.2.2.2.1

theorem mutate_inv11 {s} (h : Inv11 s) (i : Nat) (f : Obj → Option (Nat × List ObjId)) :
    Inv11 (mutate s i f).1 := by
  unfold mutate
  dsimp only
  split
  · exact h
  rename_i hguard
  have ht := access_inv11 h i
  have hng := access_ok_nonghost s i
  have hop := access_opened s i
  have hjr := access_jar s i
  generalize access s i = a at *
  obtain ⟨t, e⟩ := a
  cases e with
  | some e => exact ht
  | none =>
    simp only at ht hng ⊢
    have hng := hng trivial
    split
    · exact ht
    rename_i p _
    have hopen : (t.objs i).jar = true → t.opened = true := by
      intro hj
      simp only at hop hjr
      rw [hop]
      rw [hjr] at hj
      simp only [hj, Bool.and_true, Bool.not_eq_true', Bool.not_eq_false] at hguard
      exact hguard
    have hm := markChanged_inv11 ht i hng hopen
    refine hm.setPayload i { (markChanged t i).objs i with val := p.1, refs := p.2 } rfl rfl rfl rfl ?_
    intro hu
    rcases markChanged_obj t i with h1 | h1
    · rw [h1.1] at hu ⊢
      rcases h1.2 with h2 | h2
      · exact h2
      · rw [h2] at hu; cases hu
    · rw [h1.2] at hu; cases hu

theorem join_eq (t : State) (h : t.sps = []) : join t = { t with needsToJoin := false } := by
  unfold join
  split
  · rw [h]; rfl
  · rename_i hn
    have : t.needsToJoin = false := by simpa using hn
    cases t; simp_all

theorem opAdd_inv11 {s} (h : Inv11 s) (i : Nat) : Inv11 (opAdd s i).1 := by
  unfold opAdd
  dsimp only
  split
  · exact h
  rename_i hopn
  split
  · exact h
  rename_i hjar
  have hjar' : (s.objs i).jar = false := by simpa using hjar
  have hnone : (s.objs i).oid = none := by
    have := h.str.jarOid i; rw [hjar'] at this
    cases ho : (s.objs i).oid with
    | none => rfl
    | some k => rw [ho] at this; cases this
  rw [join_eq _ (by simp only [setO]; exact h.spsNil)]
  have hic : ∀ k', s.cache.get k' ≠ some i := by
    intro k' hk'; have := h.str.cacheS k' i hk'; rw [hnone] at this; cases this
  have hia : ∀ k', s.added.get k' ≠ some i := by
    intro k' hk'; have := (h.str.addedS k' i hk').1; rw [hnone] at this; cases this
  have hfreshc : s.cache.get s.nextOid = none := by
    cases hc : s.cache.get s.nextOid with
    | none => rfl
    | some j => have := h.str.fresh j _ (h.str.cacheS _ j hc); omega
  have hfresha : s.added.get s.nextOid = none := by
    cases hc : s.added.get s.nextOid with
    | none => rfl
    | some j => have := h.str.fresh j _ (h.str.addedS _ j hc).1; omega
  have hfreshk : ∀ j k', (s.objs j).oid = some k' → k' ≠ s.nextOid := by
    intro j k' hj; have := h.str.fresh j k' hj; omega
  constructor
  · -- Str
    constructor
    · intro k' j hj
      dsimp only [setO] at hj ⊢
      have hji : j ≠ i := by intro he; subst he; exact hic k' hj
      rw [if_neg hji]; exact h.str.cacheS k' j hj
    · intro k' j hj
      dsimp only [setO] at hj ⊢
      rw [Map.get_set] at hj
      split at hj
      · cases hj; subst_vars; simp [hfreshc]
      · have hji : j ≠ i := by intro he; subst he; exact hia k' hj
        rw [if_neg hji]; exact h.str.addedS k' j hj
    · intro j
      dsimp only [setO]
      split
      · rfl
      · exact h.str.jarOid j
    · intro j k' hj
      dsimp only [setO] at hj ⊢
      rw [Map.get_set]
      split at hj
      · cases hj; subst_vars; right; left; simp
      · have hne := hfreshk j k' hj
        simp only [hne, if_false]
        exact h.str.known j k' hj
    · intro j k' hj
      dsimp only [setO] at hj ⊢
      split at hj
      · cases hj; omega
      · have := h.str.fresh j k' hj; omega
    · intro j j' k' hj hj'
      dsimp only [setO] at hj hj'
      split at hj <;> split at hj'
      · subst_vars; rfl
      · cases hj; exact absurd rfl (hfreshk j' _ hj')
      · cases hj'; exact absurd rfl (hfreshk j _ hj)
      · exact h.str.inj j j' k' hj hj'
    · exact Map.set_sorted h.str.addedSorted _ _
  · exact h.spNone
  · exact h.spsNil
  · exact h.creatingNil
  · intro j hj
    dsimp only [setO] at hj ⊢
    split
    · simp
    · rename_i hji
      simp only [List.mem_append, List.mem_singleton] at hj
      rcases hj with h1 | h1
      · exact h.regOid j h1
      · exact absurd h1 hji
  · intro j hj
    dsimp only [setO] at hj ⊢
    simp only [List.mem_append, List.mem_singleton] at hj
    by_cases hji : j = i
    · subst hji; right; simp
    · simp only [hji, if_false]
      rcases hj with h1 | h1
      · rcases h.regStatus j h1 with h2 | ⟨k', h2, h3⟩
        · exact Or.inl h2
        · right
          refine ⟨k', h2, ?_⟩
          rw [Map.get_set]
          simp [hfreshk j k' h2, h3]
      · exact absurd h1 hji
  · intro k' j hj
    dsimp only [setO] at hj ⊢
    rw [Map.get_set] at hj
    simp only [List.mem_append, List.mem_singleton]
    split at hj
    · cases hj; exact Or.inr rfl
    · exact Or.inl (h.addedReg k' j hj)
  · intro j hj
    dsimp only [setO] at hj ⊢
    simp only [List.mem_append, List.mem_singleton]
    split at hj
    · subst_vars; exact Or.inr rfl
    · exact Or.inl (h.changedReg j hj)
  · intro hn; cases hn
  · intro hop
    have : s.opened = true := by simpa using hopn
    dsimp only [setO] at hop
    rw [this] at hop; cases hop
  · intro j hj
    dsimp only [setO] at hj ⊢
    split at hj
    · cases hj
    · rename_i hji; rw [if_neg hji]; exact h.serial0 j hj
  · intro k' j hj
    dsimp only [setO] at hj ⊢
    rw [Map.get_set] at hj
    split at hj
    · cases hj; simp; exact h.serial0 i hnone
    · have hji : j ≠ i := by intro he; subst he; exact hia k' hj
      rw [if_neg hji]; exact h.addedSerial k' j hj
  · intro k' hk'
    have := h.commFresh k' hk'
    show k' < s.nextOid + 1
    omega
  · intro k' hk'
    dsimp only [setO] at hk' ⊢
    rw [Map.get_set] at hk'
    split at hk'
    · subst_vars
      cases hc : s.committed.get s.nextOid with
      | none => rfl
      | some c => have := h.commFresh s.nextOid (by rw [hc]; simp); omega
    · exact h.addedUncommitted k' hk'
  · intro k' j hj
    dsimp only [setO] at hj ⊢
    have hji : j ≠ i := by intro he; subst he; exact hic k' hj
    rw [if_neg hji]
    exact h.coh k' j hj
  · exact h.snapC
  · exact h.tidB

/-! ### the transaction boundary: new snapshot, invalidations -/

/-- what must hold when `newTransaction` runs (nothing is pending; cached objects that carry the
    serial of the committed record agree with it) -/
structure PrePoll (s : State) : Prop where
  str : Str [] s
  spNone : s.sp = none
  spsNil : s.sps = []
  creatingNil : s.creating = []
  regNil : s.registered = []
  addedNil : s.added = []
  ntj : s.needsToJoin = true
  noChanged : ∀ i, (s.objs i).status ≠ .changed
  serial0 : ∀ i, (s.objs i).oid = none → (s.objs i).serial = 0
  commFresh : ∀ k, s.committed.get k ≠ none → k < s.nextOid
  tidB : ∀ k c, s.committed.get k = some c → 1 ≤ c.serial ∧ c.serial ≤ s.lastTid
  pc : ∀ k i, s.cache.get k = some i → ∃ c, s.committed.get k = some c ∧
    ((s.objs i).status = .uptodate → (s.objs i).serial = c.serial →
      (s.objs i).val = c.val ∧ (s.objs i).refs = c.refs)

theorem Inv11.prePoll {s} (h : Inv11 s) (hn : s.needsToJoin = true) : PrePoll s := by
  have hr := (h.idle hn).1
  have ha := (h.idle hn).2
  refine ⟨h.str, h.spNone, h.spsNil, h.creatingNil, hr, ha, hn, ?_, h.serial0, h.commFresh, h.tidB, ?_⟩
  · intro i hc
    have := h.changedReg i hc
    rw [hr] at this; cases this
  · intro k i hc
    obtain ⟨r, hr', h1, h2⟩ := h.coh k i hc
    obtain ⟨c, hcc, _, _, h3⟩ := h.snapC k r hr'
    refine ⟨c, hcc, ?_⟩
    intro hu hs
    have hne : (s.objs i).status ≠ .ghost := by rw [hu]; simp
    have : r = c := h3 (by rw [← h1 hne, hs])
    rw [← this]; exact h2 hu

/-- `pollOne` only turns objects into ghosts -/
theorem pollOne_obj (s : State) (k : Nat) (j : Nat) :
    (pollOne s k).objs j = s.objs j ∨
    ((pollOne s k).objs j = { s.objs j with status := .ghost } ∧ s.cache.get k = some j ∧
      ∃ c, s.committed.get k = some c ∧ c.serial ≠ (s.objs j).serial) := by
  unfold pollOne
  split
  · rename_i i r hi hr
    dsimp only
    split
    · rename_i hcond
      simp only [setO]
      by_cases hji : j = i
      · right; subst hji; simp; exact ⟨hi, r, hr, hcond.2⟩
      · left; simp [hji]
    · left; rfl
  · left; rfl

theorem pollOne_frame (s : State) (k : Nat) :
    (pollOne s k).cache = s.cache ∧ (pollOne s k).committed = s.committed ∧
    (pollOne s k).snap = s.snap ∧ (pollOne s k).added = s.added ∧
    (pollOne s k).registered = s.registered ∧ (pollOne s k).nextOid = s.nextOid ∧
    (pollOne s k).sp = s.sp ∧ (pollOne s k).sps = s.sps ∧ (pollOne s k).creating = s.creating ∧
    (pollOne s k).begun = s.begun ∧ (pollOne s k).lastTid = s.lastTid ∧
    (pollOne s k).needsToJoin = s.needsToJoin := by
  unfold pollOne
  split
  · dsimp only; split <;> simp [setO]
  · simp

/-- the loop of `newTransaction`, described object by object -/
theorem pollFold (l : List Nat) : ∀ (s : State),
    let s' := l.foldl pollOne s
    (s'.cache = s.cache ∧ s'.committed = s.committed ∧ s'.snap = s.snap ∧ s'.added = s.added ∧
      s'.registered = s.registered ∧ s'.nextOid = s.nextOid ∧ s'.sp = s.sp ∧ s'.sps = s.sps ∧
      s'.creating = s.creating ∧ s'.begun = s.begun ∧ s'.lastTid = s.lastTid ∧
      s'.needsToJoin = s.needsToJoin) ∧
    (∀ j, s'.objs j = s.objs j ∨
      (s'.objs j = { s.objs j with status := .ghost } ∧
        ∃ k c, s.cache.get k = some j ∧ s.committed.get k = some c ∧ c.serial ≠ (s.objs j).serial)) ∧
    (∀ k ∈ l, ∀ j c, s.cache.get k = some j → s.committed.get k = some c →
      (s'.objs j).status = .ghost ∨ c.serial = (s'.objs j).serial) := by
  induction l with
  | nil => intro s; simp
  | cons p rest ih =>
    intro s
    simp only [List.foldl_cons]
    obtain ⟨f1, f2, f3⟩ := ih (pollOne s p)
    have g := pollOne_frame s p
    refine ⟨?_, ?_, ?_⟩
    · simp only [f1, g, and_self]
    · intro j
      rcases f2 j with h1 | ⟨h1, k, c, hk, hc, hne⟩
      · rcases pollOne_obj s p j with h2 | ⟨h2, h3, c, h4, h5⟩
        · left; rw [h1, h2]
        · right; exact ⟨by rw [h1, h2], p, c, h3, h4, h5⟩
      · rw [g.1] at hk
        rw [g.2.1] at hc
        rcases pollOne_obj s p j with h2 | ⟨h2, _⟩
        · right; rw [h2] at h1 hne; exact ⟨h1, k, c, hk, hc, hne⟩
        · right; rw [h2] at h1 hne; exact ⟨by rw [h1], k, c, hk, hc, hne⟩
    · intro q hq j c hj hc
      rcases List.mem_cons.1 hq with hq | hq
      · subst hq
        have hstep : ((pollOne s q).objs j).status = .ghost ∨ c.serial = ((pollOne s q).objs j).serial := by
          unfold pollOne
          rw [hj, hc]
          dsimp only
          by_cases hcond : (s.objs j).status ≠ .ghost ∧ c.serial ≠ (s.objs j).serial
          · rw [if_pos hcond]; left; simp [setO]
          · rw [if_neg hcond]
            by_cases hg : (s.objs j).status = .ghost
            · exact Or.inl hg
            · right
              have : ¬ c.serial ≠ (s.objs j).serial := fun h => hcond ⟨hg, h⟩
              simpa using this
        rcases f2 j with h1 | ⟨h1, _⟩
        · rw [h1]; exact hstep
        · left; rw [h1]
      · exact f3 q hq j c (by rw [g.1]; exact hj) (by rw [g.2.1]; exact hc)

theorem poll_inv11 {s} (h : PrePoll s) : Inv11 (poll s) := by
  unfold poll
  dsimp only
  obtain ⟨f1, f2, f3⟩ := pollFold s.cache.keys { s with snap := s.committed }
  obtain ⟨c1, c2, c3, c4, c5, c6, c7, c8, c9, c10, c11, c12⟩ := f1
  generalize List.foldl pollOne { s with snap := s.committed } s.cache.keys = t at *
  dsimp only at c1 c2 c3 c4 c5 c6 c7 c8 c9 c10 c11 c12 f2 f3
  have hoid : ∀ j, (t.objs j).oid = (s.objs j).oid ∧ (t.objs j).jar = (s.objs j).jar ∧
      (t.objs j).serial = (s.objs j).serial ∧ (t.objs j).val = (s.objs j).val ∧
      (t.objs j).refs = (s.objs j).refs := by
    intro j; rcases f2 j with h1 | ⟨h1, _⟩ <;> rw [h1] <;> simp
  constructor
  · exact h.str.transfer (fun j => ⟨(hoid j).1, (hoid j).2.1⟩) c1 c4 (by rw [c6]; exact Nat.le_refl _)
  · rw [c7]; exact h.spNone
  · rw [c8]; exact h.spsNil
  · rw [c9]; exact h.creatingNil
  · intro j hj; rw [c5, h.regNil] at hj; cases hj
  · intro j hj; rw [c5, h.regNil] at hj; cases hj
  · intro k j hj; rw [c4, h.addedNil] at hj; simp at hj
  · intro j hj
    exfalso
    rcases f2 j with h1 | ⟨h1, _⟩
    · rw [h1] at hj; exact h.noChanged j hj
    · rw [h1] at hj; cases hj
  · intro _; exact ⟨by rw [c5, h.regNil], by rw [c4, h.addedNil]⟩
  · intro _; rw [c12]; exact h.ntj
  · intro j hj; rw [(hoid j).1] at hj; rw [(hoid j).2.2.1]; exact h.serial0 j hj
  · intro k j hj; rw [c4, h.addedNil] at hj; simp at hj
  · rw [c2, c6]; exact h.commFresh
  · intro k hk; rw [c4, h.addedNil] at hk; simp at hk
  · intro k j hj
    rw [c1] at hj
    obtain ⟨c, hc, hpc⟩ := h.pc k j hj
    rw [c3]
    refine ⟨c, hc, ?_, ?_⟩
    · intro hg
      rcases f3 k (Map.mem_keys_of_get hj) j c hj hc with h1 | h1
      · exact absurd h1 hg
      · exact h1.symm
    · intro hu
      have hser : (t.objs j).serial = c.serial := by
        rcases f3 k (Map.mem_keys_of_get hj) j c hj hc with h1 | h1
        · rw [hu] at h1; cases h1
        · exact h1.symm
      have hus : (s.objs j).status = .uptodate := by
        rcases f2 j with h1 | ⟨h1, _⟩
        · rw [h1] at hu; exact hu
        · rw [h1] at hu; cases hu
      rw [(hoid j).2.2.1] at hser
      rw [(hoid j).2.2.2.1, (hoid j).2.2.2.2]
      exact hpc hus hser
  · intro k r hr
    rw [c3] at hr
    rw [c2]
    exact ⟨r, hr, (h.tidB k r hr).1, Nat.le_refl _, fun _ => rfl⟩
  · rw [c2, c11]; exact h.tidB

end Proofs.Conn
