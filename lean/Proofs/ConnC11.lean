/-
  Connection model, part 10: every state reachable by a C11 program (no savepoints) satisfies
  `Inv11`; the facts behind the C11 property theorems.
-/
import Proofs.ConnTxn11
namespace Proofs.Conn
open ZodbModel ZodbModel.Conn

/-- the vocabulary of C11: everything but savepoints and rollbacks -/
def c11 : Op → Bool
  | .savepoint => false
  | .rollback _ => false
  | _ => true

/-- invariant of the states a C11 program can reach (at the boundaries of its steps) -/
def Good (s : State) : Prop := Inv11 s ∧ s.begun = false

theorem good_init : Good init := ⟨inv11_init, rfl⟩

theorem access_begun (s : State) (i) : (access s i).1.begun = s.begun := by
  unfold access; dsimp only; repeat' split
  all_goals rfl

theorem join_begun (s : State) : (join s).begun = s.begun := by
  unfold join; split <;> rfl

theorem markChanged_begun (s : State) (i) : (markChanged s i).begun = s.begun := by
  unfold markChanged; dsimp only
  repeat' split
  all_goals first | rfl | (show (join _).begun = _; rw [join_begun]; rfl)

theorem mutate_begun (s : State) (i f) : (mutate s i f).1.begun = s.begun := by
  unfold mutate; dsimp only
  repeat' split
  all_goals first | rfl | exact access_begun s i |
    (show (markChanged _ i).begun = _; rw [markChanged_begun]; exact access_begun s i)

theorem opAdd_begun (s : State) (i) : (opAdd s i).1.begun = s.begun := by
  unfold opAdd; dsimp only
  repeat' split
  all_goals first | rfl | (show (join _).begun = _; rw [join_begun]; rfl)

theorem stepH_of_notFailed (bound : Nat) (s : State) (op : Op)
    (h : (step bound s op).2.isFailed = false) : stepH bound s op = (step bound s op).1 := by
  unfold stepH; simp [h]

theorem stepH_of_failed (bound : Nat) (s : State) (op : Op)
    (h : (step bound s op).2.isFailed = true) :
    stepH bound s op = txnAbortAfterFailure (!s.needsToJoin) (step bound s op).1 := by
  unfold stepH; simp [h]

theorem mutate_notFailed (s : State) (i f) : (mutate s i f).2.isFailed = false := by
  unfold mutate; dsimp only; repeat' split
  all_goals rfl

theorem stepH_good (bound : Nat) (s : State) (op : Op) (hop : c11 op = true) (hg : Good s) :
    Good (stepH bound s op) := by
  obtain ⟨h, hb⟩ := hg
  cases op with
  | read i =>
    have h1 : (step bound s (.read i)).2.isFailed = false := by
      simp only [step]; split <;> rfl
    have h2 : (step bound s (.read i)).1 = (access s i).1 := by
      simp only [step]; split <;> rfl
    rw [stepH_of_notFailed _ _ _ h1, h2]
    exact ⟨access_inv11 h i, by rw [access_begun]; exact hb⟩
  | modify i v =>
    rw [stepH_of_notFailed bound s (.modify i v) (mutate_notFailed s i _)]
    exact ⟨mutate_inv11 h i _, by show (mutate s i _).1.begun = false; rw [mutate_begun]; exact hb⟩
  | link i j =>
    rw [stepH_of_notFailed bound s (.link i j) (mutate_notFailed s i _)]
    exact ⟨mutate_inv11 h i _, by show (mutate s i _).1.begun = false; rw [mutate_begun]; exact hb⟩
  | unlink i j =>
    rw [stepH_of_notFailed bound s (.unlink i j) (mutate_notFailed s i _)]
    exact ⟨mutate_inv11 h i _, by show (mutate s i _).1.begun = false; rw [mutate_begun]; exact hb⟩
  | add i =>
    have hnf : (step bound s (.add i)).2.isFailed = false := by
      show (opAdd s i).2.isFailed = false
      unfold opAdd; dsimp only; repeat' split
      all_goals rfl
    rw [stepH_of_notFailed _ _ _ hnf]
    exact ⟨opAdd_inv11 h i, by show (opAdd s i).1.begun = false; rw [opAdd_begun]; exact hb⟩
  | commit f =>
    have hi := txnCommit_inv11 h hb bound f
    have hbb : (txnCommit bound s f).1.begun = false := by
      unfold txnCommit; dsimp only; split <;> exact afterCompletion_begun _
    obtain ⟨hn, hopn⟩ := txnCommit_ntj h hb bound f
    cases hf : (step bound s (.commit f)).2.isFailed with
    | true =>
      rw [stepH_of_failed _ _ _ hf]
      refine ⟨txnAbortAfterFailure_inv11 hi hbb hn _ ?_, ?_⟩
      · intro hj
        show (txnCommit bound s f).1.opened = true
        rw [hopn]
        apply h.opened_of_joined
        simpa using hj
      · unfold txnAbortAfterFailure; exact afterCompletion_begun _
    | false =>
      rw [stepH_of_notFailed _ _ _ hf]
      exact ⟨hi, hbb⟩
  | abort =>
    rw [stepH_of_notFailed bound s .abort (by simp [step, Out.isFailed])]
    exact ⟨txnAbort_inv11 h hb, by show (txnAbort s).begun = false; unfold txnAbort; exact afterCompletion_begun _⟩
  | savepoint => cases hop
  | rollback n => cases hop
  | close =>
    have hnf : (step bound s .close).2.isFailed = false := by
      show (opClose s).2.isFailed = false
      unfold opClose; split <;> rfl
    rw [stepH_of_notFailed _ _ _ hnf]
    exact ⟨opClose_inv11 h, by show (opClose s).1.begun = false; unfold opClose; split <;> exact hb⟩
  | open_ =>
    have hnf : (step bound s .open_).2.isFailed = false := by
      show (opOpen s).2.isFailed = false
      unfold opOpen; split <;> rfl
    rw [stepH_of_notFailed _ _ _ hnf]
    refine ⟨opOpen_inv11 h, ?_⟩
    show (opOpen s).1.begun = false
    unfold opOpen; split
    · exact hb
    · show (poll _).begun = false; rw [poll_begun]; exact hb
  | ext i v =>
    have hnf : (step bound s (.ext i v)).2.isFailed = false := by
      show (opExt s i v).2.isFailed = false
      unfold opExt; repeat' split
      all_goals rfl
    rw [stepH_of_notFailed _ _ _ hnf]
    refine ⟨opExt_inv11 h i v, ?_⟩
    show (opExt s i v).1.begun = false
    unfold opExt; repeat' split
    all_goals exact hb
  | peek i =>
    rw [stepH_of_notFailed bound s (.peek i) (by simp only [step]; unfold opPeek; split <;> rfl)]
    exact ⟨h, hb⟩

/-- **every state a C11 program reaches satisfies the invariant** -/
theorem run_good (bound : Nat) (ops : List Op) (hops : ∀ op ∈ ops, c11 op = true) :
    ∀ s, Good s → Good (run bound s ops) := by
  induction ops with
  | nil => intro s hs; exact hs
  | cons op rest ih =>
    intro s hs
    simp only [run, List.foldl_cons]
    exact ih (fun o ho => hops o (List.mem_cons_of_mem _ ho)) _
      (stepH_good bound s op (hops op List.mem_cons_self) hs)

/-! ### the outcome of a successful commit -/

/-- the state in which `_commit` starts -/
def commitStart (s : State) (f : Fail) : State :=
  connTpcBegin { s with fail := f, nstores := 0, sps := [] }

theorem commitStart_objs (s : State) (f : Fail) :
    (commitStart s f).objs = s.objs ∧ (commitStart s f).cache = s.cache ∧
    (commitStart s f).added = s.added ∧ (commitStart s f).registered = s.registered ∧
    (commitStart s f).lastTid = s.lastTid ∧ (commitStart s f).log = s.log ∧
    (commitStart s f).committed = s.committed ∧ (commitStart s f).nextOid = s.nextOid ∧
    (commitStart s f).opened = s.opened ∧ (commitStart s f).snap = s.snap ∧
    (commitStart s f).d2 = s.d2 :=
  ⟨rfl, rfl, rfl, rfl, rfl, rfl, rfl, rfl, rfl, rfl, rfl⟩

/-- a commit that reports success went through `_commit`, `tpc_vote` and `tpc_finish` -/
theorem txnCommit_success {s : State} (hg : Good s) (bound : Nat) (f : Fail) (tid : Nat)
    (oids : List Nat) (hout : (txnCommit bound s f).2 = .committed tid oids) :
    s.needsToJoin = false ∧
    ∃ t, Prog (commitStart s f) [] t ∧ Finished (commitStart s f) t (connTpcFinish t) ∧
      AllStored (commitStart s f) t ∧
      (txnCommit bound s f).1 = afterCompletion (connTpcFinish t) ∧
      tid = t.lastTid + 1 ∧ oids = t.staged.map Prod.fst := by
  obtain ⟨h, hb⟩ := hg
  have h1 : Inv11 { s with fail := f, nstores := 0, sps := [] } :=
    h.congr rfl rfl rfl rfl rfl rfl rfl rfl rfl rfl rfl rfl rfl
  obtain ⟨h2, hmk, hst, hb2, gok, gfail⟩ := beginCommit_facts h1 bound
  unfold txnCommit at hout ⊢
  dsimp only at hout ⊢
  by_cases hn : s.needsToJoin = true
  · rw [if_pos hn] at hout
    dsimp only at hout
    split at hout <;> cases hout
  rw [if_neg hn] at hout ⊢
  dsimp only at hout ⊢
  refine ⟨by simpa using hn, ?_⟩
  unfold commitJoined at hout ⊢
  dsimp only at hout ⊢
  split at hout
  · cases hout
  rename_i hf1
  rw [if_neg hf1]
  split at hout
  · cases hout
  rename_i hf2
  rw [if_neg hf2]
  cases hres : (connCommit bound (connTpcBegin { s with fail := f, nstores := 0, sps := [] })).2 with
  | some e => rw [hres] at hout; cases hout
  | none =>
    rw [hres] at hout
    dsimp only at hout ⊢
    split at hout
    · cases hout
    rename_i hf3
    rw [if_neg hf3]
    split at hout
    · cases hout
    rename_i hf4
    rw [if_neg hf4]
    obtain ⟨hP, hJ, hall⟩ := gok hres
    have ff := finish_facts h2 hst hmk hP hJ hall
    refine ⟨_, hP, ff, hall, rfl, ?_, ?_⟩
    · have : Out.committed
        (connTpcFinish (connCommit bound (connTpcBegin { s with fail := f, nstores := 0, sps := [] })).1).lastTid
        (match (connTpcFinish (connCommit bound
            (connTpcBegin { s with fail := f, nstores := 0, sps := [] })).1).log with
          | (_, oids) :: _ => oids
          | [] => []) = Out.committed tid oids := hout
      injection this with e1 e2
      rw [← e1, ff.tid]
    · have : Out.committed
        (connTpcFinish (connCommit bound (connTpcBegin { s with fail := f, nstores := 0, sps := [] })).1).lastTid
        (match (connTpcFinish (connCommit bound
            (connTpcBegin { s with fail := f, nstores := 0, sps := [] })).1).log with
          | (_, oids) :: _ => oids
          | [] => []) = Out.committed tid oids := hout
      injection this with e1 e2
      rw [← e2, ff.log]

/-- `newTransaction`, object by object -/
theorem poll_facts (s : State) :
    ((poll s).cache = s.cache ∧ (poll s).committed = s.committed ∧ (poll s).snap = s.committed ∧
      (poll s).added = s.added ∧ (poll s).registered = s.registered ∧ (poll s).lastTid = s.lastTid ∧
      (poll s).creating = s.creating ∧ (poll s).needsToJoin = s.needsToJoin) ∧
    (∀ j, (poll s).objs j = s.objs j ∨
      ((poll s).objs j = { s.objs j with status := .ghost } ∧
        ∃ k c, s.cache.get k = some j ∧ s.committed.get k = some c ∧ c.serial ≠ (s.objs j).serial)) := by
  unfold poll
  dsimp only
  obtain ⟨f1, f2, _⟩ := pollFold s.cache.keys { s with snap := s.committed }
  exact ⟨⟨f1.1, f1.2.1, f1.2.2.1, f1.2.2.2.1, f1.2.2.2.2.1, f1.2.2.2.2.2.2.2.2.2.2.1,
    f1.2.2.2.2.2.2.2.2.1, f1.2.2.2.2.2.2.2.2.2.2.2⟩, f2⟩

/-- `afterCompletion` of an open connection, object by object -/
theorem afterCompletion_facts (s : State) (hop : s.opened = true) :
    ((afterCompletion s).cache = s.cache ∧ (afterCompletion s).committed = s.committed ∧
      (afterCompletion s).snap = s.committed ∧ (afterCompletion s).added = s.added ∧
      (afterCompletion s).registered = s.registered ∧ (afterCompletion s).lastTid = s.lastTid ∧
      (afterCompletion s).creating = s.creating ∧ (afterCompletion s).needsToJoin = s.needsToJoin) ∧
    (∀ j, (afterCompletion s).objs j = s.objs j ∨
      ((afterCompletion s).objs j = { s.objs j with status := .ghost } ∧
        ∃ k c, s.cache.get k = some j ∧ s.committed.get k = some c ∧ c.serial ≠ (s.objs j).serial)) := by
  unfold afterCompletion
  dsimp only
  rw [if_pos hop]
  exact poll_facts _

theorem afterCompletion_log (s : State) : (afterCompletion s).log = s.log := by
  have := afterCompletion_shared s
  simp only [shared, Prod.mk.injEq] at this
  exact this.2.2

/-- **Outcome of a successful commit**, for every state a C11 program can reach. -/
theorem commit_outcome {s : State} (hg : Good s) (bound : Nat) (f : Fail) (tid : Nat)
    (oids : List Nat) (hout : (txnCommit bound s f).2 = .committed tid oids) :
    let s' := (txnCommit bound s f).1
    -- one transaction, one tid
    (tid = s.lastTid + 1 ∧ s'.lastTid = tid ∧ s'.log = (tid, oids) :: s.log) ∧
    -- every change of the transaction is in it
    (∀ i ∈ s.registered, ∀ k, (s.objs i).oid = some k →
      (s.added.get k = some i ∨ (s.objs i).status = .changed) → k ∈ oids) ∧
    -- what is in it: the state of an object of the connection, which is now clean and carries the tid
    (∀ k ∈ oids, ∃ i, (s'.objs i).oid = some k ∧ s'.cache.get k = some i ∧
      (s'.objs i).status = .uptodate ∧ (s'.objs i).serial = tid ∧
      s'.committed.get k = some ⟨tid, (s'.objs i).val, (s'.objs i).refs⟩ ∧
      ((s.objs i).status ≠ .ghost → (s'.objs i).val = (s.objs i).val ∧ (s'.objs i).refs = (s.objs i).refs) ∧
      -- new objects reachable from it are stored together with it
      ∀ x ∈ (s'.objs i).refs, ∃ kx, (s'.objs x).oid = some kx ∧ ((s.objs x).oid = none → kx ∈ oids)) ∧
    -- records of other objects are untouched
    (∀ k, k ∉ oids → s'.committed.get k = s.committed.get k) ∧
    -- nothing is left over
    (∀ i, (s'.objs i).status ≠ .changed) ∧
    (s'.registered = [] ∧ s'.added = [] ∧ s'.creating = [] ∧ s'.needsToJoin = true) := by
  obtain ⟨hj, t, hP, ff, hall, hs', htid, hoids⟩ := txnCommit_success hg bound f tid oids hout
  obtain ⟨h, hb⟩ := hg
  have hinv := txnCommit_inv11 h hb bound f
  obtain ⟨hntj, _⟩ := txnCommit_ntj h hb bound f
  dsimp only
  rw [hs'] at hinv hntj ⊢
  obtain ⟨c1, c2, c3, c4, c5, c6, c7, c8, c9, c10, c11⟩ := commitStart_objs s f
  have hctx := hP.ctx
  simp only [ctx, Prod.mk.injEq] at hctx
  have hopf : (connTpcFinish t).opened = true := by
    rw [ff.opened, hP.opened, c9]; exact h.opened_of_joined hj
  obtain ⟨⟨a1, a2, a3, a4, a5, a6, a7, a8⟩, aobj⟩ := afterCompletion_facts (connTpcFinish t) hopf
  have htl : t.lastTid = s.lastTid := by rw [hctx.2.2.1, c5]
  -- a stored object after the poll: untouched (its serial is the committed one)
  have hkeep : ∀ k, marked t k → ∃ j, (t.objs j).oid = some k ∧
      (connTpcFinish t).cache.get k = some j ∧
      (afterCompletion (connTpcFinish t)).objs j =
        { t.objs j with status := .uptodate, serial := t.lastTid + 1 } ∧
      (connTpcFinish t).committed.get k = some ⟨t.lastTid + 1, (t.objs j).val, (t.objs j).refs⟩ ∧
      (t.objs j).status ≠ .ghost ∧ ∀ x ∈ (t.objs j).refs, (t.objs x).oid ≠ none := by
    intro k hm
    obtain ⟨j, q1, q2, q3, q4, q5, q6⟩ := ff.stored k hm
    refine ⟨j, q2, q1, ?_, q3, q5, q6⟩
    rcases aobj j with h1 | ⟨_, k', c, hk', hc, hne⟩
    · rw [h1, q4]
    · exfalso
      have hoj := ff.prePoll.str.cacheS k' j hk'
      rw [ff.oids j, q2] at hoj; cases hoj
      rw [q3] at hc; cases hc
      rw [q4] at hne
      exact hne rfl
  refine ⟨⟨by rw [htid, htl], by rw [a6, ff.tid, htid], ?_⟩, ?_, ?_, ?_, ?_, ?_⟩
  · rw [afterCompletion_log, ff.log, htid, hoids, hctx.2.2.2.1, c6]
  · intro i hi k hk hch
    rw [hoids, ff.logKeys]
    exact (hall i (by rw [c4]; exact hi) k (by rw [c1]; exact hk)).2
      (by rw [c3, c1]; exact hch)
  · intro k hk
    rw [hoids, ff.logKeys] at hk
    obtain ⟨j, q1, q2, q3, q4, q5, q6⟩ := hkeep k hk
    refine ⟨j, by rw [q3]; exact q1, by rw [a1]; exact q2, by rw [q3], by rw [q3, htid],
      by rw [a2, q4, q3, htid], ?_, ?_⟩
    · intro hng
      rw [q3]
      have := hP.objVal j (by rw [c1]; exact hng)
      rw [c1] at this
      exact ⟨this.1, this.2.1⟩
    · intro x hx
      rw [q3] at hx
      obtain ⟨kx, hkx⟩ := Option.ne_none_iff_exists'.1 (q6 x hx)
      have hox : ((afterCompletion (connTpcFinish t)).objs x).oid = some kx := by
        rcases aobj x with h1 | ⟨h1, _⟩
        · rw [h1, ff.oids x]; exact hkx
        · rw [h1]; show ((connTpcFinish t).objs x).oid = some kx; rw [ff.oids x]; exact hkx
      refine ⟨kx, hox, ?_⟩
      intro hsx
      rw [hoids, ff.logKeys]
      have := (hP.newTracked x kx (by rw [c1]; exact hsx) hkx).2
      simp only [List.not_mem_nil, false_or] at this
      exact Or.inr this.1
  · intro k hk
    rw [hoids, ff.logKeys] at hk
    rw [a2, ff.others k hk, hctx.2.1, c7]
  · intro i hch
    have := hinv.changedReg i hch
    rw [(hinv.idle hntj).1] at this; cases this
  · exact ⟨(hinv.idle hntj).1, (hinv.idle hntj).2, hinv.creatingNil, hntj⟩

/-! ### the outcome of an abort and of a failed commit -/

theorem pollOne_d2 (s : State) (k) : (pollOne s k).d2 = s.d2 := by
  unfold pollOne; split
  · dsimp only; split <;> rfl
  · rfl

theorem afterCompletion_d2 (s : State) : (afterCompletion s).d2 = s.d2 := by
  unfold afterCompletion; dsimp only; split
  · unfold poll; exact foldl_frame (fun t => t.d2) pollOne pollOne_d2 _ _
  · rfl

/-- what the objects look like after a cleanup followed by the transaction boundary -/
structure Reverted (s0 t X' : State) : Prop where
  inv : Inv11 X'
  shared : shared X' = shared s0
  idle : X'.registered = [] ∧ X'.added = [] ∧ X'.creating = [] ∧ X'.needsToJoin = true
  snapNow : X'.snap = X'.committed
  /-- an object of the database keeps its oid; if it was modified it is a ghost; if it is not a ghost
      it shows the committed record -/
  committed : ∀ k j, s0.cache.get k = some j → (X'.objs j).oid = some k ∧ X'.cache.get k = some j ∧
    ((s0.objs j).status = .changed → (X'.objs j).status = .ghost) ∧
    ∃ c, X'.committed.get k = some c ∧
      ((X'.objs j).status = .uptodate →
        (X'.objs j).val = c.val ∧ (X'.objs j).refs = c.refs ∧ (X'.objs j).serial = c.serial)
  /-- an object that was not in the database before the transaction is in no database now; it has
      its state unless it was stored and then invalidated (the flag `d2` records that) -/
  fresh : ∀ j, (∀ k, s0.cache.get k ≠ some j) → (X'.objs j).oid = none ∧ (X'.objs j).jar = false ∧
    (X'.objs j).status ≠ .changed ∧
    ((s0.objs j).status ≠ .ghost → (X'.objs j).val = (s0.objs j).val ∧
      (X'.objs j).refs = (s0.objs j).refs ∧
      (X'.objs j).status ≠ .ghost)

theorem reverted_facts {s0 t X : State} (h0 : Inv11 s0) (hP : Prog s0 [] t)
    (cf : CleanupFacts s0 t X) (hop : X.opened = true) : Reverted s0 t (afterCompletion X) := by
  have hinv := afterCompletion_of_prePoll cf.prePoll hop
  obtain ⟨⟨a1, a2, a3, a4, a5, a6, a7, a8⟩, aobj⟩ := afterCompletion_facts X hop
  have hoid : ∀ j, ((afterCompletion X).objs j).oid = (X.objs j).oid ∧
      ((afterCompletion X).objs j).jar = (X.objs j).jar ∧
      ((afterCompletion X).objs j).val = (X.objs j).val ∧
      ((afterCompletion X).objs j).refs = (X.objs j).refs := by
    intro j
    rcases aobj j with h | ⟨h, _⟩ <;> rw [h] <;> exact ⟨rfl, rfl, rfl, rfl⟩
  have hntj : (afterCompletion X).needsToJoin = true := by rw [a8]; exact cf.prePoll.ntj
  have sh := cf.clean.2
  refine ⟨hinv, by rw [afterCompletion_shared]; exact cf.shared,
    ⟨(hinv.idle hntj).1, (hinv.idle hntj).2, hinv.creatingNil, hntj⟩, by rw [a3, a2], ?_, ?_⟩
  · intro k j hc
    have hk := cf.committedKept k j hc
    have hxc : X.cache.get k = some j := by
      have := cf.clean.1.known j k hk
      simp only [List.not_mem_nil, or_false, cf.prePoll.addedNil, Map.get_nil] at this
      rcases this with h | h
      · exact h
      · cases h
    refine ⟨by rw [(hoid j).1]; exact hk, by rw [a1]; exact hxc, ?_, ?_⟩
    · intro hch
      have hg : (X.objs j).status = .ghost := by
        rcases cf.changedOut j hch with h | h
        · exact h
        · rw [hk] at h; cases h
      rcases aobj j with h | ⟨h, _⟩
      · rw [h]; exact hg
      · rw [h]
    · obtain ⟨r, hr, q1, q2⟩ := hinv.coh k j (by rw [a1]; exact hxc)
      rw [a3, ← a2] at hr
      refine ⟨r, hr, ?_⟩
      intro hu
      have := q2 hu
      exact ⟨this.1, this.2, q1 (by rw [hu]; simp)⟩
  · intro j hj
    have hnone : (X.objs j).oid = none := by
      cases ho : (X.objs j).oid with
      | none => rfl
      | some k =>
        exfalso
        have := cf.clean.1.known j k ho
        simp only [List.not_mem_nil, or_false, cf.prePoll.addedNil, Map.get_nil] at this
        rcases this with h | h
        · exact hj k (cf.cachedSub k j h)
        · cases h
    have hjar : (X.objs j).jar = false := by
      have := cf.clean.1.jarOid j; rw [hnone] at this; simpa using this
    refine ⟨by rw [(hoid j).1]; exact hnone, by rw [(hoid j).2.1]; exact hjar, ?_, ?_⟩
    · intro hch
      have := hinv.changedReg j hch
      rw [(hinv.idle hntj).1] at this; cases this
    · intro hg0
      obtain ⟨v1, v2, _⟩ := hP.objVal j hg0
      refine ⟨by rw [(hoid j).2.2.1, (sh.val j).1, v1], by rw [(hoid j).2.2.2, (sh.val j).2.1, v2], ?_⟩
      intro hg
      -- not touched by the poll (it is not in the cache)
      have hsame : (afterCompletion X).objs j = X.objs j := by
        rcases aobj j with h | ⟨_, k, c, hk, _⟩
        · exact h
        · have := cf.clean.1.cacheS k j hk; rw [hnone] at this; cases this
      rw [hsame] at hg
      have hgt : (t.objs j).status ≠ .ghost := fun hh => hg0 (hP.noGhost j hh)
      rcases sh.ghostWhy j hg with h | ⟨k, h⟩
      · exact hgt h
      · -- it was stored (cached under an oid of `_creating`): disowned with its state
        rcases hP.cachedOrigin h with h1 | h1
        · exact hj k h1
        · exact cf.createdKept k j h h1 hgt hg

theorem CleanupFacts.idle {s : State} (h : Inv11 s) (hn : s.needsToJoin = true) : CleanupFacts s s s := by
  refine ⟨h.prePoll hn, Clean.refl h.str, rfl, fun _ _ h => h, fun k j hc => h.str.cacheS k j hc, ?_,
    fun _ _ _ _ hg => hg⟩
  intro j hch
  have := h.changedReg j hch
  rw [(h.idle hn).1] at this; cases this

/-- **Outcome of `transaction.abort()`** on an open connection, in every reachable state -/
theorem abort_outcome {s : State} (hg : Good s) (hop : s.opened = true) :
    Reverted s s (txnAbort s) ∧
    -- a new object is never invalidated by a plain abort: it keeps its state
    (∀ j, (∀ k, s.cache.get k ≠ some j) → (s.objs j).status ≠ .ghost →
      ((txnAbort s).objs j).status ≠ .ghost) := by
  obtain ⟨h, hb⟩ := hg
  have key : Reverted s s (txnAbort s) := by
    unfold txnAbort
    dsimp only
    by_cases hn : s.needsToJoin = true
    · rw [if_pos hn]
      exact reverted_facts h (Prog.refl h.str) (CleanupFacts.idle h hn) hop
    · rw [if_neg hn]
      have cf := cleanup_prePoll h (Prog.refl h.str) (Or.inr rfl) false (by intro hh; cases hh)
      rw [cleanup_not_begun hb] at cf
      exact reverted_facts h (Prog.refl h.str) cf (by rw [cf.clean.2.opened]; exact hop)
  refine ⟨key, ?_⟩
  intro j hj hg0 hg
  obtain ⟨_, _, _, hk⟩ := key.fresh j hj
  exact (hk hg0).2.2 hg

/-- a commit that reports a failure: the connection was not joined (then only the transaction
    boundary happens), or `_cleanup` ran in a state reached by `_commit` -/
theorem txnCommit_failed {s : State} (hg : Good s) (hop : s.opened = true) (bound : Nat) (f : Fail)
    (e : Err) (hout : (txnCommit bound s f).2 = .failed e) :
    ∃ s0 t, s0.objs = s.objs ∧ s0.cache = s.cache ∧ s0.added = s.added ∧ shared s0 = shared s ∧
      s0.d2 = s.d2 ∧ Inv11 s0 ∧ Prog s0 [] t ∧ Reverted s0 t (txnCommit bound s f).1 := by
  obtain ⟨h, hb⟩ := hg
  have h1 : Inv11 { s with fail := f, nstores := 0, sps := [] } :=
    h.congr rfl rfl rfl rfl rfl rfl rfl rfl rfl rfl rfl rfl rfl
  obtain ⟨h2, hmk, hst, hb2, gok, gfail⟩ := beginCommit_facts h1 bound
  unfold txnCommit at hout ⊢
  dsimp only at hout ⊢
  by_cases hn : s.needsToJoin = true
  · rw [if_pos hn]
    exact ⟨{ s with fail := f, nstores := 0, sps := [] }, { s with fail := f, nstores := 0, sps := [] }, rfl, rfl, rfl, rfl, rfl, h1, Prog.refl h1.str,
      reverted_facts h1 (Prog.refl h1.str) (CleanupFacts.idle h1 hn) hop⟩
  rw [if_neg hn] at hout ⊢
  dsimp only at hout ⊢
  unfold commitJoined at hout ⊢
  dsimp only at hout ⊢
  split
  · have cf := cleanup_prePoll h1 (Prog.refl h1.str) (Or.inr rfl) false (by intro hh; cases hh)
    exact ⟨{ s with fail := f, nstores := 0, sps := [] }, { s with fail := f, nstores := 0, sps := [] }, rfl, rfl, rfl, rfl, rfl, h1, Prog.refl h1.str,
      reverted_facts h1 (Prog.refl h1.str) cf (by rw [cf.clean.2.opened]; exact hop)⟩
  rename_i hf1
  rw [if_neg hf1] at hout
  split
  · have cf := cleanup_prePoll h2 (Prog.refl h2.str) (Or.inr rfl) false (by intro hh; cases hh)
    exact ⟨connTpcBegin { s with fail := f, nstores := 0, sps := [] }, connTpcBegin { s with fail := f, nstores := 0, sps := [] }, rfl, rfl, rfl, rfl, rfl, h2, Prog.refl h2.str,
      reverted_facts h2 (Prog.refl h2.str) cf (by rw [cf.clean.2.opened]; exact hop)⟩
  rename_i hf2
  rw [if_neg hf2] at hout
  cases hres : (connCommit bound (connTpcBegin { s with fail := f, nstores := 0, sps := [] })).2 with
  | some e' =>
    dsimp only
    have hP := gfail (by rw [hres]; simp)
    have cf := cleanup_prePoll h2 hP (Or.inl hmk) false (by intro hh; cases hh)
    exact ⟨connTpcBegin { s with fail := f, nstores := 0, sps := [] }, _, rfl, rfl, rfl, rfl, rfl, h2, hP,
      reverted_facts h2 hP cf (by rw [cf.clean.2.opened, hP.opened]; exact hop)⟩
  | none =>
    rw [hres] at hout
    dsimp only at hout ⊢
    obtain ⟨hP, hJ, hall⟩ := gok hres
    split
    · have cf := cleanup_prePoll h2 hP (Or.inl hmk) false (by intro hh; cases hh)
      exact ⟨connTpcBegin { s with fail := f, nstores := 0, sps := [] }, _, rfl, rfl, rfl, rfl, rfl, h2, hP,
        reverted_facts h2 hP cf (by rw [cf.clean.2.opened, hP.opened]; exact hop)⟩
    rename_i hf3
    rw [if_neg hf3] at hout
    split
    · have cf := cleanup_prePoll h2 hP (Or.inl hmk) true (fun _ => ⟨by rw [hP.begun]; exact hb2, hall⟩)
      exact ⟨connTpcBegin { s with fail := f, nstores := 0, sps := [] }, _, rfl, rfl, rfl, rfl, rfl, h2, hP,
        reverted_facts h2 hP cf (by rw [cf.clean.2.opened, hP.opened]; exact hop)⟩
    rename_i hf4
    rw [if_neg hf4] at hout
    cases hout

/-- **next access of a ghost of the database shows the record of the current snapshot** -/
theorem ghost_read {s : State} (h : Inv11 s) (hop : s.opened = true) {k j : Nat}
    (hc : s.cache.get k = some j) (hg : (s.objs j).status = .ghost) :
    ∃ r, s.snap.get k = some r ∧ (access s j).2 = none ∧
      (access s j).1.objs j = { s.objs j with status := .uptodate, serial := r.serial, val := r.val,
                                              refs := r.refs } := by
  obtain ⟨r, hr, _⟩ := h.coh k j hc
  have hoid := h.str.cacheS k j hc
  have hjar : (s.objs j).jar = true := by
    have := h.str.jarOid j; rw [hoid] at this; simpa using this
  refine ⟨r, hr, ?_, ?_⟩
  · unfold access
    simp [hg, hjar, hop, hoid, h.loadRec, hr]
  · unfold access
    simp [hg, hjar, hop, hoid, h.loadRec, hr, setO]

/-- closing is refused while joined, and a connection that is not joined holds nothing uncommitted -/
theorem close_joined (s : State) (hj : s.needsToJoin = false) : opClose s = (s, .err .connState) := by
  unfold opClose; simp [hj]

theorem unjoined_clean {s : State} (hg : Good s) (hn : s.needsToJoin = true) :
    s.registered = [] ∧ s.added = [] ∧ s.creating = [] ∧ (∀ i, (s.objs i).status ≠ .changed) ∧
    (∀ i, (s.objs i).oid ≠ none → ∃ k, s.cache.get k = some i) := by
  obtain ⟨h, _⟩ := hg
  refine ⟨(h.idle hn).1, (h.idle hn).2, h.creatingNil, ?_, ?_⟩
  · intro i hch
    have := h.changedReg i hch
    rw [(h.idle hn).1] at this; cases this
  · intro i hi
    obtain ⟨k, hk⟩ := Option.ne_none_iff_exists'.1 hi
    have := h.str.known i k hk
    simp only [List.not_mem_nil, or_false, (h.idle hn).2, Map.get_nil] at this
    rcases this with h' | h'
    · exact ⟨k, h'⟩
    · cases h'

/-- **a connection taken from the pool again holds no uncommitted state** -/
theorem reuse_clean {s : State} (hg : Good s) (hok : (opClose s).2.isFailed = false)
    (hclosed : (opClose s).1.opened = false) :
    let s2 := (opOpen (opClose s).1).1
    s2.opened = true ∧ s2.registered = [] ∧ s2.added = [] ∧ s2.creating = [] ∧ s2.needsToJoin = true ∧
    s2.snap = s2.committed ∧ (∀ i, (s2.objs i).status ≠ .changed) ∧
    (∀ k i, s2.cache.get k = some i → ∃ c, s2.committed.get k = some c ∧
      ((s2.objs i).status = .uptodate →
        (s2.objs i).val = c.val ∧ (s2.objs i).refs = c.refs ∧ (s2.objs i).serial = c.serial)) ∧
    (∀ i, (s2.objs i).oid ≠ none → ∃ k, s2.cache.get k = some i) := by
  obtain ⟨h, hb⟩ := hg
  have hc := opClose_inv11 h
  have ho := opOpen_inv11 hc
  have hn : (opClose s).1.needsToJoin = true := hc.closedIdle hclosed
  dsimp only
  unfold opOpen at ho ⊢
  simp only [hclosed, Bool.false_eq_true, if_false] at ho ⊢
  obtain ⟨⟨a1, a2, a3, a4, a5, a6, a7, a8⟩, _⟩ := poll_facts { (opClose s).1 with opened := true }
  have hn2 : (poll { (opClose s).1 with opened := true }).needsToJoin = true := by rw [a8]; exact hn
  have hg2 : Good (poll { (opClose s).1 with opened := true }) := ⟨ho, by
    rw [poll_begun]
    show (opClose s).1.begun = false
    unfold opClose; split <;> exact hb⟩
  obtain ⟨u1, u2, u3, u4, u5⟩ := unjoined_clean hg2 hn2
  refine ⟨by rw [poll_opened], u1, u2, u3, hn2, by rw [a3, a2], u4, ?_, u5⟩
  intro k i hci
  obtain ⟨r, hr, q1, q2⟩ := ho.coh k i hci
  rw [a3, ← a2] at hr
  exact ⟨r, hr, fun hu => ⟨(q2 hu).1, (q2 hu).2, q1 (by rw [hu]; simp)⟩⟩

end Proofs.Conn
