/-
  C06, part 9: the step-level operations the driver executes (`tpcBegin`, `undo` …, then `finish` or,
  after an UndoError, `abort`) compute exactly `undoTxn`, the function the property theorems are about.
  Core Lean only.
-/
import Proofs.UndoReach
namespace Proofs.Undo
open ZodbModel ZodbModel.Undo

theorem undoSeq_eq (resolve : Resolver) (L : Log) (utid : Nat) (ids : List Nat) (S : List Rec) :
    match undoAll resolve L utid ids S with
    | .ok S' =>
      FS.undoSeq resolve { log := L, txn := some { tid := utid, recs := S } } ids
        = ({ log := L, txn := some { tid := utid, recs := S' } }, none)
    | .error e =>
      ∃ fs', FS.undoSeq resolve { log := L, txn := some { tid := utid, recs := S } } ids = (fs', some e) ∧
        fs'.abort = { log := L, txn := none } ∧ fs'.finish.log = L := by
  induction ids generalizing S with
  | nil => simp [undoAll, FS.undoSeq]
  | cons tid rest ih =>
    simp only [undoAll, FS.undoSeq, FS.undo]
    cases hc : undoCall resolve L S utid tid with
    | error e =>
      simp only
      exact ⟨_, rfl, rfl, rfl⟩
    | ok x =>
      obtain ⟨S1, oids⟩ := x
      simp only
      exact ih S1

/-- begin; undo each id; finish — or abort after the first UndoError — is `undoTxn` -/
theorem steps_eq_undoTxn (resolve : Resolver) (fs : FS) (hfs : fs.txn = none) (utid : Nat)
    (ids : List Nat) :
    match (fs.tpcBegin utid).undoSeq resolve ids with
    | (fs', none) => (fs'.finish.log, (none : Option UErr)) = undoTxn resolve fs.log utid ids ∧
        fs'.finish.txn = none
    | (fs', some e) => (fs'.abort.log, some e) = undoTxn resolve fs.log utid ids ∧ fs'.abort = fs ∧
        fs'.finish.log = fs.log := by
  have h := undoSeq_eq resolve fs.log utid ids []
  unfold undoTxn
  cases fs with
  | mk log txn =>
    simp only at hfs
    subst hfs
    simp only [FS.tpcBegin]
    cases ha : undoAll resolve log utid ids [] with
    | ok S' =>
      rw [ha] at h
      simp only at h
      rw [h]
      simp [FS.finish]
    | error e =>
      rw [ha] at h
      obtain ⟨fs', h1, h2, h3⟩ := h
      rw [h1]
      simp only
      refine ⟨?_, h2, h3⟩
      rw [h2]

end Proofs.Undo
