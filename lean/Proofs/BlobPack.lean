/-
  C13: pack.  FileStorage: files of exactly the dropped blob records are tagged and removed;
  BlobStorage wrapper: a file is kept iff `loadSerial` of its (oid, tid) still succeeds.
-/
import Proofs.BlobInv
namespace Proofs.Blob
open ZodbModel ZodbModel.Blob

/-- whether a pack drops a record depends on its `(oid, tid)` only -/
def dkey (T : Nat) (drop : List Key) (k : Key) : Bool := drop.contains k ∧ k.2 ≤ T

theorem dropped_eq (T : Nat) (drop : List Key) (r : Rec) : dropped T drop r = dkey T drop r.key := rfl

theorem adjBack_key (T drop h r) : (adjBack T drop h r).key = r.key := by
  unfold adjBack; split <;> rfl
theorem adjBack_kind (T drop h r) : (adjBack T drop h r).kind = r.kind := by
  unfold adjBack; split <;> rfl
theorem adjBack_oid (T drop h r) : (adjBack T drop h r).oid = r.oid := by
  unfold adjBack; split <;> rfl
theorem adjBack_tid (T drop h r) : (adjBack T drop h r).tid = r.tid := by
  unfold adjBack; split <;> rfl
theorem adjBack_src (T drop h r) : (adjBack T drop h r).src = r.src := by
  unfold adjBack; split <;> rfl
theorem adjSrc_key (T drop h r) : (adjSrc T drop h r).key = r.key := by
  unfold adjSrc; split <;> rfl
theorem adjSrc_kind (T drop h r) : (adjSrc T drop h r).kind = r.kind := by
  unfold adjSrc; split <;> rfl
theorem adjSrc_oid (T drop h r) : (adjSrc T drop h r).oid = r.oid := by
  unfold adjSrc; split <;> rfl
theorem adjSrc_tid (T drop h r) : (adjSrc T drop h r).tid = r.tid := by
  unfold adjSrc; split <;> rfl

theorem adj_key (T drop h r) : (adj T drop h r).key = r.key := by
  unfold adj; rw [adjBack_key, adjSrc_key]
theorem adj_kind (T drop h r) : (adj T drop h r).kind = r.kind := by
  unfold adj; rw [adjBack_kind, adjSrc_kind]
theorem adj_oid (T drop h r) : (adj T drop h r).oid = r.oid := by
  unfold adj; rw [adjBack_oid, adjSrc_oid]
theorem adj_tid (T drop h r) : (adj T drop h r).tid = r.tid := by
  unfold adj; rw [adjBack_tid, adjSrc_tid]
theorem adj_src (T drop h r) : (adj T drop h r).src = (adjSrc T drop h r).src := by
  unfold adj; rw [adjBack_src]

theorem mem_packHist {T : Nat} {drop : List Key} {h : List Rec} {r' : Rec} :
    r' ∈ packHist T drop h ↔ ∃ r ∈ h, dkey T drop r.key = false ∧ r' = adj T drop h r := by
  unfold packHist
  simp only [List.mem_map, List.mem_filter]
  constructor
  · rintro ⟨r, ⟨hr, hd⟩, rfl⟩
    refine ⟨r, hr, ?_, rfl⟩
    rw [← dropped_eq]; simpa using hd
  · rintro ⟨r, hr, hd, rfl⟩
    refine ⟨r, ⟨hr, ?_⟩, rfl⟩
    rw [dropped_eq, hd]; simp

theorem mem_tagged {T : Nat} {drop : List Key} {h : List Rec} {k : Key} :
    k ∈ tagged T drop h ↔ ∃ r ∈ h, dkey T drop r.key = true ∧ r.kind = .blob ∧ r.key = k := by
  unfold tagged
  simp only [List.mem_map, List.mem_filter]
  constructor
  · rintro ⟨r, ⟨hr, hd⟩, rfl⟩
    have hd' := of_decide_eq_true hd
    rw [dropped_eq] at hd'
    exact ⟨r, hr, hd'.1, hd'.2, rfl⟩
  · rintro ⟨r, hr, hd, hb, rfl⟩
    refine ⟨r, ⟨hr, ?_⟩, rfl⟩
    apply decide_eq_true
    rw [dropped_eq]
    exact ⟨hd, hb⟩

/-- kept blob records after the pack = blob records whose key is not dropped -/
theorem blobRecIn_packHist {T : Nat} {drop : List Key} {h : List Rec} {k : Key} :
    BlobRecIn (packHist T drop h) k ↔ (BlobRecIn h k ∧ dkey T drop k = false) := by
  unfold BlobRecIn
  constructor
  · rintro ⟨r', hr', hk, hb⟩
    obtain ⟨r, hr, hd, rfl⟩ := mem_packHist.1 hr'
    rw [adj_key] at hk
    rw [adj_kind] at hb
    exact ⟨⟨r, hr, hk, hb⟩, by rw [← hk]; exact hd⟩
  · rintro ⟨⟨r, hr, hk, hb⟩, hd⟩
    refine ⟨adj T drop h r, mem_packHist.2 ⟨r, hr, by rw [hk]; exact hd, rfl⟩, ?_, ?_⟩
    · rw [adj_key]; exact hk
    · rw [adj_kind]; exact hb

theorem aget_removeTagged (keepOld : Bool) (fs : Files) (ks : List Key) (k : Key) :
    aget (removeTagged keepOld fs ks).1 k = if k ∈ ks then none else aget fs k := by
  induction ks generalizing fs with
  | nil => simp [removeTagged]
  | cons k0 ks ih =>
    simp only [removeTagged]
    cases h0 : aget fs k0 with
    | some b =>
      simp only
      rw [ih, aget_adel]
      by_cases e : k = k0
      · simp [e]
      · simp [e]
    | none =>
      simp only
      rw [ih]
      by_cases e : k = k0
      · subst e; simp [h0]
      · simp [e]

/-- FileStorage pack (outside a transaction) keeps the invariant -/
theorem inv_pack_fs {s : St} (h : Inv s) (hfl : s.flavor = .fs) (hn : s.txn = none)
    (T : Nat) (drop : List Key) (keepOld : Bool) :
    Inv { s with hist := packHist T drop s.hist,
                 files := (removeTagged keepOld s.files (tagged T drop s.hist)).1,
                 packedTo := max s.packedTo T } := by
  have hd := h.dirty_nil hn
  have hmem : ∀ k, k ∈ tagged T drop s.hist ↔ (BlobRecIn s.hist k ∧ dkey T drop k = true) := by
    intro k
    rw [mem_tagged]
    constructor
    · rintro ⟨r, hr, hdk, hb, hk⟩
      exact ⟨⟨r, hr, hk, hb⟩, by rw [← hk]; exact hdk⟩
    · rintro ⟨⟨r, hr, hk, hb⟩, hdk⟩
      exact ⟨r, hr, by rw [hk]; exact hdk, hb, hk⟩
  constructor
  · intro t ht; rw [show _ = s.txn from rfl, hn] at ht; cases ht
  · intro t ht; rw [show _ = s.txn from rfl, hn] at ht; cases ht
  · intro k hk; rw [show _ = s.dirty from rfl, hd] at hk; cases hk
  · intro k
    show (aget (removeTagged keepOld s.files (tagged T drop s.hist)).1 k).isSome
      ↔ (BlobRecIn (packHist T drop s.hist) k ∨ k ∈ s.dirty)
    rw [aget_removeTagged, blobRecIn_packHist, hd]
    simp only [List.not_mem_nil, or_false]
    by_cases hc : k ∈ tagged T drop s.hist
    · have := (hmem k).1 hc
      simp [hc, this.2]
    · simp only [hc, if_false]
      constructor
      · intro hs
        rcases (h.filesIff k).1 hs with hb' | hd'
        · refine ⟨hb', ?_⟩
          cases hdk : dkey T drop k with
          | false => rfl
          | true => exact absurd ((hmem k).2 ⟨hb', hdk⟩) hc
        · rw [hd] at hd'; cases hd'
      · rintro ⟨hb', _⟩
        exact (h.filesIff k).2 (Or.inl hb')
  · intro t ht; rw [show _ = s.txn from rfl, hn] at ht; cases ht
  · intro t ht; rw [show _ = s.txn from rfl, hn] at ht; cases ht
  · intro r' hr' hb'
    obtain ⟨r, hr, hdk, rfl⟩ := mem_packHist.1 hr'
    rw [adj_kind] at hb'
    obtain ⟨hle, heq⟩ := h.srcHist r hr hb'
    show (adj T drop s.hist r).src ≤ (adj T drop s.hist r).tid ∧
      aget (removeTagged keepOld s.files (tagged T drop s.hist)).1
          ((adj T drop s.hist r).oid, (adj T drop s.hist r).src)
        = aget (removeTagged keepOld s.files (tagged T drop s.hist)).1 (adj T drop s.hist r).key
    rw [adj_src, adj_tid, adj_oid, adj_key]
    unfold adjSrc
    split
    · exact ⟨Nat.le_refl _, rfl⟩
    · rename_i hc
      refine ⟨hle, ?_⟩
      rw [aget_removeTagged, aget_removeTagged]
      have n1 : ((r.oid, r.src) : Key) ∉ tagged T drop s.hist := by
        intro hm
        obtain ⟨⟨q, hq, hqk, _⟩, hdq⟩ := (hmem _).1 hm
        apply hc
        right
        simp only [List.any_eq_true]
        exact ⟨q, hq, decide_eq_true ⟨hqk, by rw [dropped_eq, hqk]; exact hdq⟩⟩
      have n2 : r.key ∉ tagged T drop s.hist := by
        intro hm
        have := ((hmem _).1 hm).2
        rw [hdk] at this; cases this
      simp only [n1, n2, if_false]
      exact heq
  · intro t ht; rw [show _ = s.txn from rfl, hn] at ht; cases ht
  · intro hw; rw [show _ = s.flavor from rfl, hfl] at hw; cases hw
  · intro hw; rw [show _ = s.flavor from rfl, hfl] at hw; cases hw

theorem aget_packNonUndoing (fs : Files) (h : List Rec) (k : Key) :
    aget (packNonUndoing fs h) k
      = if (loadCurrentOk h k.1 = true ∧ isLatest fs k = true) then aget fs k else none := by
  have := aget_filter (fun k : Key => decide (loadCurrentOk h k.1 = true ∧ isLatest fs k = true)) fs k
  simp only [decide_eq_true_eq] at this
  exact this

/-- `files[-1]`: no existing file of the same object carries a larger tid -/
theorem isLatest_iff (fs : Files) (k : Key) :
    isLatest fs k = true ↔ ∀ k' : Key, (aget fs k').isSome → k'.1 = k.1 → k'.2 ≤ k.2 := by
  unfold isLatest
  simp only [List.all_eq_true, decide_eq_true_eq]
  constructor
  · intro h k' hs
    obtain ⟨e, he, hk⟩ := (aget_isSome_iff_mem fs k').1 hs
    rw [← hk]; exact h e he
  · intro h e he
    exact h e.1 ((aget_isSome_iff_mem fs e.1).2 ⟨e, he, rfl⟩)

theorem aget_packUndoing (fs : Files) (h : List Rec) (k : Key) :
    aget (packUndoing fs h) k = if loadSerialOk h k = true then aget fs k else none :=
  aget_filter (fun k : Key => loadSerialOk h k) fs k

theorem loadSerialOk_iff {h : List Rec} {k : Key} :
    loadSerialOk h k = true ↔ ∃ r ∈ h, r.key = k ∧ r.kind ≠ .uncreate := by
  unfold loadSerialOk
  simp only [List.any_eq_true, decide_eq_true_eq]

theorem loadCurrentOk_of {h : List Rec} {oid : Nat} (hne : ∀ r ∈ h, r.kind ≠ .uncreate)
    {r : Rec} (hr : r ∈ h) (ho : r.oid = oid) : loadCurrentOk h oid = true := by
  unfold loadCurrentOk curRec
  cases hf : h.find? (fun r => decide (r.oid = oid)) with
  | none =>
    have := List.find?_eq_none.1 hf r hr
    simp [ho] at this
  | some c =>
    have hc := List.mem_of_find?_eq_some hf
    simp only [decide_eq_true_eq]
    exact hne c hc

theorem loadCurrentOk_elim {h : List Rec} {oid : Nat} (hc : loadCurrentOk h oid = true) :
    ∃ c ∈ h, c.oid = oid := by
  unfold loadCurrentOk curRec at hc
  cases hf : h.find? (fun r => decide (r.oid = oid)) with
  | none => rw [hf] at hc; cases hc
  | some c =>
    have h1 := List.mem_of_find?_eq_some hf
    have h2 := List.find?_some hf
    exact ⟨c, h1, by simpa using h2⟩

/-- wrapper pack (outside a transaction, base pack keeping only the newest blob revision of every
    surviving object) keeps the invariant -/
theorem inv_pack_wrap {s : St} (h : Inv s) (hfl : s.flavor = .wrap) (hn : s.txn = none)
    (T : Nat) (drop : List Key) (hok : WrapPackOK s T drop) :
    Inv { s with hist := packHist T drop s.hist,
                 files := packNonUndoing s.files (packHist T drop s.hist),
                 packedTo := max s.packedTo T } := by
  have hd := h.dirty_nil hn
  have hwh := h.wrapHist hfl
  have hfile : ∀ k, (aget s.files k).isSome ↔ BlobRecIn s.hist k := by
    intro k; rw [h.filesIff k, hd]; simp
  have hwh' : ∀ r' ∈ packHist T drop s.hist, r'.kind ≠ .uncreate ∧ r'.src = r'.tid := by
    intro r' hr'
    obtain ⟨r, hr, _, rfl⟩ := mem_packHist.1 hr'
    obtain ⟨h1, h2⟩ := hwh r hr
    refine ⟨by rw [adj_kind]; exact h1, ?_⟩
    rw [adj_src, adj_tid]
    unfold adjSrc; split
    · rfl
    · exact h2
  constructor
  · intro t ht; rw [show _ = s.txn from rfl, hn] at ht; cases ht
  · intro t ht; rw [show _ = s.txn from rfl, hn] at ht; cases ht
  · intro k hk; rw [show _ = s.dirty from rfl, hd] at hk; cases hk
  · intro k
    show (aget (packNonUndoing s.files (packHist T drop s.hist)) k).isSome
      ↔ (BlobRecIn (packHist T drop s.hist) k ∨ k ∈ s.dirty)
    rw [aget_packNonUndoing, hd]
    simp only [List.not_mem_nil, or_false]
    constructor
    · intro hs
      split at hs
      · rename_i hc
        obtain ⟨r, hr, hrk, hrb⟩ := (hfile k).1 hs
        refine blobRecIn_packHist.2 ⟨⟨r, hr, hrk, hrb⟩, ?_⟩
        rw [← hrk]
        refine ((hok r hr hrb).2 ⟨?_, ?_⟩)
        · intro q hq hqb hqo
          have h1 := (isLatest_iff s.files k).1 hc.2 q.key ((hfile q.key).2 ⟨q, hq, rfl, hqb⟩)
            (by rw [← hrk]; exact hqo)
          rw [← hrk] at h1; exact h1
        · obtain ⟨c', hc', hco⟩ := loadCurrentOk_elim hc.1
          obtain ⟨c, hcm, hcd, rfl⟩ := mem_packHist.1 hc'
          rw [adj_oid] at hco
          exact ⟨c, hcm, by rw [hco, ← hrk]; rfl, hcd⟩
      · cases hs
    · intro hb'
      obtain ⟨hb, hdk⟩ := blobRecIn_packHist.1 hb'
      obtain ⟨r, hr, hrk, hrb⟩ := hb
      obtain ⟨hnew, c, hcm, hco, hcd⟩ := (hok r hr hrb).1 (by rw [dropped_eq, hrk]; exact hdk)
      have hcond : loadCurrentOk (packHist T drop s.hist) k.1 = true ∧ isLatest s.files k = true := by
        constructor
        · refine loadCurrentOk_of (fun r hr => (hwh' r hr).1)
            (mem_packHist.2 ⟨c, hcm, hcd, rfl⟩) ?_
          rw [adj_oid, hco, ← hrk]; rfl
        · rw [isLatest_iff]
          intro k' hs' hk'
          obtain ⟨q, hq, hqk, hqb⟩ := (hfile k').1 hs'
          have := hnew q hq hqb (by
            have e1 : q.oid = k'.1 := by rw [← hqk]; rfl
            have e2 : r.oid = k.1 := by rw [← hrk]; rfl
            rw [e1, e2]; exact hk')
          have e3 : q.tid = k'.2 := by rw [← hqk]; rfl
          have e4 : r.tid = k.2 := by rw [← hrk]; rfl
          omega
      simp only [hcond, and_self, if_true]
      exact (hfile k).2 ⟨r, hr, hrk, hrb⟩
  · intro t ht; rw [show _ = s.txn from rfl, hn] at ht; cases ht
  · intro t ht; rw [show _ = s.txn from rfl, hn] at ht; cases ht
  · intro r' hr' _
    have := (hwh' r' hr').2
    refine ⟨by omega, ?_⟩
    rw [this]; rfl
  · intro t ht; rw [show _ = s.txn from rfl, hn] at ht; cases ht
  · intro _; exact hwh'
  · intro _ t ht; rw [show _ = s.txn from rfl, hn] at ht; cases ht

/-- every admissible `pack` keeps the invariant -/
theorem inv_pack {s : St} (h : Inv s) (T : Nat) (drop : List Key) (keepOld : Bool)
    (hadm : s.flavor = .wrap → (s.txn = none ∧ WrapPackOK s T drop)) :
    Inv (pack s T drop keepOld).1 := by
  unfold pack
  cases hfl : s.flavor with
  | fs =>
    simp only
    cases hn : s.txn with
    | some t => exact h
    | none => exact (inv_pack_fs h hfl hn T drop keepOld).congr hfl.symm rfl rfl hn.symm rfl
  | wrap =>
    simp only
    exact (inv_pack_wrap h hfl (hadm hfl).1 T drop (hadm hfl).2).congr hfl.symm rfl rfl rfl rfl

end Proofs.Blob
