/-
  Model of the bookkeeping of `ZODB.Connection.Connection` (src/ZODB/Connection.py), of the
  `ObjectWriter` stack of src/ZODB/serialize.py, of `Connection.TmpStore`/`Savepoint`, and of the
  part of the `transaction` package that drives it (`_commitResources`, `_cleanup`, `abort`,
  `savepoint`, `Savepoint.rollback`, `AbortSavepoint`).  Used by C11 and C12.

  What is modelled, function by function (names of the code in backquotes):
    `add/_add`, `register/_register`, `setstate` (un-ghosting on access), `_abort`, `abort`,
    `_tpc_cleanup`, `tpc_begin`, `commit`, `_commit`, `_store_objects` + `ObjectWriter.persistent_id`
    (implicit adds, LIFO stack), `tpc_vote`, `tpc_finish`, `tpc_abort`, `_invalidate_creating`,
    `newTransaction` (poll of invalidations), `close`, `open`, `savepoint`, `_rollback_savepoint`,
    `_commit_savepoint`, `_abort_savepoint`, `TmpStore.store/load/reset`.

  Idealisations (probed by the correspondence check, see harness/c11.py):
    * a Python object is an `ObjId`; its state is an integer payload and an ordered list of
      references; a stored record keeps the references as `ObjId`s, i.e. resolving a persistent
      reference through the pickle cache yields the object that was pickled (C14 is about that);
    * the shared storage is `committed : oid ↦ (serial, state)`; this connection reads through the
      MVCC snapshot `snap` taken at its last transaction boundary (`poll_invalidations`);
    * the temporary file of `TmpStore` is the list `entries`, `position` counts entries not bytes.

  The model is of the code after the repair of `_store_objects` (new objects go to the cache right
  after they enter `_creating`; objects left on the writer's stack by an error are disowned).

  One instrumentation flag records that the run went through the known open defect of the code
  (known_findings.json, C11:stored-new-object-ghostified-on-abort); no step ever reads it:
    d2  an object was disowned while it was a ghost (its only state is lost).
-/
namespace ZodbModel.Conn

/-- object identities, oids and tids are natural numbers (notations, so that `omega` sees `Nat`) -/
scoped notation "ObjId" => Nat
scoped notation "Oid" => Nat
scoped notation "Tid" => Nat

/-! ### finite maps keyed by `Nat` (Python dicts), kept sorted by key -/

abbrev Map (α : Type) := List (Nat × α)

namespace Map
variable {α : Type}

def get : Map α → Nat → Option α
  | [], _ => none
  | (k', v) :: t, k => if k = k' then some v else get t k

def set : Map α → Nat → α → Map α
  | [], k, v => [(k, v)]
  | (k', v') :: t, k, v =>
    if k < k' then (k, v) :: (k', v') :: t
    else if k = k' then (k, v) :: t
    else (k', v') :: set t k v

def del (m : Map α) (k : Nat) : Map α := m.filter (fun p => p.1 != k)

def keys (m : Map α) : List Nat := m.map (·.1)

def has (m : Map α) (k : Nat) : Bool := (m.get k).isSome

/-- `dict.update` -/
def update (m m2 : Map α) : Map α := m2.foldl (fun (m : Map α) (p : Nat × α) => m.set p.1 p.2) m

end Map

/-! ### objects, records, temporary store -/

inductive Status where
  | ghost | uptodate | changed
deriving DecidableEq, Repr, Inhabited

/-- one Python object: `_p_oid`, `_p_jar` (this connection or none), `_p_changed`
    (None/False/True), `_p_serial` (0 = z64), and its state -/
structure Obj where
  oid : Option Oid := none
  jar : Bool := false
  status : Status := .uptodate
  serial : Tid := 0
  val : Nat := 0
  refs : List ObjId := []
deriving DecidableEq, Repr, Inhabited

/-- a stored object state -/
structure Rec where
  serial : Tid
  val : Nat
  refs : List ObjId
deriving DecidableEq, Repr, Inhabited

/-- `Connection.TmpStore` -/
structure TmpStore where
  position : Nat := 0
  index : Map Nat := []               -- oid ↦ position of its newest entry
  creating : Map Bool := []           -- oid ↦ implicitly-added flag
  entries : List (Oid × Rec) := []    -- the temporary file, oldest first
deriving DecidableEq, Repr, Inhabited

/-- `TmpStore.store` -/
def TmpStore.store (t : TmpStore) (k : Oid) (r : Rec) : TmpStore :=
  { t with entries := t.entries ++ [(k, r)], index := t.index.set k t.position,
           position := t.position + 1 }

/-- `TmpStore.load` for an oid in the index (`none` = "Bad temporary storage") -/
def TmpStore.loadAt (t : TmpStore) (k : Oid) (p : Nat) : Option Rec :=
  match t.entries[p]? with
  | some (k', r) => if k' = k then some r else none
  | none => none

/-- `TmpStore.reset(position, index, creating)` (after the repair: both maps are copied) -/
def TmpStore.reset (t : TmpStore) (p : Nat) (idx : Map Nat) (cr : Map Bool) : TmpStore :=
  { entries := t.entries.take p, position := p, index := idx, creating := cr }

/-- what a `transaction.Savepoint` holds for this connection -/
inductive SpEntry where
  | real (position : Nat) (index : Map Nat) (creating : Map Bool)   -- `Connection.Savepoint.state`
  | abortSp (joined : Bool)  -- taken while the connection was not joined; `joined`: it joined later,
                             -- so the savepoint holds `AbortSavepoint`s for it
  | invalid
deriving DecidableEq, Repr, Inhabited

/-- where a commit is made to fail -/
inductive Fail where
  | none
  | beforeBegin   -- a manager sorted before the connection raises in tpc_begin
  | afterBegin    -- a manager after it raises in tpc_begin / one before it raises in commit
  | store (j : Nat)  -- the storage's j-th `store` call raises
  | afterCommit   -- a manager after it raises in commit / one before it raises in tpc_vote
  | vote          -- the storage's tpc_vote raises
  | afterVote     -- a manager after it raises in tpc_vote / one before it raises in tpc_finish
  | pickle (i : Nat)  -- pickling the state of object `i` raises (`__getstate__`, unpicklable value)
deriving DecidableEq, Repr, Inhabited

inductive Err where
  | connClosed      -- ConnectionStateError: "The database connection is closed" / load while closed
  | connState       -- ConnectionStateError: cannot close a connection joined to a transaction
  | posKey          -- POSKeyError
  | noState         -- the object is a ghost without a jar: its state is gone
  | invalidSavepoint
  | conflict
  | injected
  | closed          -- harness guard: no modification of the connection's objects while it is closed
  | alreadyOpen
  | noKey
  | assertion
deriving DecidableEq, Repr, Inhabited

structure State where
  objs : ObjId → Obj
  -- Connection
  cache : Map ObjId := []             -- `_cache`: oid ↦ object
  registered : List ObjId := []       -- `_registered_objects`
  added : Map ObjId := []             -- `_added`
  creating : Map Bool := []           -- `_creating`
  modified : List Oid := []           -- `_modified`
  needsToJoin : Bool := true          -- `_needs_to_join`
  sp : Option TmpStore := none        -- `_savepoint_storage` (then `_storage` is it)
  opened : Bool := true               -- `opened is not None`
  -- storage
  snap : Map Rec := []                -- what this connection's loads see (MVCC snapshot)
  committed : Map Rec := []           -- the shared storage: current record of every oid
  staged : List (Oid × Rec) := []     -- records stored in the storage transaction in progress
  lastTid : Tid := 0
  nextOid : Oid := 0
  log : List (Tid × List Oid) := []   -- committed transactions, newest first
  -- transaction package
  sps : List SpEntry := []            -- savepoints of the current transaction, oldest first
  begun : Bool := false               -- `transaction.set_data(self, …)` done (tpc_begin was called)
  -- fault injection of the commit in progress
  fail : Fail := .none
  nstores : Nat := 0
  -- instrumentation (never read by a step)
  d2 : Bool := false

def setO (s : State) (i : ObjId) (o : Obj) : State :=
  { s with objs := fun j => if j = i then o else s.objs j }

/-- a fresh database: the root object (object 0, oid 0) committed by transaction 1 and loaded -/
def init : State :=
  { objs := fun i => if i = 0 then { oid := some 0, jar := true, status := .uptodate, serial := 1 }
                     else {},
    cache := [(0, 0)],
    snap := [(0, ⟨1, 0, []⟩)], committed := [(0, ⟨1, 0, []⟩)],
    lastTid := 1, nextOid := 1, log := [(1, [0])] }

/-! ### loading -/

/-- `self._storage.load(oid)`: the TmpStore answers from its index and falls back to the storage -/
def loadRec (s : State) (k : Oid) : Option Rec :=
  match s.sp with
  | some t =>
    match t.index.get k with
    | some p => t.loadAt k p
    | none => s.snap.get k
  | none => s.snap.get k

/-- attribute access: a ghost is loaded through `Connection.setstate` (on error nothing changes) -/
def access (s : State) (i : ObjId) : State × Option Err :=
  let o := s.objs i
  if o.status ≠ .ghost then (s, none)
  else if !o.jar then (s, some .noState)
  else if !s.opened then (s, some .connClosed)
  else
    match o.oid with
    | none => (s, some .noState)
    | some k =>
      match loadRec s k with
      | none => (s, some .posKey)
      | some r => (setO s i { o with status := .uptodate, serial := r.serial, val := r.val,
                                      refs := r.refs }, none)

/-! ### registration -/

/-- `transaction.join`: every valid earlier savepoint gets an `AbortSavepoint` for us -/
def markJoined : SpEntry → SpEntry
  | .abortSp _ => .abortSp true
  | e => e

/-- `_register` (join part) -/
def join (s : State) : State :=
  if s.needsToJoin then { s with needsToJoin := false, sps := s.sps.map markJoined } else s

/-- `obj._p_changed = 1` of an accessed (non-ghost) object: `register` when it was up to date -/
def markChanged (s : State) (i : ObjId) : State :=
  let o := s.objs i
  if !o.jar then s
  else if o.status = .changed then s
  else
    let s1 := setO s i { o with status := .changed }
    match o.oid with
    | some k =>
      if s.added.has k then s1
      else
        let s' := join s1
        { s' with registered := s'.registered ++ [i] }
    | none => s1

/-! ### disowning, invalidating, aborting -/

/-- `del obj._p_jar; del obj._p_oid` (+ `_p_changed = False` when it was changed) -/
def disown (s : State) (i : ObjId) : State :=
  let o := s.objs i
  let s := setO s i { o with oid := none, jar := false,
                             status := if o.status = .changed then .uptodate else o.status }
  { s with d2 := s.d2 || (o.status == .ghost) }

/-- `self._cache.invalidate(oid)` -/
def invalidate (s : State) (k : Oid) : State :=
  match s.cache.get k with
  | some i => setO s i { s.objs i with status := .ghost }
  | none => s

def invalidateAll (s : State) (ks : List Oid) : State := ks.foldl invalidate s

/-- `self._savepoint_storage is not None and oid in self._savepoint_storage.creating` -/
def tmpCreated (s : State) (k : Oid) : Bool :=
  match s.sp with
  | some t => t.creating.has k
  | none => false

/-- body of the loop of `_abort` -/
def abortOne (s : State) (i : ObjId) : State :=
  match (s.objs i).oid with
  | none => s
  | some k =>
    if s.added.has k then
      let s := { s with added := s.added.del k, cache := s.cache.del k }
      disown s i
    else if s.creating.has k || tmpCreated s k then s
      -- a new object that is stored already (by this commit or by a savepoint): disowned later, keeps its state
    else invalidate s k

/-- `_abort` -/
def abortObjs (s : State) : State := s.registered.foldl abortOne s

/-- body of the loop of `_invalidate_creating` -/
def uncreate (s : State) (k : Oid) : State :=
  match s.cache.get k with
  | some i => disown { s with cache := s.cache.del k } i
  | none => s

/-- `_invalidate_creating(creating)` -/
def invalidateCreating (s : State) (ks : List Oid) : State := ks.foldl uncreate s

/-- `_tpc_cleanup` -/
def tpcCleanup (s : State) : State :=
  { s with needsToJoin := true, registered := [], creating := [] }

/-- `_invalidate_creating()` without argument: the connection's own `_creating`, which is reset -/
def invalidateOwnCreating (s : State) : State :=
  { invalidateCreating s s.creating.keys with creating := [] }

/-- `self._cache.invalidate([oid for oid in self._modified if oid not in self._creating])` -/
def invalidateModified (s : State) : State :=
  invalidateAll s (s.modified.filter fun k => !s.creating.has k)

/-- `self._storage = self._normal_storage; self._savepoint_storage = None` -/
def dropTmp (s : State) : State := { s with sp := none }

/-- `_abort_savepoint` -/
def abortSavepoint (s : State) : State :=
  match s.sp with
  | none => s
  | some t => invalidateAll (dropTmp (invalidateCreating s t.creating.keys)) t.index.keys

/-- `Connection.abort` -/
def connAbort (s : State) : State :=
  tpcCleanup (invalidateOwnCreating (abortSavepoint (abortObjs s)))

/-- the `while self._added` loop of `tpc_abort` (`popitem`, then disown) -/
def drainAdded (s : State) : State :=
  let s' := s.added.foldl (fun (s : State) (p : Oid × ObjId) => disown { s with added := s.added.del p.1 } p.2) s
  { s' with added := [] }

/-- `self._storage.tpc_abort(transaction)` -/
def storageAbort (s : State) : State := { s with staged := [] }

/-- `Connection.tpc_abort` (a `KeyError` — logged and swallowed by `transaction._cleanup` — when
    `tpc_begin` was never called for this transaction) -/
def connTpcAbort (s : State) : State :=
  if !s.begun then s
  else tpcCleanup (drainAdded (invalidateOwnCreating (invalidateModified (storageAbort (abortSavepoint s)))))

/-! ### transaction boundaries -/

/-- body of the loop of `newTransaction`: `cache.invalidate(oid)` for an oid that another connection
    committed since the object was loaded -/
def pollOne (s : State) (k : Oid) : State :=
  match s.cache.get k, s.committed.get k with
  | some i, some r =>
    let o := s.objs i
    if o.status ≠ .ghost ∧ r.serial ≠ o.serial then setO s i { o with status := .ghost } else s
  | _, _ => s

/-- `newTransaction`: new snapshot, invalidations applied -/
def poll (s : State) : State :=
  let s := { s with snap := s.committed }
  s.cache.keys.foldl pollOne s

/-- `afterCompletion` (the connection is a synchronizer of its transaction manager while open) -/
def afterCompletion (s : State) : State :=
  let s := { s with begun := false, sps := [], fail := .none }
  if s.opened then poll s else s

/-! ### storing -/

/-- `ObjectWriter.persistent_id` over the references of the object being pickled: an object
    without oid gets one, joins this connection and is pushed on the writer's stack -/
def persistentId (acc : State × List ObjId) (r : ObjId) : State × List ObjId :=
  let s := acc.1
  let o := s.objs r
  match o.oid with
  | some _ => acc
  | none =>
    let s' := setO s r { o with oid := some s.nextOid, jar := true }
    ({ s' with nextOid := s.nextOid + 1 }, acc.2 ++ [r])

def serialize (s : State) (refs : List ObjId) : State × List ObjId :=
  refs.foldl persistentId (s, [])

/-- the storage's `store` (through the MVCC adapter), with the injected fault and the conflict test -/
def storageStore (s : State) (k : Oid) (r : Rec) : State × Option Err :=
  let n := s.nstores
  let s := { s with nstores := n + 1 }
  if s.fail = .store n then (s, some .injected)
  else
    match s.committed.get k with
    | some c =>
      if c.serial ≠ r.serial then (s, some .conflict)
      else ({ s with staged := s.staged ++ [(k, r)] }, none)
    | none => ({ s with staged := s.staged ++ [(k, r)] }, none)

/-- is the object "new" for `_store_objects` -/
def isNewObj (s : State) (o : Obj) (k : Oid) : Bool :=
  o.serial == 0 &&
    (match s.sp with
     | none => true
     | some t => match t.creating.get k with
                 | none => true
                 | some flag => flag)

/-- bookkeeping of `_store_objects` before serializing: a new object goes to `_creating` (leaves
    `_added`) and at once to the cache, any other to `_modified` -/
def classify (s : State) (i : ObjId) (k : Oid) : State :=
  if isNewObj s (s.objs i) k then
    { s with creating := s.creating.set k (!s.added.has k), added := s.added.del k,
             cache := s.cache.set k i }
  else { s with modified := s.modified ++ [k] }

/-- `self._storage.store(…)`, then `self._cache[oid] = obj`; a TmpStore returns the serial, which makes
    the object up to date -/
def storeRec (s : State) (i : ObjId) (k : Oid) (r : Rec) : State × Option Err :=
  match s.sp with
  | some t =>
    let s := { s with sp := some (t.store k r), cache := s.cache.set k i }
    (setO s i { s.objs i with status := .uptodate }, none)
  | none =>
    let st := storageStore s k r
    match st.2 with
    | some e => (st.1, some e)
    | none => ({ st.1 with cache := st.1.cache.set k i }, none)

/-- `writer.serialize(obj)`, first half: `obj.__getstate__()` — it raises for the object whose state
    cannot be pickled (before anything else happens), otherwise it un-ghosts the object -/
def pickleAccess (s : State) (i : ObjId) : State × Option Err :=
  if s.fail = .pickle i then (s, some .injected) else access s i

/-- one iteration of the loop of `_store_objects`; also returns the objects pushed on the stack -/
def storeOne (s : State) (i : ObjId) : (State × Option Err) × List ObjId :=
  match (s.objs i).oid with
  | none => ((s, some .assertion), [])
  | some k =>
    -- `writer.serialize(obj)`: `__getstate__` un-ghosts, pickling assigns oids to new references
    let a := pickleAccess (classify s i k) i
    match a.2 with
    | some e => ((a.1, some e), [])
    | none =>
      let o := a.1.objs i
      let sp := serialize a.1 o.refs
      (storeRec sp.1 i k ⟨o.serial, o.val, o.refs⟩, sp.2)

/-- `del obj._p_jar; del obj._p_oid` of an object left on the writer's stack -/
def disownPending (s : State) (j : ObjId) : State :=
  setO s j { s.objs j with oid := none, jar := false }

/-- the `finally` clause of `_store_objects`: what is still on the stack belongs to no database -/
def dropStack (s : State) (stack : List ObjId) : State := stack.foldl disownPending s

/-- `_store_objects(ObjectWriter(obj))`: drain the writer's stack (head = top).  `fuel` bounds the
    number of iterations (it is always sufficient: every iteration after the first one stores an
    object that had no oid before; running out of it counts as an error). -/
def storeObjects : Nat → State → List ObjId → State × Option Err
  | _, s, [] => (s, none)
  | 0, s, i :: rest => (dropStack s (i :: rest), some .assertion)
  | fuel + 1, s, i :: rest =>
    let r := storeOne s i
    match r.1.2 with
    | none => storeObjects fuel r.1.1 (r.2.reverse ++ rest)
    | some e => (dropStack r.1.1 (r.2 ++ rest), some e)

/-- number of allocated objects that have no oid yet (for the fuel) -/
def countNoOid (s : State) (n : Nat) : Nat :=
  ((List.range n).filter fun i => (s.objs i).oid.isNone).length

/-- the loop of `_commit` over `_registered_objects` -/
def commitLoop (fuel : Nat) : State → List ObjId → State × Option Err
  | s, [] => (s, none)
  | s, i :: rest =>
    let o := s.objs i
    match o.oid with
    | none => (s, some .assertion)
    | some k =>
      if s.added.has k || !(s.creating.has k || o.status != .changed) then
        let r := storeObjects fuel s [i]
        match r.2 with
        | none => commitLoop fuel r.1 rest
        | some e => (r.1, some e)
      else commitLoop fuel s rest

/-- `_commit`; `bound` = number of Python objects the program holds -/
def connCommitPlain (bound : Nat) (s : State) : State × Option Err :=
  commitLoop (bound + 1) s s.registered

/-- `if self._savepoint_storage is None: … TmpStore(…)`, then `self._creating.clear()` -/
def ensureTmp (s : State) : State :=
  match s.sp with
  | none => { s with sp := some {}, creating := [] }
  | some _ => { s with creating := [] }

/-- `self._storage.creating.update(self._creating)`, then clear `_creating` and `_registered_objects` -/
def mergeCreating (s : State) : State :=
  match s.sp with
  | some t => { s with sp := some { t with creating := t.creating.update s.creating },
                       creating := [], registered := [] }
  | none => { s with creating := [], registered := [] }

/-- `Connection.savepoint` (the savepoint's state is `spState` of the result) -/
def connSavepoint (bound : Nat) (s : State) : State × Option Err :=
  let r := connCommitPlain bound (ensureTmp s)
  match r.2 with
  | some e => (r.1, some e)
  | none => (mergeCreating r.1, none)

def spState (s : State) : SpEntry :=
  match s.sp with
  | some t => .real t.position t.index t.creating
  | none => .invalid

/-- the replay loop of `_commit_savepoint` -/
def replay (src : TmpStore) : State → List Oid → State × Option Err
  | s, [] => (s, none)
  | s, k :: rest =>
    match src.index.get k with
    | none => (s, some .assertion)
    | some p =>
      match src.loadAt k p with
      | none => (s, some .assertion)
      | some r =>
        let st := storageStore s k r
        match st.2 with
        | some e => (st.1, some e)
        | none => replay src st.1 rest

/-- `_commit_savepoint` -/
def commitSavepoint (s : State) : State × Option Err :=
  match s.sp with
  | none => (s, none)
  | some src =>
    let s := { s with sp := none }
    let oids := src.index.keys
    let s := { s with modified := s.modified ++ oids,
                      creating := s.creating.update src.creating }
    replay src s oids

/-- `Connection.tpc_begin` -/
def connTpcBegin (s : State) : State :=
  { s with modified := [], creating := [], staged := [], begun := true }

/-- `Connection.commit` -/
def connCommit (bound : Nat) (s : State) : State × Option Err :=
  match s.sp with
  | some _ =>
    let r := connSavepoint bound s
    match r.2 with
    | some e => (r.1, some e)
    | none => commitSavepoint r.1
  | none => connCommitPlain bound s

/-- body of the loop of `tpc_finish` -/
def finishOne (tid : Tid) (s : State) (k : Oid) : State :=
  match s.cache.get k with
  | some i =>
    let o := s.objs i
    if o.status ≠ .ghost then setO s i { o with status := .uptodate, serial := tid } else s
  | none => s

/-- the storage's `tpc_finish` followed by `Connection.tpc_finish` -/
def connTpcFinish (s : State) : State :=
  let tid := s.lastTid + 1
  let s := { s with committed := s.staged.foldl (fun (m : Map Rec) (p : Oid × Rec) => m.set p.1 { p.2 with serial := tid }) s.committed,
                    log := (tid, s.staged.map Prod.fst) :: s.log, lastTid := tid, staged := [] }
  let s := (s.modified ++ s.creating.keys).foldl (finishOne tid) s
  tpcCleanup s

/-! ### the transaction package -/

inductive Out where
  | ok
  | value (v : Nat) (refs : List ObjId)
  | err (e : Err)
  | committed (tid : Tid) (oids : List Oid)
  | nothing
  | failed (e : Err)
  | extOk (tid : Tid)
  | peeked (r : Option Rec)
deriving DecidableEq, Repr, Inhabited

/-- `transaction._cleanup`: `abort` for managers that have not voted, then `tpc_abort` for all -/
def cleanup (voted : Bool) (s : State) : State :=
  let s := if voted then s else connAbort s
  connTpcAbort s

/-- `transaction.commit()` with the connection joined: `_commitResources` -/
def commitJoined (bound : Nat) (s : State) : State × Out :=
  if s.fail = .beforeBegin then (cleanup false s, .failed .injected)
  else
    let s := connTpcBegin s
    if s.fail = .afterBegin then (cleanup false s, .failed .injected)
    else
      let r := connCommit bound s
      match r.2 with
      | some e => (cleanup false r.1, .failed e)
      | none =>
        if r.1.fail = .afterCommit ∨ r.1.fail = .vote then (cleanup false r.1, .failed .injected)
        else if r.1.fail = .afterVote then (cleanup true r.1, .failed .injected)
        else
          let s := connTpcFinish r.1
          (s, .committed s.lastTid (match s.log with | (_, oids) :: _ => oids | [] => []))

/-- does the failing second resource manager raise even when the connection takes no part -/
def Fail.isRm : Fail → Bool
  | .beforeBegin | .afterBegin | .afterCommit | .afterVote => true
  | _ => false

/-- `transaction.commit()` -/
def txnCommit (bound : Nat) (s : State) (f : Fail) : State × Out :=
  let s := { s with fail := f, nstores := 0, sps := [] }
  if s.needsToJoin then
    (afterCompletion s, if f.isRm then .failed .injected else .nothing)
  else
    let r := commitJoined bound s
    (afterCompletion r.1, r.2)

/-- `transaction.abort()` -/
def txnAbort (s : State) : State :=
  let s := if s.needsToJoin then s else connAbort s
  afterCompletion s

/-- `transaction.abort()` issued after a failed commit: the connection is still a resource -/
def txnAbortAfterFailure (joined : Bool) (s : State) : State :=
  let s := if joined then connAbort s else s
  afterCompletion s

/-- `transaction.savepoint()` -/
def txnSavepoint (bound : Nat) (s : State) : State × Out :=
  if s.needsToJoin then ({ s with sps := s.sps ++ [.abortSp false] }, .ok)
  else
    let r := connSavepoint bound s
    match r.2 with
    | some e =>
      -- `_cleanup` + COMMITFAILED (an object that lost its state was added again)
      (cleanup false r.1, .failed e)
    | none => ({ r.1 with sps := r.1.sps ++ [spState r.1] }, .ok)

/-- `self._registered_objects = []` -/
def clearRegistered (s : State) : State := { s with registered := [] }

/-- `src.reset(*state)` -/
def resetTmp (s : State) (t : TmpStore) (p : Nat) (idx : Map Nat) (cr : Map Bool) : State :=
  { s with sp := some (t.reset p idx cr) }

/-- `_rollback_savepoint(state)` -/
def rollbackSavepoint (s : State) (p : Nat) (idx : Map Nat) (cr : Map Bool) : State :=
  let s := clearRegistered (abortObjs s)
  match s.sp with
  | none => s
  | some t =>
    invalidateAll (resetTmp (invalidateCreating s (t.creating.keys.filter fun k => !cr.has k)) t p idx cr)
      t.index.keys

def invalidateAfter (n : Nat) (sps : List SpEntry) : List SpEntry :=
  sps.take (n + 1) ++ (sps.drop (n + 1)).map fun _ => .invalid

/-- `Savepoint.rollback()` of the n-th savepoint of the transaction -/
def txnRollback (s : State) (n : Nat) : State × Out :=
  match s.sps[n]? with
  | none => (s, .err .invalidSavepoint)
  | some .invalid => (s, .err .invalidSavepoint)
  | some (.real p idx cr) =>
    let s := { s with sps := invalidateAfter n s.sps }
    (rollbackSavepoint s p idx cr, .ok)
  | some (.abortSp joined) =>
    let s := { s with sps := invalidateAfter n s.sps }
    (if joined then connAbort s else s, .ok)

/-! ### the program vocabulary -/

inductive Op where
  | read (i : ObjId)
  | modify (i : ObjId) (v : Nat)
  | link (i j : ObjId)
  | unlink (i j : ObjId)
  | add (i : ObjId)
  | commit (f : Fail)         -- `.none`: plain `transaction.commit()`
  | abort
  | savepoint
  | rollback (n : Nat)
  | close
  | open_
  | ext (i : ObjId) (v : Nat)  -- another connection commits payload `v` for object `i`
  | peek (i : ObjId)           -- another connection reads object `i`
deriving DecidableEq, Repr, Inhabited

/-- modification of an object through its API: access, `_p_changed = 1` and the new payload (in
    one atomic step; `f` computes the new payload and references, `none` = nothing to change) -/
def mutate (s : State) (i : ObjId) (f : Obj → Option (Nat × List ObjId)) : State × Out :=
  if !s.opened && (s.objs i).jar then (s, .err .closed)
  else
    let a := access s i
    match a.2 with
    | some e => (a.1, .err e)
    | none =>
      match f (a.1.objs i) with
      | none => (a.1, .ok)
      | some p =>
        let s1 := markChanged a.1 i
        (setO s1 i { s1.objs i with val := p.1, refs := p.2 }, .ok)

def opAdd (s : State) (i : ObjId) : State × Out :=
  if !s.opened then (s, .err .connClosed)
  else
    let o := s.objs i
    if o.jar then (s, .ok)
    else
      let k := s.nextOid
      let s := setO { s with nextOid := k + 1 } i { o with oid := some k, jar := true }
      let s := join s
      ({ s with registered := s.registered ++ [i], added := s.added.set k i }, .ok)

def opClose (s : State) : State × Out :=
  if !s.needsToJoin then (s, .err .connState) else ({ s with opened := false }, .ok)

def opOpen (s : State) : State × Out :=
  if s.opened then (s, .err .alreadyOpen) else (poll { s with opened := true }, .ok)

def opExt (s : State) (i : ObjId) (v : Nat) : State × Out :=
  match (s.objs i).oid with
  | none => (s, .err .noKey)
  | some k =>
    match s.committed.get k with
    | none => (s, .err .noKey)
    | some r =>
      let tid := s.lastTid + 1
      ({ s with committed := s.committed.set k { r with serial := tid, val := v },
                log := (tid, [k]) :: s.log, lastTid := tid }, .extOk tid)

def opPeek (s : State) (i : ObjId) : Out :=
  match (s.objs i).oid with
  | none => .peeked none
  | some k => .peeked (s.committed.get k)

/-- one program step.  `bound`: number of Python objects of the program.  A failed commit returns the
    state right after the failure; the harness then always calls `transaction.abort()`
    (`afterFailure`). -/
def step (bound : Nat) (s : State) : Op → State × Out
  | .read i =>
    let a := access s i
    match a.2 with
    | some e => (a.1, .err e)
    | none => (a.1, .value (a.1.objs i).val (a.1.objs i).refs)
  | .modify i v => mutate s i fun o => some (v, o.refs)
  | .link i j => mutate s i fun o => if o.refs.contains j then none else some (o.val, o.refs ++ [j])
  | .unlink i j => mutate s i fun o => if o.refs.contains j then some (o.val, o.refs.filter (· != j)) else none
  | .add i => opAdd s i
  | .commit f => txnCommit bound s f
  | .abort => (txnAbort s, .ok)
  | .savepoint => txnSavepoint bound s
  | .rollback n => txnRollback s n
  | .close => opClose s
  | .open_ => opOpen s
  | .ext i v => opExt s i v
  | .peek i => (s, opPeek s i)

def Out.isFailed : Out → Bool
  | .failed _ => true
  | _ => false

/-- a program step as the harness executes it: after a failed commit (or savepoint) it calls
    `transaction.abort()` -/
def stepH (bound : Nat) (s : State) (op : Op) : State :=
  let r := step bound s op
  if r.2.isFailed then txnAbortAfterFailure (!s.needsToJoin) r.1 else r.1

def run (bound : Nat) (s : State) (ops : List Op) : State := ops.foldl (stepH bound) s

end ZodbModel.Conn
