/-
  MVCC model: `ZODB.mvccadapter` (MVCCAdapter, MVCCAdapterInstance, HistoricalStorageAdapter),
  the parts of `ZODB.Connection` (newTransaction / cache invalidation / tpc_finish serial update /
  abort / open / close) and `ZODB.DB` (pool reuse, open(at=, before=), getTID) that decide WHICH
  committed state a connection reads, over an abstract storage that answers `loadBefore` from the
  list of committed transactions (that FileStorage / MappingStorage do so is C04).

  Granularity (DESIGN 3.5, Appendix A.2): one action per critical section of the code.
    pollRead i     `ltid = self._storage.lastTransaction()`           (storage lock)
    pollApply i    `with self._lock: _start = max(ltid,_ltid)+1; drain` (instance lock) followed by
                   the thread-local `self._cache.invalidate(invalidated)` of `newTransaction`
    read i oid     cache hit, else `loadBefore(oid, _start)`           (storage lock / FilePool reader)
    begin/store/vote   the committer up to the vote (commit lock held from `begin`)
    finishEnter    `tpc_finish` takes the storage lock (FileStorage: pool write lock + `_lock`)
    deliver j      `instance._invalidate(tid, oids)` of the loop in `_invalidate_finish`
    publish        `_finish`: the data becomes loadable, `_ltid := tid`, locks released; then the
                   thread-local `self._ltid = tid` / `_p_serial = tid` updates of the committer
  Core Lean only.
-/
namespace ZodbModel.Mvcc

-- oids and tids are natural numbers (`Nat` is used directly so that `omega` sees through)
/-- record payload; `none` = the object is un-created / deleted by that transaction -/
abbrev Data := Option Nat

structure Txn where
  tid : Nat
  who : Option Nat                -- committing instance (`none`: undo adapter / external committer)
  writes : List (Nat × Data)
deriving Repr, DecidableEq

def lookup (oid : Nat) : List (Nat × Data) → Option Data
  | [] => none
  | (o, d) :: r => if o = oid then some d else lookup oid r

def oidsOf (ws : List (Nat × Data)) : List Nat := ws.map (·.1)
def Txn.oids (t : Txn) : List Nat := oidsOf t.writes

/-- The snapshot "before `b`": newest revision of `oid` with tid `< b` as (serial, data).
    The log is kept NEWEST FIRST.  This is the storage's `loadBefore(oid, b)`. -/
def stateAt : List Txn → Nat → Nat → Option (Nat × Data)
  | [], _, _ => none
  | t :: older, b, oid =>
    if t.tid < b then
      match lookup oid t.writes with
      | some d => some (t.tid, d)
      | none => stateAt older b oid
    else stateAt older b oid

/-- `lastTransaction()` -/
def headTid : List Txn → Nat
  | [] => 0
  | t :: _ => t.tid

inductive Phase where
  | begun | stored | voted | finishing
deriving Repr, DecidableEq

/-- the transaction holding the commit lock -/
structure Infl where
  tid : Nat
  who : Option Nat
  writes : List (Nat × Data)
  phase : Phase
  delivered : List Nat
deriving Repr, DecidableEq

def Infl.txn (f : Infl) : Txn := ⟨f.tid, f.who, f.writes⟩

/-- MVCCAdapterInstance + the owning Connection's cache -/
structure Inst where
  start : Nat := 0                         -- `_start` (0: never polled)
  ltid : Nat := 0                          -- `_ltid`
  inval : Option (List Nat) := some []     -- `_invalidations` (none = invalidate everything)
  polled : Option Nat := none              -- value of lastTransaction() read by the first half of a poll
  cache : Nat → Option (Nat × Data) := fun _ => none   -- non-ghost objects: oid ↦ (_p_serial, state)
  pending : List (Nat × Data) := []        -- own uncommitted changes (newest first)
  opened : Bool := false
  live : Bool := false                     -- an epoch is in progress (polled since last boundary)
  regAt : Nat := 0                         -- history variable: newest tid that may be undelivered

structure Hist where
  before : Nat := 0
  cache : Nat → Option (Nat × Data) := fun _ => none
  log0 : List Txn := []                    -- history variable: the log when it was opened

structure Sys where
  log : List Txn := []
  next : Nat := 1
  infl : Option Infl := none
  n : Nat := 0
  insts : Nat → Inst := fun _ => {}
  nh : Nat := 0
  hists : Nat → Hist := fun _ => {}

def init : Sys := {}

def upd {α : Type} (f : Nat → α) (i : Nat) (x : α) : Nat → α := fun j => if j = i then x else f j

/-- the finish section in progress, if any -/
def finishing (s : Sys) : Option Infl :=
  match s.infl with
  | some f => if f.phase = .finishing then some f else none
  | none => none

def isFinishing (s : Sys) : Bool := (finishing s).isSome

/-- committed transactions plus the one inside its finish section (which will be published) -/
def vlog (s : Sys) : List Txn :=
  match finishing s with
  | some f => f.txn :: s.log
  | none => s.log

def committing (s : Sys) (i : Nat) : Bool :=
  match s.infl with
  | some f => f.who == some i
  | none => false

/-- the finish section in progress belongs to instance `i` -/
def inFinishBy (s : Sys) (i : Nat) : Bool :=
  match finishing s with
  | some f => f.who == some i
  | none => false

/-- who may take the commit lock: an open connection outside a poll, or the undo adapter -/
def committerOk (s : Sys) : Option Nat → Bool
  | some i => decide (i < s.n) && (s.insts i).opened && (s.insts i).polled.isNone
  | none => true

def covers (inval : Option (List Nat)) (oid : Nat) : Prop :=
  match inval with
  | none => True
  | some l => oid ∈ l

def coversB (inval : Option (List Nat)) (oid : Nat) : Bool :=
  match inval with
  | none => true
  | some l => l.contains oid

def overlayCache (c : Nat → Option (Nat × Data)) (t : Nat) (ws : List (Nat × Data)) :
    Nat → Option (Nat × Data) :=
  fun o => match lookup o ws with
    | some d => some (t, d)
    | none => c o

inductive Err where
  | valueError | readOnlyHistory | readOnly | keyError
deriving Repr, DecidableEq

inductive Act where
  | newInstance
  | reopen (i : Nat)
  | close (i : Nat)
  | pollRead (i : Nat)
  | pollApply (i : Nat)
  | read (i : Nat) (oid : Nat)
  | write (i : Nat) (oid : Nat) (d : Data)
  | abort (i : Nat)
  | begin (c : Option Nat) (t : Nat)
  | store (ws : List (Nat × Data))
  | vote
  | extAbort
  | finishEnter
  | deliver (j : Nat)
  | publish
  | invalidateCache (i : Nat)
  | openHist (at_ before : Option Nat)
  | hread (h : Nat) (oid : Nat)
  | hpoll (h : Nat)
  | hcommit (h : Nat)
  | hstore (h : Nat)
  | hnewOid (h : Nat)
deriving Repr, DecidableEq

inductive Res where
  | ok (s : Sys)
  | blocked
  | err (e : Err)

/-! ### reads -/

/-- committed revision a read by `i` consults: cache hit, else the storage below `_start` -/
def readCommitted (s : Sys) (i : Nat) (oid : Nat) : Option (Nat × Data) :=
  match (s.insts i).cache oid with
  | some e => some e
  | none => stateAt s.log (s.insts i).start oid

/-- the state the application sees: own uncommitted change, else the committed revision -/
def readNow (s : Sys) (i : Nat) (oid : Nat) : Option Data :=
  match lookup oid (s.insts i).pending with
  | some d => some d
  | none => (readCommitted s i oid).map (·.2)

/-- a read can happen now: inside an epoch, not while committing, and a cache miss needs the
    storage lock, which a finish section holds -/
def readEnabled (s : Sys) (i : Nat) (oid : Nat) : Bool :=
  decide (i < s.n) && (s.insts i).opened && (s.insts i).live && !committing s i &&
  ((lookup oid (s.insts i).pending).isSome || ((s.insts i).cache oid).isSome || !isFinishing s)

def overlay (pending : List (Nat × Data)) (base : Nat → Option (Nat × Data)) (oid : Nat) : Option Data :=
  match lookup oid pending with
  | some d => some d
  | none => (base oid).map (·.2)

/-! ### historical bound (`DB.getTID`, the check in `DB.open`) -/

/-- `TimeStamp.laterThan` applied to the stamp itself (DESIGN 6.3 idealisation) -/
def later (t : Nat) : Nat := t + 1

/-- `getTID(at, before)`; `.error` = ValueError (both given) -/
def getTID (at_ before : Option Nat) : Except Err (Option Nat) :=
  match at_, before with
  | some _, some _ => .error .valueError
  | some a, none => .ok (some (later a))
  | none, some b => .ok (some b)
  | none, none => .ok none

/-- `before > self.lastTransaction() and before > getTID(self.lastTransaction(), None)` -/
def refused (ltid : Nat) (before : Nat) : Bool :=
  decide (before > ltid) && (match getTID (some ltid) none with
                             | .ok (some b') => decide (before > b')
                             | _ => false)

def hreadCommitted (s : Sys) (h : Nat) (oid : Nat) : Option (Nat × Data) :=
  match (s.hists h).cache oid with
  | some e => some e
  | none => stateAt s.log (s.hists h).before oid

/-! ### the transition function -/

def setInst (s : Sys) (i : Nat) (x : Inst) : Sys := { s with insts := upd s.insts i x }

/-- `tpc_abort` before the finish section: the commit lock is dropped; the tid was never shown to
    anybody and may be issued again (MappingStorage derives the next tid from the COMMITTED
    transactions only) -/
def dropInfl (s : Sys) : Sys :=
  match s.infl with
  | some f => { s with infl := none, next := f.tid }
  | none => s

def dropOids (c : Nat → Option (Nat × Data)) (l : List Nat) : Nat → Option (Nat × Data) :=
  fun o => if l.contains o then none else c o

/-- `self._cache.invalidate(invalidated)` of `newTransaction` (`none`: the whole cache) -/
def applyInval (inval : Option (List Nat)) (c : Nat → Option (Nat × Data)) : Nat → Option (Nat × Data) :=
  fun o => match inval with
    | none => none
    | some l => dropOids c l o

def step (s : Sys) : Act → Res
  | .newInstance =>
    .ok { s with n := s.n + 1, insts := upd s.insts s.n { regAt := headTid (vlog s) } }
  | .reopen i =>
    if i < s.n ∧ (s.insts i).opened = false then
      .ok (setInst s i { s.insts i with opened := true, live := false })
    else .blocked
  | .close i =>
    if i < s.n ∧ (s.insts i).opened = true ∧ committing s i = false ∧ (s.insts i).pending = []
        ∧ (s.insts i).polled = none then
      .ok (setInst s i { s.insts i with opened := false, live := false })
    else .blocked
  | .pollRead i =>
    if i < s.n ∧ (s.insts i).opened = true ∧ committing s i = false ∧ isFinishing s = false then
      .ok (setInst s i { s.insts i with polled := some (headTid s.log) })
    else .blocked
  | .pollApply i =>
    if i < s.n ∧ committing s i = false then
      match (s.insts i).polled with
      | some L =>
        let x := s.insts i
        .ok (setInst s i { x with
          start := max L x.ltid + 1, polled := none, inval := some [], live := true,
          cache := applyInval x.inval x.cache })
      | none => .blocked
    else .blocked
  | .read i oid =>
    if readEnabled s i oid = true then
      match lookup oid (s.insts i).pending with
      | some _ => .ok s
      | none =>
        match (s.insts i).cache oid with
        | some _ => .ok s
        | none =>
          match stateAt s.log (s.insts i).start oid with
          | some (ser, some v) =>
            .ok (setInst s i { s.insts i with cache := upd (s.insts i).cache oid (some (ser, some v)) })
          | _ => .err .keyError
    else .blocked
  | .write i oid d =>
    if i < s.n ∧ (s.insts i).opened = true ∧ committing s i = false then
      .ok (setInst s i { s.insts i with pending := (oid, d) :: (s.insts i).pending })
    else .blocked
  | .abort i =>
    if i < s.n ∧ inFinishBy s i = false then
      let x := s.insts i
      let s' := setInst s i { x with pending := [], cache := dropOids x.cache (oidsOf x.pending) }
      .ok (if committing s i then dropInfl s' else s')
    else .blocked
  | .begin c t =>
    if s.infl = none ∧ s.next ≤ t ∧ committerOk s c = true then
      .ok { s with infl := some ⟨t, c, [], .begun, []⟩, next := t + 1 }
    else .blocked
  | .store ws =>
    match s.infl with
    | some f =>
      if f.phase = .begun then
        .ok { s with infl := some { f with phase := .stored,
                                           writes := match f.who with
                                                     | some i => (s.insts i).pending
                                                     | none => ws } }
      else .blocked
    | none => .blocked
  | .vote =>
    match s.infl with
    | some f =>
      if f.phase = .stored then .ok { s with infl := some { f with phase := .voted } } else .blocked
    | none => .blocked
  | .extAbort =>
    match s.infl with
    | some f =>
      if f.who = none ∧ f.phase ≠ .finishing then .ok (dropInfl s) else .blocked
    | none => .blocked
  | .finishEnter =>
    match s.infl with
    | some f =>
      if f.phase = .voted then .ok { s with infl := some { f with phase := .finishing } } else .blocked
    | none => .blocked
  | .deliver j =>
    match s.infl with
    | some f =>
      if f.phase = .finishing ∧ j < s.n ∧ f.who ≠ some j ∧ j ∉ f.delivered then
        let x := s.insts j
        .ok { s with infl := some { f with delivered := j :: f.delivered },
                     insts := upd s.insts j { x with ltid := f.tid,
                                                      inval := x.inval.map (oidsOf f.writes ++ ·) } }
      else .blocked
    | none => .blocked
  | .publish =>
    match s.infl with
    | some f =>
      if f.phase = .finishing ∧
          (∀ j, j < s.n → f.who ≠ some j → (s.insts j).regAt < f.tid → j ∈ f.delivered) then
        let s' : Sys := { s with log := f.txn :: s.log, infl := none }
        match f.who with
        | some i =>
          let x := s.insts i
          .ok (setInst s' i { x with ltid := f.tid, pending := [], live := false,
                                      cache := overlayCache x.cache f.tid f.writes })
        | none => .ok s'
      else .blocked
    | none => .blocked
  | .invalidateCache i =>
    if i < s.n then .ok (setInst s i { s.insts i with inval := none }) else .blocked
  | .openHist a b =>
    if isFinishing s = true then .blocked else
    match getTID a b with
    | .error e => .err e
    | .ok none => .blocked
    | .ok (some bf) =>
      if refused (headTid s.log) bf = true then .err .valueError
      else .ok { s with nh := s.nh + 1, hists := upd s.hists s.nh { before := bf, log0 := s.log } }
  | .hread h oid =>
    if h < s.nh then
      match (s.hists h).cache oid with
      | some _ => .ok s
      | none =>
        if isFinishing s = true then .blocked else
        match stateAt s.log (s.hists h).before oid with
        | some (ser, some v) =>
          .ok { s with hists := upd s.hists h { s.hists h with
                  cache := upd (s.hists h).cache oid (some (ser, some v)) } }
        | _ => .err .keyError
    else .blocked
  | .hpoll h => if h < s.nh then .ok s else .blocked
  | .hcommit _ => .err .readOnlyHistory
  | .hstore _ => .err .readOnly
  | .hnewOid _ => .err .readOnly

/-- "for all schedules": every finite action sequence accepted by `step` from `init` -/
inductive Reachable : Sys → Prop
  | init : Reachable init
  | step {s s' : Sys} (a : Act) : Reachable s → step s a = .ok s' → Reachable s'

/-- run a trace, skipping actions that are blocked or raise (they change nothing) -/
def run (s : Sys) : List Act → Sys
  | [] => s
  | a :: r => match step s a with
    | .ok s' => run s' r
    | _ => run s r

end ZodbModel.Mvcc

/-! ### FilePool (FileStorage's reader pool / writer lock), one action per `with self._cond:` block -/
namespace ZodbModel.Mvcc.FilePool

structure Pool where
  writers : Nat := 0        -- `writers`: finishers that announced themselves
  writing : Bool := false   -- `writing`: a finisher holds the write lock
  out : Nat := 0            -- `len(_out)`: reader files handed out

inductive PAct where
  | announce      -- write_lock: `writers += 1`
  | acquire       -- write_lock: wait until `not writing and not _out`, then `writing = True`
  | release       -- write_lock exit: `writing = False; writers -= 1; notify_all`
  | get           -- get: wait until `not writers`, hand a file out
  | put           -- get exit: the file goes back
deriving DecidableEq

def pstep (p : Pool) : PAct → Option Pool
  | .announce => some { p with writers := p.writers + 1 }
  | .acquire => if 0 < p.writers ∧ p.writing = false ∧ p.out = 0 then some { p with writing := true } else none
  | .release => if p.writing = true then some { p with writing := false, writers := p.writers - 1 } else none
  | .get => if p.writers = 0 then some { p with out := p.out + 1 } else none
  | .put => if 0 < p.out then some { p with out := p.out - 1 } else none

inductive PReachable : Pool → Prop
  | init : PReachable {}
  | step {p p' : Pool} (a : PAct) : PReachable p → pstep p a = some p' → PReachable p'

end ZodbModel.Mvcc.FilePool
