/-
  Model of the reference layer of ZODB object serialization (C14).

    src/ZODB/serialize.py   ObjectWriter.persistent_id / serialize / NewObjectIterator,
                            ObjectReader._persistent_load / load_persistent / load_oid /
                            load_persistent_weakref / load_multi_persistent / load_multi_oid / getGhost,
                            referencesf, get_refs
    src/ZODB/Connection.py  _commit (loop over _registered_objects), _store_objects (writer stack loop),
                            get, setstate, the per-connection cache `_cache : oid ↦ object`

  Level: *tokens*.  A value (the result of `__getstate__()` / `__getnewargs__()`) is a tree whose
  inner nodes are plain containers (list / tuple / dict, told apart by a kind number), whose atoms
  are plain values, and whose leaves are the places where the pickler calls `persistent_id` and gets
  a non-None answer (a persistent object or a `persistent.wref.WeakRef`).  The pickle virtual machine
  itself (zodbpickle: which bytes encode which tree, `noload` calling `persistent_load` once per
  persistent id, in pickling order) is trusted and probed by the correspondence check; a record is
  modelled as the pair of token trees it decodes to.

  Core Lean only.
-/
import ZodbModel.Basic
namespace ZodbModel.Refs

abbrev Oid := Bytes          -- 8 bytes in practice; nothing below depends on the length
abbrev Cls := Nat            -- a class (module, name), as a number
abbrev Db := Nat             -- a database name, as a number
abbrev H := Nat              -- handle of an in-memory object (index in the heap)

/-! ### value trees -/

inductive Tree (L : Type) where
  | atom (a : Nat)                          -- plain value, pickled in place
  | leaf (l : L)                            -- persistent leaf
  | node (k : Nat) (kids : List (Tree L))   -- plain container of kind `k`
deriving Repr

namespace Tree
variable {L M σ ε : Type}

mutual
/-- the persistent leaves, in pickling order -/
def leaves : Tree L → List L
  | .atom _ => []
  | .leaf l => [l]
  | .node _ ks => leavesL ks
def leavesL : List (Tree L) → List L
  | [] => []
  | t :: ts => t.leaves ++ leavesL ts
end

mutual
/-- the plain values, in pickling order -/
def atoms : Tree L → List Nat
  | .atom a => [a]
  | .leaf _ => []
  | .node _ ks => atomsL ks
def atomsL : List (Tree L) → List Nat
  | [] => []
  | t :: ts => t.atoms ++ atomsL ts
end

mutual
/-- the tree with every leaf blanked: container kinds, arities, atoms and leaf positions -/
def skel : Tree L → Tree Unit
  | .atom a => .atom a
  | .leaf _ => .leaf ()
  | .node k ks => .node k (skelL ks)
def skelL : List (Tree L) → List (Tree Unit)
  | [] => []
  | t :: ts => t.skel :: skelL ts
end

mutual
/-- left-to-right traversal with a state: what a pickler (writer side) or unpickler (reader side)
    does with its `persistent_id` / `persistent_load` hook -/
def traverse (f : σ → L → Except ε (M × σ)) : σ → Tree L → Except ε (Tree M × σ)
  | s, .atom a => .ok (.atom a, s)
  | s, .leaf l =>
    match f s l with
    | .ok (m, s') => .ok (.leaf m, s')
    | .error e => .error e
  | s, .node k ks =>
    match traverseL f s ks with
    | .ok (ks', s') => .ok (.node k ks', s')
    | .error e => .error e
def traverseL (f : σ → L → Except ε (M × σ)) : σ → List (Tree L) → Except ε (List (Tree M) × σ)
  | s, [] => .ok ([], s)
  | s, t :: ts =>
    match traverse f s t with
    | .error e => .error e
    | .ok (t', s') =>
      match traverseL f s' ts with
      | .error e => .error e
      | .ok (ts', s'') => .ok (t' :: ts', s'')
end

/-- the same traversal over a plain list of leaves -/
def mapS (f : σ → L → Except ε (M × σ)) : σ → List L → Except ε (List M × σ)
  | s, [] => .ok ([], s)
  | s, l :: ls =>
    match f s l with
    | .error e => .error e
    | .ok (m, s') =>
      match mapS f s' ls with
      | .error e => .error e
      | .ok (ms, s'') => .ok (m :: ms, s'')

/-- position-wise relation of two lists (core Lean has no `List.Forall₂`) -/
inductive Forall2 {α β : Type} (R : α → β → Prop) : List α → List β → Prop
  | nil : Forall2 R [] []
  | cons {a b as bs} : R a b → Forall2 R as bs → Forall2 R (a :: as) (b :: bs)

/-- `t'` is `t` with every leaf replaced by an `R`-related one: same containers, same atoms, leaves
    related position by position -/
def Rel (R : L → M → Prop) (t : Tree L) (t' : Tree M) : Prop :=
  t.skel = t'.skel ∧ Forall2 R t.leaves t'.leaves

end Tree

/-! ### in-memory objects (writer side) -/

/-- `_p_jar` -/
inductive Jar where
  | none                        -- not (yet) owned by a connection
  | conn (db : Db) (c : Nat)    -- connection number `c` of database `db`
deriving DecidableEq, Repr

/-- what the pickler meets at a persistent leaf -/
inductive PLeaf where
  | strong (h : H)    -- an instance of `Persistent`
  | weak (h : H)      -- a `persistent.wref.WeakRef` whose target is `h`
deriving DecidableEq, Repr

def PLeaf.target : PLeaf → H
  | .strong h => h
  | .weak h => h

structure Obj where
  cls : Cls
  newargs : Option (Tree PLeaf)   -- `some args` iff the class has `__getnewargs__` (its result)
  state : Tree PLeaf              -- `__getstate__()`
  oid : Option Oid                -- `_p_oid` when the commit starts
  jar : Jar                       -- `_p_jar` when the commit starts
deriving Repr

/-- all persistent leaves the pickler meets while writing the record of `o`: class meta first -/
def Obj.leaves (o : Obj) : List PLeaf :=
  (match o.newargs with | none => [] | some a => a.leaves) ++ o.state.leaves

/-! ### reference tokens (what `persistent_id` returns / `persistent_load` receives) -/

/-- the oid inside a token as the unpickler hands it over: `bytes`, or `str` for a Python-2 record
    whose oid bytes are all below 0x80 -/
inductive OidTok where
  | bytes (b : Bytes)
  | str (s : List Nat)     -- code points
deriving DecidableEq, Repr

inductive Tok where
  | oid (o : OidTok)                          -- `oid`                      class has __getnewargs__
  | tup (o : OidTok) (c : Cls)                -- `(oid, class)`
  | weak (o : OidTok) (db : Option Db)        -- `['w', (oid,)]` / `['w', (oid, dbname)]`
  | multi (db : Db) (o : OidTok) (c : Cls)    -- `['m', (dbname, oid, class)]`
  | multiOid (db : Db) (o : OidTok)           -- `['n', (dbname, oid)]`
  | legacyWeak (o : OidTok)                   -- `[oid]`                    legacy weak reference
deriving DecidableEq, Repr

inductive Err where
  | invalidRef (why : Nat)   -- InvalidObjectReference: 0 xrefs disabled, 1 foreign database,
                             -- 2 other connection of a member database, 3 new object reachable from
                             -- two databases, 4 registered object of another connection
  | badHandle                -- (harness error) handle outside the heap
  | badState                 -- state the code cannot be in (oid without jar, registered without oid)
  | outOfFuel                -- never returned: see `Proofs.Refs.commit_fuel_sufficient`
  | posKey                   -- POSKeyError
  | keyError                 -- KeyError (unknown database name)
  | unicode                  -- UnicodeEncodeError / UnicodeDecodeError
deriving DecidableEq, Repr

/-- `str.encode('ascii')` -/
def asciiEncode (s : List Nat) : Except Err Bytes :=
  if s.all (· < 128) then .ok s else .error .unicode

/-- how the unpickler (encoding='ASCII', errors='strict') hands over a Python-2 `str` oid -/
def decodePy2Str (b : Bytes) : Except Err OidTok :=
  if b.all (· < 128) then .ok (.str b) else .error .unicode

/-- the `if not isinstance(oid, bytes): oid = oid.encode('ascii')` step found in `referencesf`,
    `get_refs`, `load_persistent`, `load_oid`, `load_persistent_weakref` -/
def OidTok.norm : OidTok → Except Err Oid
  | .bytes b => .ok b
  | .str s => asciiEncode s

/-! ### `referencesf` / `get_refs` post-processing over the tokens `noload` collected -/

def referencesOf : List Tok → Except Err (List Oid)
  | [] => .ok []
  | t :: ts =>
    match t with
    | .tup o _ | .oid o =>                      -- tuple ⇒ reference[0]; bytes/str ⇒ itself
      match o.norm with
      | .error e => .error e
      | .ok b =>
        match referencesOf ts with
        | .error e => .error e
        | .ok r => .ok (b :: r)
    | _ => referencesOf ts                      -- a list: weak or multi-database ⇒ skipped

/-- `get_refs`: oid and cached class (if any) -/
def getRefs : List Tok → Except Err (List (Oid × Option Cls))
  | [] => .ok []
  | t :: ts =>
    match t with
    | .tup o c =>
      match o.norm, getRefs ts with
      | .ok b, .ok r => .ok ((b, some c) :: r)
      | .error e, _ => .error e
      | _, .error e => .error e
    | .oid o =>
      match o.norm, getRefs ts with
      | .ok b, .ok r => .ok ((b, none) :: r)
      | .error e, _ => .error e
      | _, .error e => .error e
    | _ => getRefs ts

/-! ### ObjectWriter -/

structure Env where
  db : Db                        -- database_name of the writer's connection
  conn : Nat                     -- the writer's connection (`self._jar`)
  xrefs : Bool                   -- `db.xrefs`
  conns : List (Db × Nat)        -- member databases of the multi-database and the connection
                                 -- `self._jar.get_connection(name)` yields for each
  implicit : List (Db × Oid)     -- `(name, oid)` with `get_connection(name)._implicitlyAdding(oid)`
  fresh : Nat → Oid              -- the k-th answer of `new_oid()` during this commit

def Env.own (env : Env) : Jar := .conn env.db env.conn

structure WState where
  assigned : List (H × Oid)   -- `_p_oid` (and `_p_jar = self._jar`) set by persistent_id, newest first
  next : Nat                  -- number of `new_oid()` calls so far
  stack : List H              -- `ObjectWriter._stack`, top first
deriving Repr

def lookup {α β : Type} [DecidableEq α] (k : α) : List (α × β) → Option β
  | [] => none
  | (k', v) :: t => if k = k' then some v else lookup k t

/-- `obj._p_oid` now -/
def curOid (o : Obj) (s : WState) (h : H) : Option Oid :=
  match lookup h s.assigned with
  | some oid => some oid
  | none => o.oid

/-- `obj._p_jar` now -/
def curJar (env : Env) (o : Obj) (s : WState) (h : H) : Jar :=
  match lookup h s.assigned with
  | some _ => env.own
  | none => o.jar

/-- `oid = obj._p_oid = self._jar.new_oid(); obj._p_jar = self._jar; self._stack.append(obj)` -/
def assign (env : Env) (s : WState) (h : H) : Oid × WState :=
  (env.fresh s.next,
   { assigned := (h, env.fresh s.next) :: s.assigned, next := s.next + 1, stack := h :: s.stack })

/-- the foreign-jar checks of `persistent_id`; `.ok db'` is `database_name` -/
def crossCheck (env : Env) (jar : Jar) (oid : Oid) : Except Err Db :=
  if !env.xrefs then .error (.invalidRef 0)
  else
    match jar with
    | .none => .error (.invalidRef 1)
    | .conn db' c' =>
      match lookup db' env.conns with
      | none => .error (.invalidRef 1)
      | some c'' =>
        if c'' ≠ c' then .error (.invalidRef 2)
        else if env.implicit.contains (db', oid) then .error (.invalidRef 3)
        else .ok db'

/-- `ObjectWriter.persistent_id` for the leaves it does not answer `None` for -/
def persistentId (env : Env) (objs : List Obj) (s : WState) : PLeaf → Except Err (Tok × WState)
  | .weak h =>
    match objs[h]? with
    | none => .error .badHandle
    | some o =>
      match curOid o s h with
      | none =>
        let (oid, s') := assign env s h
        .ok (.weak (.bytes oid) none, s')
      | some oid =>
        match curJar env o s h with
        | .none => .error .badState
        | .conn db' c' =>
          if Jar.conn db' c' = env.own then .ok (.weak (.bytes oid) none, s)
          else .ok (.weak (.bytes oid) (some db'), s)
  | .strong h =>
    match objs[h]? with
    | none => .error .badHandle
    | some o =>
      match curOid o s h with
      | none =>
        let (oid, s') := assign env s h
        .ok (if o.newargs.isSome then .oid (.bytes oid) else .tup (.bytes oid) o.cls, s')
      | some oid =>
        if curJar env o s h = env.own then
          .ok (if o.newargs.isSome then .oid (.bytes oid) else .tup (.bytes oid) o.cls, s)
        else
          match crossCheck env (curJar env o s h) oid with
          | .error e => .error e
          | .ok db' =>
            .ok (if o.newargs.isSome then .multiOid db' (.bytes oid)
                 else .multi db' (.bytes oid) o.cls, s)

/-- a data record, decoded: class meta (`klass` or `(klass, newargs)`) and state -/
structure Record where
  cls : Cls
  args : Option (Tree Tok)
  state : Tree Tok
deriving Repr

/-- what `noload` hands to `refs.append`, both pickles of the record -/
def Record.tokens (r : Record) : List Tok :=
  (match r.args with | none => [] | some a => a.leaves) ++ r.state.leaves

def Record.atoms (r : Record) : List Nat :=
  (match r.args with | none => [] | some a => a.atoms) ++ r.state.atoms

def Obj.atoms (o : Obj) : List Nat :=
  (match o.newargs with | none => [] | some a => a.atoms) ++ o.state.atoms

/-- `ObjectWriter.serialize`: class meta, then `__getstate__()`, through one pickler -/
def serialize (env : Env) (objs : List Obj) (s : WState) (h : H) : Except Err (Record × WState) :=
  match objs[h]? with
  | none => .error .badHandle
  | some o =>
    match o.newargs with
    | none =>
      match o.state.traverse (persistentId env objs) s with
      | .error e => .error e
      | .ok (st, s') => .ok ({ cls := o.cls, args := none, state := st }, s')
    | some a =>
      match a.traverse (persistentId env objs) s with
      | .error e => .error e
      | .ok (a', s1) =>
        match o.state.traverse (persistentId env objs) s1 with
        | .error e => .error e
        | .ok (st, s') => .ok ({ cls := o.cls, args := some a', state := st }, s')

/-- `Connection._store_objects(writer)`: pop, serialize (which may push), store; until the stack is
    empty.  Returns the stores in the order they were made. -/
def storeLoop (env : Env) (objs : List Obj) : Nat → WState → Except Err (List (H × Record) × WState)
  | 0, s => if s.stack.isEmpty then .ok ([], s) else .error .outOfFuel
  | fuel + 1, s =>
    match s.stack with
    | [] => .ok ([], s)
    | h :: rest =>
      match serialize env objs { s with stack := rest } h with
      | .error e => .error e
      | .ok (r, s1) =>
        match storeLoop env objs fuel s1 with
        | .error e => .error e
        | .ok (out, s2) => .ok ((h, r) :: out, s2)

/-- the connection's bookkeeping when `commit` is called -/
structure Pending where
  registered : List H   -- `_registered_objects`
  added : List H        -- `_added` (explicit `Connection.add`)
  changed : List H      -- objects whose `_p_changed` is true

/-- object is new: `_p_serial == z64` -/
def isNew (objs : List Obj) (p : Pending) (h : H) : Bool :=
  p.added.contains h || (match objs[h]? with | some o => o.oid.isNone | none => false)

/-- the branch taken for a registered object in `_commit`; `done` = handles stored so far -/
def mustStore (objs : List Obj) (p : Pending) (done : List H) (h : H) : Bool :=
  (p.added.contains h && !done.contains h)           -- `oid in self._added`  (stored ones are popped)
  || !((done.contains h && isNew objs p h)           -- `oid in self._creating`
       || !p.changed.contains h)                     -- `not obj._p_changed`

/-- `Connection._commit`: the loop over `_registered_objects`.  `done` = handles stored so far
    (`_added` minus / `_creating` plus the new ones among them). -/
def commitLoop (env : Env) (objs : List Obj) (p : Pending) (fuel : Nat) :
    List H → WState → List H → Except Err (List (H × Record) × WState)
  | [], s, _ => .ok ([], s)
  | h :: rest, s, done =>
    match objs[h]? with
    | none => .error .badHandle
    | some o =>
      match curOid o s h with
      | none => .error .badState                                   -- `assert oid`
      | some _ =>
        if curJar env o s h ≠ env.own then .error (.invalidRef 4)  -- `obj._p_jar is not self`
        else if mustStore objs p done h then
          match storeLoop env objs fuel { s with stack := [h] } with
          | .error e => .error e
          | .ok (out, s1) =>
            match commitLoop env objs p fuel rest s1 (done ++ out.map (·.1)) with
            | .error e => .error e
            | .ok (out', s2) => .ok (out ++ out', s2)
        else commitLoop env objs p fuel rest s done

def WState.init : WState := { assigned := [], next := 0, stack := [] }

/-- enough for any heap: every push consumes an object without oid (proved sufficient) -/
def fuelFor (objs : List Obj) : Nat := objs.length + 2

def commit (env : Env) (objs : List Obj) (p : Pending) : Except Err (List (H × Record) × WState) :=
  commitLoop env objs p (fuelFor objs) p.registered WState.init []

/-- `_p_oid` of `h` after the commit -/
def finalOid (objs : List Obj) (s : WState) (h : H) : Option Oid :=
  match objs[h]? with
  | none => none
  | some o => curOid o s h

def finalJar (env : Env) (objs : List Obj) (s : WState) (h : H) : Jar :=
  match objs[h]? with
  | none => .none
  | some o => curJar env o s h

/-! ### ObjectReader, Connection.get / setstate with the per-connection caches -/

/-- what the unpickler puts in place of a token -/
inductive LLeaf where
  | obj (h : Nat)                        -- the in-memory object number `h` of the loading session
  | wref (db : Option Db) (oid : Oid)    -- a WeakRef (`database_name`, `oid`)
deriving DecidableEq, Repr

structure LObj where
  db : Db
  oid : Oid
  cls : Cls                        -- class the ghost was made from
  broken : Bool                    -- class could not be imported: a PersistentBroken subclass
  state : Option (Tree LLeaf)      -- `none` while a ghost
deriving Repr

abbrev Store := List ((Db × Oid) × Record)    -- the storages of all member databases

structure LEnv where
  store : Store
  dbs : List Db           -- names in `db.databases`
  missing : List Cls      -- classes `classFactory` cannot import

structure LState where
  heap : List LObj                     -- every object made so far, by handle
  cache : List ((Db × Oid) × Nat)      -- `get_connection(db)._cache`, all member connections

def LState.init : LState := { heap := [], cache := [] }

/-- `cache.new_ghost(oid, obj)` on a fresh object -/
def newGhost (ls : LState) (db : Db) (oid : Oid) (c : Cls) (lenv : LEnv) : Nat × LState :=
  (ls.heap.length,
   { heap := ls.heap ++ [{ db := db, oid := oid, cls := c, broken := lenv.missing.contains c,
                           state := none }],
     cache := ((db, oid), ls.heap.length) :: ls.cache })

/-- `Connection.get(oid)` in the connection of database `db` -/
def connGet (lenv : LEnv) (ls : LState) (db : Db) (oid : Oid) : Except Err (Nat × LState) :=
  match lookup (db, oid) ls.cache with
  | some h => .ok (h, ls)
  | none =>
    match lookup (db, oid) lenv.store with
    | none => .error .posKey
    | some r => .ok (newGhost ls db oid r.cls lenv)       -- getGhost(p): class from the record

/-- `ObjectReader.load_persistent(oid, klass)` in the connection of `db` -/
def loadPersistent (lenv : LEnv) (ls : LState) (db : Db) (o : OidTok) (c : Cls) :
    Except Err (Nat × LState) :=
  match o.norm with
  | .error e => .error e
  | .ok oid =>
    match lookup (db, oid) ls.cache with
    | some h => .ok (h, ls)
    | none => .ok (newGhost ls db oid c lenv)             -- class cached in the reference

/-- `ObjectReader.load_oid(oid)` in the connection of `db` -/
def loadOid (lenv : LEnv) (ls : LState) (db : Db) (o : OidTok) : Except Err (Nat × LState) :=
  match o.norm with
  | .error e => .error e
  | .ok oid => connGet lenv ls db oid

/-- `ObjectReader._persistent_load(reference)` of the reader of database `db`'s connection -/
def persistentLoad (lenv : LEnv) (db : Db) (ls : LState) : Tok → Except Err (LLeaf × LState)
  | .tup o c =>
    match loadPersistent lenv ls db o c with
    | .ok (h, ls') => .ok (.obj h, ls')
    | .error e => .error e
  | .oid o =>
    match loadOid lenv ls db o with
    | .ok (h, ls') => .ok (.obj h, ls')
    | .error e => .error e
  | .weak o d =>
    match o.norm with
    | .ok oid => .ok (.wref d oid, ls)
    | .error e => .error e
  | .legacyWeak o =>
    match o.norm with
    | .ok oid => .ok (.wref none oid, ls)
    | .error e => .error e
  | .multi d o c =>
    if !lenv.dbs.contains d then .error .keyError           -- get_connection(database_name)
    else
      match loadPersistent lenv ls d o c with
      | .ok (h, ls') => .ok (.obj h, ls')
      | .error e => .error e
  | .multiOid d o =>
    if !lenv.dbs.contains d then .error .keyError
    else
      match loadOid lenv ls d o with
      | .ok (h, ls') => .ok (.obj h, ls')
      | .error e => .error e

def setState (ls : LState) (h : Nat) (t : Tree LLeaf) : LState :=
  { ls with heap := ls.heap.modify h (fun x => { x with state := some t }) }

/-- `Connection.setstate(obj)`: load the record of `obj`, unpickle its state through
    `_persistent_load`, `__setstate__` -/
def connSetstate (lenv : LEnv) (ls : LState) (h : Nat) : Except Err LState :=
  match ls.heap[h]? with
  | none => .error .badHandle
  | some x =>
    match lookup (x.db, x.oid) lenv.store with
    | none => .error .posKey
    | some r =>
      match r.state.traverse (persistentLoad lenv x.db) ls with
      | .error e => .error e
      | .ok (t, ls') => .ok (setState ls' h t)

/-- what a program does with a session: fetch by oid, activate a ghost -/
inductive LOp where
  | get (db : Db) (oid : Oid)
  | activate (h : Nat)

/-- run one operation; a failing operation (POSKeyError …) leaves the session as it was -/
def lstep (lenv : LEnv) (ls : LState) : LOp → LState
  | .get db oid => match connGet lenv ls db oid with | .ok (_, ls') => ls' | .error _ => ls
  | .activate h => match connSetstate lenv ls h with | .ok ls' => ls' | .error _ => ls

def lrun (lenv : LEnv) (ops : List LOp) : LState := ops.foldl (lstep lenv) LState.init

/-! ### specification vocabulary (used by `Props/C14.lean`) -/

/-- token `tk` is the reference `persistent_id` has to write for leaf `l`, given the oids and jars
    the objects have in state `s`: the target's oid as bytes, in the format its class and owner
    call for -/
def TokFor (env : Env) (objs : List Obj) (s : WState) : PLeaf → Tok → Prop
  | .strong t, tk =>
    ∃ o oid, objs[t]? = some o ∧ curOid o s t = some oid ∧
      if curJar env o s t = env.own then
        tk = (if o.newargs.isSome then .oid (.bytes oid) else .tup (.bytes oid) o.cls)
      else ∃ d c, curJar env o s t = .conn d c ∧
        tk = (if o.newargs.isSome then .multiOid d (.bytes oid) else .multi d (.bytes oid) o.cls)
  | .weak t, tk =>
    ∃ o oid, objs[t]? = some o ∧ curOid o s t = some oid ∧
      if curJar env o s t = env.own then tk = .weak (.bytes oid) none
      else ∃ d c, curJar env o s t = .conn d c ∧ tk = .weak (.bytes oid) (some d)

/-- record `r` is object `o` with every persistent leaf replaced by its reference token -/
def RecFor (env : Env) (objs : List Obj) (s : WState) (o : Obj) (r : Record) : Prop :=
  r.cls = o.cls ∧
  (match o.newargs, r.args with
   | none, none => True
   | some a, some a' => Tree.Rel (TokFor env objs s) a a'
   | _, _ => False) ∧
  Tree.Rel (TokFor env objs s) o.state r.state

/-- the oids of the ordinary references among the leaves `ls`: strong, and to an object owned by
    the writer's own connection (same database); in order, with repetitions -/
def strongRefs (env : Env) (objs : List Obj) (s : WState) : List PLeaf → List Oid
  | [] => []
  | .weak _ :: ls => strongRefs env objs s ls
  | .strong t :: ls =>
    match objs[t]? with
    | none => strongRefs env objs s ls
    | some o =>
      if curJar env o s t = env.own then
        match curOid o s t with
        | some oid => oid :: strongRefs env objs s ls
        | none => strongRefs env objs s ls
      else strongRefs env objs s ls

/-- the objects a commit has to store: the registered ones that were added or changed, and every
    object without an oid that a stored object refers to (strongly or weakly) -/
inductive Stored (objs : List Obj) (p : Pending) : H → Prop
  | root {h} : h ∈ p.registered → (h ∈ p.added ∨ h ∈ p.changed) → Stored objs p h
  | step {x y o oy} : Stored objs p x → objs[x]? = some o → (∃ l ∈ o.leaves, l.target = y) →
      objs[y]? = some oy → oy.oid = none → Stored objs p y

/-- the database an object owned by `j` lives in (an object without jar is adopted by the writer) -/
def jarDb (env : Env) : Jar → Db
  | .conn d _ => d
  | .none => env.db

/-- loaded leaf `lf` (in loading session `ls`) stands for what in-memory leaf `l` referred to when
    the commit ended in writer state `sf`: a strong reference became THE in-memory object with the
    target's oid in the target's database; a weak reference became a WeakRef with the target's oid
    (and the target's database name unless it is the writer's own connection) -/
def SameTarget (env : Env) (objs : List Obj) (sf : WState) (ls : LState) : PLeaf → LLeaf → Prop
  | .strong t, lf =>
    ∃ (o : Obj) (oid : Oid) (h : Nat) (x : LObj), objs[t]? = some o ∧ curOid o sf t = some oid ∧
      lf = .obj h ∧ ls.heap[h]? = some x ∧ x.oid = oid ∧ x.db = jarDb env (curJar env o sf t)
  | .weak t, lf =>
    ∃ (o : Obj) (oid : Oid), objs[t]? = some o ∧ curOid o sf t = some oid ∧
      lf = .wref (if curJar env o sf t = env.own then none else some (jarDb env (curJar env o sf t))) oid

/-- the database after the commit: every stored record under the oid its object got -/
def putRecords (db : Db) (objs : List Obj) (sf : WState) (out : List (H × Record)) (base : Store) :
    Store :=
  out.foldr (fun hr st =>
    match finalOid objs sf hr.1 with
    | some o => ((db, o), hr.2) :: st
    | none => st) base

end ZodbModel.Refs
