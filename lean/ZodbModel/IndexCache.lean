/-
  The index file as a cache, side files, read-only mode (C09).
  src/ZODB/FileStorage/FileStorage.py: FileStorage.__init__ (lock/tmp creation, _restore_index,
  read_index with or without the restored index, _save_index), _save_index, _restore_index, _sane /
  _check_sanity, the `if self._is_read_only: raise ReadOnlyError()` guards of the public methods;
  src/ZODB/fsIndex.py: save / load.

  * Index file = a stream of pickles `pos, (prefix, bucket)*, None`.  The pickle framing is
    abstracted as a length-prefixed (hence prefix-free) code `frame`; buckets are flattened to one
    `(oid, offset)` entry per frame.  What matters for C09 is that a cut-short stream never loads.
  * `checkSanity` follows `_check_sanity` statement by statement: `pos < 100`, file shorter than
    `pos`, then the backward walk (redundant length → header → `tlen` agreement → status → skip
    undone and empty transactions → at most 5 records of the last non-empty transaction compared
    with the index).  It returns the tid of the transaction that ends at `pos` (`ltid`), `none` for
    "insane" (the code's `0`), or raises what the code raises.
  * `openWith`: the constructor's decision between `read_index(start=pos, ltid, index)` and the full
    scan, then (writable only) truncation of a rejected tail and `_save_index`.
  * directory level: which files a (read-only / writable) open and every public method touch.
  Core Lean only.
-/
import ZodbModel.Disk
namespace ZodbModel.IndexCache
open ZodbModel ZodbModel.Format ZodbModel.Disk

/-! ### the index file -/

/-- one pickle of the stream: abstracted as length-prefixed payload -/
def frame (p : Bytes) : Bytes := be 4 p.length ++ p

/-- `Unpickler.load()`: the next complete frame and the rest, `none` = EOFError/UnpicklingError -/
def readFrame (b : Bytes) : Option (Bytes × Bytes) :=
  if b.length < 4 then none
  else
    let n := beVal (b.take 4)
    let r := b.drop 4
    if r.length < n then none else some (r.take n, r.drop n)

def entryFrame (kv : Nat × Nat) : Bytes := frame (1 :: (be 8 kv.1 ++ be 8 kv.2))

/-- `fsIndex.save(pos, fname)`: `dump(pos)`, one dump per entry, `dump(None)` -/
def saveBytes (pos : Nat) (ix : Index) : Bytes :=
  frame (0 :: be 9 pos) ++ (ix.flatMap entryFrame ++ frame [2])

def loadEntries : Nat → Bytes → Option Index
  | 0, _ => none
  | f+1, b =>
    match readFrame b with
    | none => none
    | some (p, rest) =>
      match p with
      | [2] => some []                                    -- `if not v: break`
      | 1 :: kv =>
        if kv.length = 16 then
          (loadEntries f rest).map ((beVal (kv.take 8), beVal (kv.drop 8)) :: ·)
        else none
      | _ => none

/-- `fsIndex.load(fname)` inside the bare `except` of `_restore_index`: `none` = "no index" -/
def loadIndex (b : Bytes) : Option (Nat × Index) :=
  match readFrame b with
  | some (0 :: p, rest) =>
    if p.length = 9 then (loadEntries (rest.length + 1) rest).map (beVal p, ·) else none
  | _ => none

/-! ### `_check_sanity` -/

/-- `_read_txn_header(pos)` (fixed part; `status.decode('ascii')` raises on a byte ≥ 128) -/
def readTxnHeaderAt (file : Bytes) (pos : Nat) : Except Err Hdr :=
  let s := (file.drop pos).take 23
  if s.length ≠ 23 then .error .corruptedData
  else
    let h := parseHdr s
    if h.st ≥ 128 then .error .unicode else .ok h

def maxChecked : Nat := 5

/-- the inner `while opos < tend and checked < max_checked:` loop; `false` = "return 0" -/
def sanityRecs (file : Bytes) (index : Index) (tpos tend : Nat) : Nat → Nat → Nat → Except Err Bool
  | 0, _, _ => .ok true                                    -- unreachable (fuel = max_checked + 1)
  | f+1, opos, checked =>
    if opos < tend ∧ checked < maxChecked then
      match parseRec (file.drop opos) with
      | .error e => .error e
      | .ok (r, dlen) =>
        if opos + dlen > tend ∨ r.tloc ≠ tpos then .ok false
        else if (idxGet r.oid index).getD 0 ≠ opos then .ok false
        else sanityRecs file index tpos tend f (opos + dlen) (checked + 1)
    else .ok true

inductive WalkStep where
  | done (r : Except Err (Option Nat))     -- a `return`, or an exception
  | back (pos : Nat) (ltid : Nat)          -- `continue`: undone or empty transaction, walk on
deriving Repr

/-- one iteration of the outer `while checked < max_checked:` loop (its `continue`s never change
    `checked`); `ltid` is `none` until the first header has been read. -/
def sanityStep (file : Bytes) (index : Index) (pos : Nat) (ltid : Option Nat) : WalkStep :=
  if pos < 12 then .done (.ok none)                        -- reached the start of the file: only
                                                           -- empty/undone transactions (repaired code)
  else
    let tl := beVal ((file.drop (pos - 8)).take 8)
    if pos < tl + 8 + 4 then .done (.ok none)              -- `pos - tl - 8 < 4`
    else
      let pos' := pos - tl - 8
      match readTxnHeaderAt file pos' with
      | .error e => .done (.error e)
      | .ok h =>
        let ltid' := ltid.getD h.tid                       -- `if not ltid: ltid = h.tid`
        if h.tl ≠ tl then .done (.ok none)
        else if h.st = stUndone then .back pos' ltid'
        else if h.st ≠ stNormal ∧ h.st ≠ stPacked then .done (.ok none)
        else if tl < 23 + h.ul + h.dl + h.el then .done (.ok none)
        else
          let tend := pos' + tl
          let opos := pos' + (23 + h.ul + h.dl + h.el)
          if opos = tend then .back pos' ltid'             -- empty transaction
          else
            match sanityRecs file index pos' tend (maxChecked + 1) opos 0 with
            | .error e => .done (.error e)
            | .ok false => .done (.ok none)
            | .ok true => .done (.ok (some ltid'))

/-- the outer loop (fuel = pos: every `continue` moves at least 8 bytes towards the start) -/
def sanityWalk (file : Bytes) (index : Index) : Nat → Nat → Option Nat → Except Err (Option Nat)
  | 0, _, _ => .ok none                                    -- unreachable
  | f+1, pos, ltid =>
    match sanityStep file index pos ltid with
    | .done r => r
    | .back pos' l => sanityWalk file index f pos' (some l)

def checkSanity (file : Bytes) (index : Index) (pos : Nat) : Except Err (Option Nat) :=
  if pos < 100 then .ok none
  else if file.length < pos then .ok none
  else sanityWalk file index pos pos none

/-! ### opening a data file with or without an index -/

structure SavedIndex where
  pos : Nat
  index : Index
deriving Repr, DecidableEq

/-- `_save_index` at a moment when `cs` is committed: `self._index.save(self._pos, …)` -/
def saveIndex (cs : List FTxn) : SavedIndex := ⟨(encodeFile cs).length, indexOf cs⟩

structure Opened where
  bytes : Bytes            -- Data.fs after the open
  pos : Nat
  index : Index
  ltid : Nat
  maxOid : Nat             -- `_oid`
  usedIndex : Bool         -- `_used_index`
  how : EndKind
deriving Repr, DecidableEq

/-- the observable state: everything but the "index was used" marker -/
def Opened.state (o : Opened) : Bytes × Nat × Index × Nat × Nat := (o.bytes, o.pos, o.index, o.ltid, o.maxOid)

def finishOpen (ro : Bool) (file : Bytes) (used : Bool) (r : ScanResult) : Opened :=
  { bytes := if ro then file
             else if file.length = 0 then magic
             else match r.how with
                  | .truncShort => file.take r.pos
                  | .truncSave => file.take r.pos
                  | _ => file
    pos := r.pos, index := r.index, ltid := r.ltid, maxOid := idxMaxKey r.index
    usedIndex := used, how := r.how }

/-- `_restore_index` after `fsIndex.load`: `none` = ignore the index.  An exception inside the
    sanity check (it read garbage where a foreign index points) means "insane" as well
    (repaired code: `try: tid = self._sane(index, pos) except Exception: tid = 0`). -/
def restoreIndex (file : Bytes) (idx : Option SavedIndex) : Except Err (Option (SavedIndex × Nat)) :=
  match idx with
  | none => .ok none
  | some s =>
    match checkSanity file s.index s.pos with
    | .error _ => .ok none
    | .ok none => .ok none
    | .ok (some ltid) => .ok (some (s, ltid))

/-- `FileStorage(path, read_only=ro)` on an existing data file and a decoded index (if any) -/
def openWith (ro : Bool) (file : Bytes) (idx : Option SavedIndex) : Except Err Opened :=
  match restoreIndex file idx with
  | .error e => .error e
  | .ok (some (s, ltid)) =>
    match readIndex file s.pos s.index ltid with
    | .error e => .error e
    | .ok r => .ok (finishOpen ro file true r)
  | .ok none =>
    match readIndex file 4 [] 0 with
    | .error e => .error e
    | .ok r => .ok (finishOpen ro file false r)

/-- … on the raw bytes of the index file (missing file = `none`) -/
def openFile (ro : Bool) (file : Bytes) (idxFile : Option Bytes) : Except Err Opened :=
  openWith ro file ((idxFile.bind loadIndex).map fun pi => ⟨pi.1, pi.2⟩)

/-! ### directory level: which files are touched -/

abbrev Dir := List (String × Bytes)          -- file name suffix ("" = Data.fs, ".index", …) ↦ bytes

def dirGet (d : Dir) (n : String) : Option Bytes := (d.find? (·.1 == n)).map (·.2)

inductive FsEv where
  | create (name : String)
  | write (name : String) (off : Nat) (data : Bytes)
  | trunc (name : String) (n : Nat)
  | rename (src dst : String)
  | remove (name : String)
deriving Repr, DecidableEq

/-- first free `.trN` name (`_truncate`) -/
def trName (d : Dir) : Nat → Nat → String
  | 0, i => ".tr" ++ toString i
  | f+1, i => if (dirGet d (".tr" ++ toString i)).isSome then trName d f (i + 1) else ".tr" ++ toString i

/-- `_save_index`: returns at once in read-only mode -/
def saveIndexEvents (ro : Bool) (d : Dir) (pos : Nat) (ix : Index) : List FsEv :=
  if ro then []
  else [.create ".index.index_tmp", .write ".index.index_tmp" 0 (saveBytes pos ix)] ++
       (if (dirGet d ".index").isSome then [.remove ".index"] else []) ++
       [.rename ".index.index_tmp" ".index"]

/-- fs events of `FileStorage(path, read_only=ro)` on the directory `d` (Data.fs exists) -/
def openEvents (ro : Bool) (d : Dir) (file : Bytes) (o : Opened) : List FsEv :=
  (if ro then [] else [.create ".lock", .create ".tmp"]) ++        -- `if not read_only:` LockFile, tmp
  (if ro then []                                                    -- `if not read_only:` in read_index
   else if file.length = 0 then [.write "" 0 magic]
   else match o.how with
        | .truncShort => [.trunc "" o.pos]
        | .truncSave =>
          let n := trName d d.length 0
          [.create n, .write n 0 (file.drop o.pos), .trunc "" o.pos]
        | _ => []) ++
  (if o.usedIndex then [] else saveIndexEvents ro d o.pos o.index)

def openDir (ro : Bool) (d : Dir) : Except Err (Opened × List FsEv) :=
  match dirGet d "" with
  | none => .error .os                                               -- (creation is not modelled)
  | some file =>
    match openFile ro file (dirGet d ".index") with
    | .error e => .error e
    | .ok o => .ok (o, openEvents ro d file o)

/-! ### the public methods of an opened storage: read-only guards -/

inductive ApiOp where
  | load | loadBefore | loadSerial | history | iterator | lastTransaction | getTid | getSize
  | undoLog | lastInvalidations | recordIternext | isReadOnly | len | supportsUndo
  | store | deleteObject | restore | undo | newOid | pack
  | tpcBegin | tpcVote | tpcFinish | tpcAbort | close
deriving Repr, DecidableEq

def ApiOp.isWrite : ApiOp → Bool
  | .store | .deleteObject | .restore | .undo | .newOid | .pack | .tpcBegin | .tpcVote
  | .tpcFinish => true
  | _ => false

inductive ApiOut where
  | ok
  | readOnly              -- POSException.ReadOnlyError
  | storageTransaction    -- POSException.StorageTransactionError
deriving Repr, DecidableEq

structure Session where
  ro : Bool
  inTxn : Bool := false   -- `_transaction is not None` (the caller's transaction)
  voted : Bool := false
  closed : Bool := false
deriving Repr, DecidableEq

/-- One call with the caller's transaction object.  The mutating branches are schematic (which
    file is touched), the guards are the code's: `if self._is_read_only: raise ReadOnlyError()`
    comes first in store/deleteObject/restore/undo/pack/new_oid/tpc_begin; tpc_vote/tpc_finish
    compare the transaction; tpc_abort of a foreign transaction returns silently; `close` calls
    `_save_index`, which returns at once when read-only. -/
def apiStep (s : Session) (d : Dir) (pos : Nat) (ix : Index) : ApiOp → Session × ApiOut × List FsEv
  | .store | .deleteObject | .restore | .undo =>
    if s.ro then (s, .readOnly, [])
    else if !s.inTxn then (s, .storageTransaction, [])
    else (s, .ok, [.write ".tmp" 0 []])
  | .newOid => if s.ro then (s, .readOnly, []) else (s, .ok, [])
  | .pack =>
    if s.ro then (s, .readOnly, [])
    else (s, .ok, [.create ".pack", .remove ".index", .rename "" ".old", .rename ".pack" ""]
                    ++ saveIndexEvents s.ro d pos ix)   -- `_clear_index()` precedes the swap (repaired code)
  | .tpcBegin =>
    if s.ro then (s, .readOnly, [])
    else if s.inTxn then (s, .storageTransaction, [])
    else ({ s with inTxn := true, voted := false }, .ok, [])
  | .tpcVote =>
    if !s.inTxn then (s, .storageTransaction, [])
    else ({ s with voted := true }, .ok, [.write "" pos []])
  | .tpcFinish =>
    if !s.inTxn then (s, .storageTransaction, [])
    else ({ s with inTxn := false, voted := false }, .ok, [.write "" (pos + 16) []])
  | .tpcAbort =>
    if !s.inTxn then (s, .ok, [])
    else ({ s with inTxn := false, voted := false }, .ok, if s.voted then [.trunc "" pos] else [])
  | .close => ({ s with closed := true }, .ok, saveIndexEvents s.ro d pos ix)
  | _ => (s, .ok, [])

def runApi (d : Dir) (pos : Nat) (ix : Index) : Session → List ApiOp → List (ApiOp × ApiOut) × List FsEv
  | _, [] => ([], [])
  | s, op :: ops =>
    let (s', out, ev) := apiStep s d pos ix op
    let (outs, evs) := runApi d pos ix s' ops
    ((op, out) :: outs, ev ++ evs)

end ZodbModel.IndexCache
