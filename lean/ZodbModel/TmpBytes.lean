/-
  Byte level of `ZODB.Connection.TmpStore` (src/ZODB/Connection.py), the savepoint store:

      record = p64(len(oid)) ++ oid ++ serial(8) ++ p64(len(data)) ++ data      (TmpStore.store)

  `store` seeks to `position`, writes one record, binds `index[oid] = position` and advances
  `position` by the record length; `load` looks the oid up in `index` (absent: the real storage
  answers — `fallback`), seeks there, reads 8 bytes of oid length, the oid (a different one:
  "Bad temporary storage"), 16 bytes serial+size, then `size` bytes; `reset(position, index, creating)`
  truncates the file to `position` and installs copies of the saved maps.  `Connection.savepoint`
  remembers `(position, index.copy(), …)`, `Connection._rollback_savepoint` hands them back to `reset`.

  `ZodbModel/Conn.lean` models the same class one level up (the file is a list of entries, `position`
  counts entries); this file is the byte layer under it, with its own differential check against the
  real class (harness/c12_tmpbytes.py).  The machine `St` carries two GHOST components next to the
  concrete store: `m`, the abstract map oid ↦ (data, serial) the store is meant to be, and with each
  savepoint the whole store and map of that moment.  The concrete steps never read a ghost: `rollback`
  uses only `position` and `index` of the saved store, exactly what `Connection.savepoint` keeps.

  The dict `index` is an association list, newest binding first (`lookup` = first match = `dict[k]`
  after `dict[k] = v` shadowing); `creating` (an oid set, no bytes) stays in Conn.lean.
  Not modelled: blob files of the savepoint (C13's model), short reads on a damaged temporary file
  other than as the outcomes `short`/`bad`.  Core Lean only.
-/
import ZodbModel.Basic
namespace ZodbModel.TmpBytes
open ZodbModel

structure Entry where
  oid : Bytes
  serial : Bytes
  data : Bytes
deriving DecidableEq, Repr

/-- `header + data` of `TmpStore.store` -/
def encEntry (e : Entry) : Bytes :=
  be 8 e.oid.length ++ (e.oid ++ (e.serial ++ (be 8 e.data.length ++ e.data)))

abbrev Index := List (Bytes × Nat)

structure T where
  file : Bytes := []          -- contents of the temporary file
  position : Nat := 0
  index : Index := []
deriving DecidableEq, Repr

def lookup : Index → Bytes → Option Nat
  | [], _ => none
  | (k, p) :: rest, oid => if k = oid then some p else lookup rest oid

/-- `f.seek(pos); f.write(b)`: overwrites what is there, extends the file (a seek past the end
    leaves a hole of zero bytes) -/
def writeAt (file : Bytes) (pos : Nat) (b : Bytes) : Bytes :=
  file.take pos ++ (List.replicate (pos - file.length) 0 ++ (b ++ file.drop (pos + b.length)))

def z64 : Bytes := List.replicate 8 0

/-- `TmpStore.store(oid, serial, data, '', txn)`; returns the serial it recorded -/
def store (t : T) (oid : Bytes) (serial : Option Bytes) (data : Bytes) : T × Bytes :=
  let ser := serial.getD z64
  let r := encEntry ⟨oid, ser, data⟩
  ({ file := writeAt t.file t.position r, position := t.position + r.length,
     index := (oid, t.position) :: t.index }, ser)

inductive LoadOut where
  | fallback                      -- not in the index: `self._storage.load(oid)`
  | bad                           -- StorageSystemError('Bad temporary storage')
  | short                         -- struct.error: fewer than 8 / 16 header bytes left
  | found (data serial : Bytes)
deriving DecidableEq, Repr

/-- `TmpStore.load(oid)` -/
def load (t : T) (oid : Bytes) : LoadOut :=
  match lookup t.index oid with
  | none => .fallback
  | some pos =>
    let r := t.file.drop pos
    if r.length < 8 then .short else
    let oidlen := beVal (r.take 8)
    let r1 := r.drop 8
    if r1.take oidlen ≠ oid then .bad else
    let r2 := r1.drop oidlen
    if r2.length < 16 then .short else
    let size := beVal ((r2.take 16).drop 8)
    .found ((r2.drop 16).take size) (r2.take 8)

/-- `f.truncate(p)` (extends with zero bytes when `p` is past the end) -/
def truncate (file : Bytes) (p : Nat) : Bytes := file.take p ++ List.replicate (p - file.length) 0

/-- `TmpStore.reset(position, index, creating)` -/
def reset (t : T) (p : Nat) (idx : Index) : T :=
  { file := truncate t.file p, position := p, index := idx }

/-! ### the machine: stores, savepoints, rollbacks — with the ghost abstract map -/

/-- the abstract store: oid ↦ (data, serial), newest binding first -/
abbrev AMap := List (Bytes × (Bytes × Bytes))

def alookup : AMap → Bytes → Option (Bytes × Bytes)
  | [], _ => none
  | (k, v) :: rest, oid => if k = oid then some v else alookup rest oid

inductive Op where
  | store (oid : Bytes) (serial : Option Bytes) (data : Bytes)
  | save                       -- Connection.savepoint: remember (position, index.copy())
  | rollback (k : Nat)         -- Savepoint k .rollback(): reset(position, index); later savepoints are invalid
deriving DecidableEq, Repr

structure St where
  t : T := {}
  m : AMap := []                     -- ghost
  sps : List (T × AMap) := []        -- savepoints, oldest first; only `.1.position`, `.1.index` are real
deriving Repr

def step (s : St) : Op → St
  | .store o sr d =>
    let (t', ser) := store s.t o sr d
    { s with t := t', m := (o, (d, ser)) :: s.m }
  | .save => { s with sps := s.sps ++ [(s.t, s.m)] }
  | .rollback k =>
    match s.sps[k]? with
    | none => s
    | some g => { t := reset s.t g.1.position g.1.index, m := g.2, sps := s.sps.take (k + 1) }

def run (ops : List Op) : St := ops.foldl step {}

/-- what the real class accepts without raising: an 8-byte serial (or None), lengths that fit `p64` -/
def OpOk : Op → Prop
  | .store o sr d => (∀ s, sr = some s → s.length = 8) ∧ o.length < 2 ^ 64 ∧ d.length < 2 ^ 64
  | _ => True

/-- the outcome the abstract map predicts for `load` -/
def specLoad (m : AMap) (oid : Bytes) : LoadOut :=
  match alookup m oid with
  | none => .fallback
  | some (d, sr) => .found d sr

end ZodbModel.TmpBytes
