/-
  Crash model of a FileStorage data file (DESIGN 3.4, C01).

  * `Ev`: the low-level operations the storage issues on Data.fs, as seen underneath Python's
    buffering — `write off bytes`, `trunc n`, `fsync` — plus the marker `ret` ("a successful
    tpc_finish has returned").
  * two-phase commit as a trace generator (FileStorage.tpc_vote / _finish / _finish_finish / _abort):
        vote    write  pos       hdr('c') ++ metadata ++ records ++ p64(tl)     (ONE logical write:
                                 buffered I/O may chunk it arbitrarily, hence every byte cut of the
                                 concatenation is a crash point)
        finish  write  (pos+16)  status ; flush ; fsync ; (publish _pos/_index/_ltid) ; ret
        abort after vote         trunc pos
        vote raising (disk full) write pos (some prefix) ; trunc pos
        abort before vote        nothing reaches the data file (the records sit in Data.fs.tmp)
        finish, fsync raising    write (pos+16) status ; flush ; fsync raises ⇒ no `ret`: `_finish` closes the
                                 storage and re-raises
    A history is a list of such operations; every record of a transaction written at `pos` gets
    `tloc = pos` (`DataHeader(oid, tid, old, pos, …)` in store/deleteObject/restore/undo).  Stores,
    deletes, undo records (back pointers) and restores (explicit serial) differ only in the record
    contents, which are arbitrary here.
  * `image`: the file after an event prefix plus a byte-prefix of the next write (the cut).
  * `recover`: what a writable `FileStorage(path)` open makes of an image: `read_index` from offset 4
    with an empty index, then truncation of a rejected tail.
  Core Lean only.
-/
import ZodbModel.Format
namespace ZodbModel.Disk
open ZodbModel ZodbModel.Format

inductive Ev where
  | write (off : Nat) (data : Bytes)
  | trunc (n : Nat)
  | fsync                              -- an fsync that SUCCEEDED
  | fsyncFailed                        -- an fsync that raised (EIO …): nothing is forced to stable storage
  | ret
deriving Repr, DecidableEq

def zeros (n : Nat) : Bytes := List.replicate n 0

/-- a raw write at `off` (a zero-byte write changes nothing; a write beyond EOF zero-fills) -/
def applyWrite (img : Bytes) (off : Nat) (d : Bytes) : Bytes :=
  if d.length = 0 then img
  else img.take off ++ zeros (off - img.length) ++ d ++ img.drop (off + d.length)

def applyEv (img : Bytes) : Ev → Bytes
  | .write off d => applyWrite img off d
  | .trunc n => img.take n ++ zeros (n - img.length)
  | .fsync => img
  | .fsyncFailed => img
  | .ret => img

def applyEvents (img : Bytes) (es : List Ev) : Bytes := es.foldl applyEv img

/-- crash image: the first `k` events, then the first `nb` bytes of event `k` if it is a write -/
def image (init : Bytes) (es : List Ev) (k nb : Nat) : Bytes :=
  let img := applyEvents init (es.take k)
  match es[k]? with
  | some (.write off d) => applyWrite img off (d.take nb)
  | _ => img

/-- number of commits that had returned -/
def returned (es : List Ev) : Nat := es.count .ret

/-! ### two-phase commit as a trace generator -/

inductive Op where
  | commit (t : FTxn)                -- tpc_begin, stores/deletes/undo/restores, tpc_vote, tpc_finish
  | abortAfterVote (t : FTxn)        -- …, tpc_vote, tpc_abort
  | voteFails (t : FTxn) (n : Nat)   -- tpc_vote raises after n bytes reached the file, tpc_abort
  | abortBeforeVote                  -- tpc_begin, stores, tpc_abort
  | finishFsyncFails (t : FTxn)      -- …, tpc_vote, tpc_finish whose fsync raises: `_finish` logs, closes
                                     -- the storage and re-raises — tpc_finish does NOT return; the status
                                     -- byte was flipped and flushed, so the transaction is in the file
                                     -- (the application reopens the storage to go on)
deriving Repr, DecidableEq

/-- end of the committed data = `_pos` (4 + Σ (tl + 8)) -/
def filePos (cs : List FTxn) : Nat := 4 + (cs.map fun t => t.tlen + 8).sum

/-- the transaction as written at `pos`: every record points to its header -/
def mkTxn (pos : Nat) (t : FTxn) : FTxn :=
  { t with recs := t.recs.map fun r => { r with tloc := pos } }

def voteBytes (pos : Nat) (t : FTxn) : Bytes := encodeTxnSt stCheckpoint (mkTxn pos t)

/-- events of one operation when `cs` is committed -/
def opEvents (cs : List FTxn) : Op → List Ev
  | .commit t =>
    let p := filePos cs
    [.write p (voteBytes p t), .write (p + 16) (be 1 t.status), .fsync, .ret]
  | .abortAfterVote t =>
    let p := filePos cs
    [.write p (voteBytes p t), .trunc p]
  | .voteFails t n =>
    let p := filePos cs
    [.write p ((voteBytes p t).take n), .trunc p]
  | .abortBeforeVote => []
  | .finishFsyncFails t =>
    let p := filePos cs
    [.write p (voteBytes p t), .write (p + 16) (be 1 t.status), .fsyncFailed]

/-- transactions in the file after one operation -/
def opCommits (cs : List FTxn) : Op → List FTxn
  | .commit t => [mkTxn (filePos cs) t]
  | .finishFsyncFails t => [mkTxn (filePos cs) t]
  | _ => []

/-- event trace of a history started with `cs` committed -/
def trace : List FTxn → List Op → List Ev
  | _, [] => []
  | cs, op :: ops => opEvents cs op ++ trace (cs ++ opCommits cs op) ops

/-- transactions committed by the history, in commit order -/
def newCommits : List FTxn → List Op → List FTxn
  | _, [] => []
  | cs, op :: ops => opCommits cs op ++ newCommits (cs ++ opCommits cs op) ops

/-- size guards of a transaction that is voted but never finished -/
def AbortWF (t : FTxn) : Prop := (∀ r ∈ t.recs, BodyWF r.body) ∧ t.tlen < 2 ^ 64

instance (t : FTxn) : Decidable (AbortWF t) := by unfold AbortWF; infer_instance

def OpWF (cs : List FTxn) : Op → Prop
  | .commit t => TxnWF (filePos cs) (mkTxn (filePos cs) t)
  | .abortAfterVote t => AbortWF t
  | .voteFails t _ => AbortWF t
  | .abortBeforeVote => True
  | .finishFsyncFails t => TxnWF (filePos cs) (mkTxn (filePos cs) t)

instance (cs : List FTxn) (op : Op) : Decidable (OpWF cs op) := by
  cases op <;> (simp only [OpWF]; infer_instance)

def OpsWF : List FTxn → List Op → Prop
  | _, [] => True
  | cs, op :: ops => OpWF cs op ∧ OpsWF (cs ++ opCommits cs op) ops

instance : (cs : List FTxn) → (ops : List Op) → Decidable (OpsWF cs ops)
  | _, [] => isTrue trivial
  | cs, op :: ops => by
    unfold OpsWF
    have := instDecidableOpsWF (cs ++ opCommits cs op) ops
    infer_instance

/-! ### recovery = writable open of an image -/

structure Recovered where
  bytes : Bytes            -- Data.fs after the open
  pos : Nat                -- `_pos`
  index : Index            -- `_index`
  ltid : Nat               -- `_ltid` (lastTransaction)
  txns : List FTxn         -- the transactions the scan accepted (= what the iterator yields)
  how : EndKind
  saved : Option Bytes     -- tail copied to `.trN` by `_truncate`
deriving Repr, DecidableEq

/-- `FileStorage(path)` (no index file): `read_index(file, …, start=4, ltid=z64)`; the rejected tail
    is cut off (`file.truncate()` / `_truncate`); an empty file gets the magic written. -/
def recover (b : Bytes) : Except Err Recovered :=
  match readIndex b 4 [] 0 with
  | .error e => .error e
  | .ok r =>
    .ok { bytes := if b.length = 0 then magic
                   else match r.how with
                        | .truncShort => b.take r.pos
                        | .truncSave => b.take r.pos
                        | _ => b
          pos := r.pos, index := r.index, ltid := r.ltid, txns := r.txns, how := r.how
          saved := match r.how with
                   | .truncSave => some (b.drop r.pos)
                   | _ => none }

/-- `r` is exactly the state of a cleanly written file holding the transactions `p` -/
def Recovered.IsClean (r : Recovered) (p : List FTxn) : Prop :=
  r.bytes = encodeFile p ∧ r.pos = (encodeFile p).length ∧ r.index = indexOf p ∧
  r.ltid = lastTid 0 p ∧ r.txns = p

end ZodbModel.Disk
