/-
  Pack protocol of FileStorage at lock granularity (C08, concurrency part).

  Follows `FileStorage.pack` (src/ZODB/FileStorage/FileStorage.py) and
  `FileStoragePacker.pack / copyRest / copyOne` (src/ZODB/FileStorage/fspack.py):

    pack():   with _lock: if _pack_is_in_progress: raise 'Already packing'; flag := True      packStart / packRefused
              try: remove a leftover Data.fs.old                                                  (phase started)
              FileStoragePacker(): file_end := storage.getSize()  (no lock)                      scan
              gc.findReachable(); copyToPacktime()  (no lock; reads [4, packpos) only)           bulkCopy
              ipos == opos  ⇒ nothing freed ⇒ remove .pack, return None                          packNoop
              _commit_lock.acquire(); re-open unbuffered, re-read EOF under _lock                acquireCommit
              copyRest: loop copyOne:
                  _read_txn_header(ipos)            (HOLDING the commit lock)                     readHdr
                  _commit_lock.release()                                                          releaseForBody
                  copy header + records + trailer to .pack                                        copyBody
                  _commit_lock.acquire()                                                          reacquire
              header read fails at EOF (CorruptedDataError at the end position)                   readHdr → atEof
              flush + close .pack; return opos, index       (commit lock still held)
    pack():   with _files.write_lock(): with _lock:
                  _files.empty(); _file.close(); _clear_index();
                  link Data.fs → Data.fs.old (rename if no links)                                 swapBegin
                  os.replace Data.fs.pack → Data.fs; reopen; _initIndex(index); _pos := opos      swapEnd
                  (either step raising: handler renames .old back if Data.fs is gone, reopens)
              finally: _commit_lock.release()                                                     releaseCommit
                       with _lock: flag := False                                                  clearFlag
    any exception in between: fspack releases the commit lock if it holds it, removes .pack;
    pack()'s finally releases the lock / clears the flag                                          packFail

  Committers are the two-phase commit of BaseStorage/FileStorage reduced to what the packer can
  observe: `tpc_begin` takes the commit lock, `tpc_vote` writes the transaction (status 'c') past the
  committed end of Data.fs, `tpc_finish` publishes it (status flip, `_pos`, index) and releases the
  lock, `tpc_abort` truncates the file back and releases the lock; `ret` is the return of
  `tpc_finish` to its caller.  Readers take a file handle from the `FilePool`, look the oid up in the
  index and read through the handle, then put the handle back.

  Data is abstracted to transaction ids: `file` is the list of complete committed transactions in
  Data.fs (oldest first), `pending` the voted-but-unfinished bytes after them.  What a pack does to
  the transactions at or before the pack time is C07's subject; here it is *any* sublist `kept` of
  that prefix.  "For all schedules" = for all action sequences accepted by `step` (DESIGN 3.5).
  Core Lean only.
-/
namespace ZodbModel.PackProto

abbrev Tid := Nat

inductive Owner where
  | packer | committer
deriving DecidableEq, Repr

inductive CPhase where
  | begun | voted
deriving DecidableEq, Repr

inductive PPhase where
  | idle          -- no pack running
  | started       -- flag set; about to remove the leftover .old and construct the packer
  | scanned       -- eof₀ snapshot taken, packpos (k) known
  | bulkCopied    -- copyToPacktime done (no lock held)
  | holdsCommit   -- holds the commit lock, positioned at `copied`
  | hdrRead       -- read the header of transaction `copied` while holding the commit lock
  | copyingBody   -- commit lock released, copying that transaction
  | bodyCopied    -- copied; about to re-acquire the commit lock
  | atEof         -- holding the commit lock, header read hit EOF; .pack flushed and closed
  | midSwap       -- pool write lock + _lock held: pool emptied, file closed, .old named
  | swapped       -- .pack moved over Data.fs, reopened, index and _pos installed
  | released      -- commit lock released (or the pack was a no-op)
  | done          -- flag cleared
deriving DecidableEq, Repr

/-- phases in which the packer owns the commit lock -/
def PPhase.holdsLock : PPhase → Bool
  | .holdsCommit | .hdrRead | .atEof | .midSwap | .swapped => true
  | _ => false

/-- phases of a pack between setting and clearing `_pack_is_in_progress` -/
def PPhase.running : PPhase → Bool
  | .idle | .done => false
  | _ => true

structure State where
  file       : List Tid                    -- complete committed transactions in Data.fs, oldest first
  pending    : Option Tid := none          -- bytes of a voted, unfinished transaction after them
  hist       : List Tid                    -- ghost: every transaction ever published, commit order
  returned   : List Tid                    -- ghost: commits whose tpc_finish returned to the caller
  commitLock : Option Owner := none
  inflight   : Option (Tid × CPhase) := none
  packFlag   : Bool := false               -- _pack_is_in_progress
  phase      : PPhase := .idle
  packT      : Tid := 0                    -- pack time of the current pack
  eof0       : Nat := 0                    -- number of transactions below the file_end snapshot
  k          : Nat := 0                    -- number of transactions below packpos
  kept       : List Tid := []              -- what copyToPacktime wrote for the first k transactions
  copied     : Nat := 0                    -- input transactions consumed so far
  corrupt    : Bool := false               -- packer read bytes of an unfinished transaction as a header
  packedUpTo : Tid := 0                    -- ghost: largest pack time of a performed swap
  gen        : Nat := 0                    -- generation of Data.fs (which inode the name denotes)
  pool       : List Nat := []              -- generations of the pooled read handles
  out        : List Nat := []              -- generations of the handles handed out to readers
  badRead    : Bool := false               -- a reader used the current index with a handle of another file
deriving DecidableEq, Repr

def init (old : List Tid) : State :=
  { file := old, hist := old, returned := old }

inductive Act where
  -- committers
  | begin (t : Tid) | vote | finish | abort | ret (t : Tid)
  -- packer
  | packStart (T : Tid) | packRefused
  | scan (k : Nat) | bulkCopy (kept : List Tid) | packNoop
  | acquireCommit | readHdr | releaseForBody | copyBody | reacquire
  | swapBegin | swapEnd | releaseCommit | clearFlag
  | packFail
  -- readers
  | readerGet | readerRead (g : Nat) | readerPut (g : Nat)
deriving DecidableEq, Repr

/-- phases in which `packFail` (an exception inside the packer / `pack()`) can happen -/
def PPhase.canFail : PPhase → Bool
  | .started | .scanned | .bulkCopied | .holdsCommit | .hdrRead | .copyingBody | .bodyCopied
  | .atEof | .midSwap => true
  | _ => false

/-- One atomic action.  `none` = the action is not enabled (the thread blocks, or the code cannot
    be at that point). -/
def step (s : State) (a : Act) : Option State :=
  match a with
  | .begin t =>
    if s.commitLock = none ∧ (∀ u ∈ s.hist, u < t) then
      some { s with commitLock := some .committer, inflight := some (t, .begun) }
    else none
  | .vote =>
    match s.inflight with
    | some (t, .begun) => some { s with inflight := some (t, .voted), pending := some t }
    | _ => none
  | .finish =>
    match s.inflight with
    | some (t, .voted) =>
      some { s with file := s.file ++ [t], hist := s.hist ++ [t], pending := none,
                    inflight := none, commitLock := none }
    | _ => none
  | .abort =>
    match s.inflight with
    | some _ => some { s with pending := none, inflight := none, commitLock := none }
    | none => none
  | .ret t =>
    if t ∈ s.hist ∧ t ∉ s.returned then some { s with returned := s.returned ++ [t] } else none
  | .packStart T =>
    if s.packFlag = false ∧ s.phase.running = false then
      some { s with packFlag := true, phase := .started, packT := T }
    else none
  | .packRefused =>                       -- FileStorageError('Already packing'): nothing changes
    if s.packFlag = true then some s else none
  | .scan k =>
    if s.phase = .started ∧ k ≤ s.file.length ∧ (∀ t ∈ s.file.take k, t ≤ s.packT) then
      some { s with phase := .scanned, eof0 := s.file.length, k := k }
    else none
  | .bulkCopy kept =>
    if s.phase = .scanned ∧ kept.Sublist (s.file.take s.k) then
      some { s with phase := .bulkCopied, kept := kept, copied := s.k }
    else none
  | .packNoop =>                          -- redundant pack / nothing freed: .pack removed, return None
    if s.phase = .scanned ∨ s.phase = .bulkCopied then some { s with phase := .released } else none
  | .acquireCommit =>
    if s.phase = .bulkCopied ∧ s.commitLock = none then
      some { s with phase := .holdsCommit, commitLock := some .packer }
    else none
  | .readHdr =>
    if s.phase = .holdsCommit then
      if s.copied < s.file.length then some { s with phase := .hdrRead }
      else match s.pending with
        | none => some { s with phase := .atEof }
        | some _ => some { s with phase := .hdrRead, corrupt := true }
    else none
  | .releaseForBody =>
    if s.phase = .hdrRead then some { s with phase := .copyingBody, commitLock := none } else none
  | .copyBody =>
    if s.phase = .copyingBody then some { s with phase := .bodyCopied, copied := s.copied + 1 }
    else none
  | .reacquire =>
    if s.phase = .bodyCopied ∧ s.commitLock = none then
      some { s with phase := .holdsCommit, commitLock := some .packer }
    else none
  | .swapBegin =>                         -- needs the pool write lock: no read handle is out
    if s.phase = .atEof ∧ s.out = [] then some { s with phase := .midSwap, pool := [] } else none
  | .swapEnd =>
    if s.phase = .midSwap then
      some { s with phase := .swapped,
                    file := s.kept ++ (s.file.take s.copied).drop s.k,
                    gen := s.gen + 1,
                    packedUpTo := max s.packedUpTo s.packT }
    else none
  | .releaseCommit =>
    if s.phase = .swapped then some { s with phase := .released, commitLock := none } else none
  | .clearFlag =>
    if s.phase = .released then some { s with phase := .done, packFlag := false } else none
  | .packFail =>
    if s.phase.canFail then
      some { s with phase := .idle, packFlag := false,
                    commitLock := if s.commitLock = some .packer then none else s.commitLock }
    else none
  | .readerGet =>                         -- blocked while the pool write lock is held
    if s.phase = .midSwap then none
    else match s.pool with
      | g :: rest => some { s with pool := rest, out := g :: s.out }
      | [] => some { s with out := s.gen :: s.out }
  | .readerRead g =>
    if g ∈ s.out then some { s with badRead := s.badRead || (g != s.gen) } else none
  | .readerPut g =>
    if g ∈ s.out then some { s with out := s.out.erase g, pool := g :: s.pool } else none

/-- run an action sequence; `none` as soon as one action is not enabled -/
def run (s : State) : List Act → Option State
  | [] => some s
  | a :: as => match step s a with
    | some s' => run s' as
    | none => none

/-- all states the protocol can reach, from any initial database, under any schedule -/
def Reachable (s : State) : Prop := ∃ old acts, run (init old) acts = some s

end ZodbModel.PackProto
