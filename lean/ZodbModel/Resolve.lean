/-
  Model of `ZODB.ConflictResolution` (src/ZODB/ConflictResolution.py): `PersistentReference`,
  `PersistentReferenceFactory.persistent_load`, `persistent_id`, `state`, `tryToResolveConflict`
  (with the `_unresolvable` cache and the exception funnel), and the call made from
  `FileStorage._transactionalUndoRecord`.

  What is idealised (trusted, probed by the correspondence check harness/c10.py):
  * a pickled object state is a finite tree over opaque atoms and persistent-reference leaves
    (`Tree`); the byte layout produced by the C pickler is runtime;
  * a class is a `ClassId` (its `(module, name)` pair); `classInfo` says whether the pair can be
    imported (`find_global`) and whether instances have `_p_resolveConflict`;
  * the class's resolver is an arbitrary function `resolver` of the three unpickled states that
    returns a state, raises `ConflictError`, or raises anything else.
  Core Lean only.
-/
import ZodbModel.Basic
namespace ZodbModel.Resolve

-- plain notations (not definitions), so that `omega`/`simp` see `Nat` directly
scoped notation "Oid" => Nat
scoped notation "Tid" => Nat
scoped notation "ClassId" => Nat
scoped notation "DbName" => Nat

/-! ### persistent references -/

/-- The seven shapes of reference data `PersistentReference.__init__` distinguishes
    (see also `serialize.ObjectReader._persistent_load`); `κ` is the type of the class slot. -/
inductive Ref (κ : Type) where
  | oidClass (o : Oid) (k : κ)                 -- `(oid, klass)`           plain reference
  | oidOnly  (o : Oid)                         -- `oid`                    class has `__getnewargs__`
  | multi    (db : DbName) (o : Oid) (k : κ)   -- `['m', (db, oid, klass)]` cross-database
  | multiOid (db : DbName) (o : Oid)           -- `['n', (db, oid)]`        cross-database, no class
  | weak     (o : Oid)                         -- `['w', (oid,)]`           persistent weak reference
  | weakDb   (o : Oid) (db : DbName)           -- `['w', (oid, db)]`        cross-database weak reference
  | weakOld  (o : Oid)                         -- `[oid]`                   legacy weak reference
deriving DecidableEq, Repr

/-- class slot as it is written in a pickle -/
inductive PKlass where
  | global (c : ClassId)     -- GLOBAL opcode: goes through `find_global` when unpickled
  | named  (c : ClassId)     -- a literal `(module, name)` tuple
deriving DecidableEq, Repr

/-- class slot after unpickling with `find_global` -/
inductive LKlass where
  | cls   (c : ClassId)      -- the imported class object
  | bad   (c : ClassId)      -- `BadClass(module, name)`: the global could not be imported
  | named (c : ClassId)      -- a `(module, name)` tuple
deriving DecidableEq, Repr

/-- class slot kept inside a `PersistentReference` (`self.data`): never a `BadClass` -/
inductive NKlass where
  | cls   (c : ClassId)
  | named (c : ClassId)
deriving DecidableEq, Repr

abbrev PRef := Ref PKlass      -- reference as pickled
abbrev LRef := Ref LKlass      -- argument of `persistent_load`

def Ref.mapK {κ κ' : Type} (f : κ → κ') : Ref κ → Ref κ'
  | .oidClass o k => .oidClass o (f k)
  | .oidOnly o => .oidOnly o
  | .multi db o k => .multi db o (f k)
  | .multiOid db o => .multiOid db o
  | .weak o => .weak o
  | .weakDb o db => .weakDb o db
  | .weakOld o => .weakOld o

def Ref.oid {κ} : Ref κ → Oid
  | .oidClass o _ | .oidOnly o | .multi _ o _ | .multiOid _ o | .weak o | .weakDb o _ | .weakOld o => o

def Ref.db {κ} : Ref κ → Option DbName
  | .multi db _ _ | .multiOid db _ | .weakDb _ db => some db
  | _ => none

def Ref.isWeak {κ} : Ref κ → Bool
  | .weak _ | .weakDb _ _ | .weakOld _ => true
  | _ => false

/-- the class the reference names, whatever the spelling of the slot -/
def PKlass.id : PKlass → ClassId | .global c | .named c => c
def LKlass.id : LKlass → ClassId | .cls c | .bad c | .named c => c
def NKlass.id : NKlass → ClassId | .cls c | .named c => c

def Ref.klass {κ} : Ref κ → Option κ
  | .oidClass _ k | .multi _ _ k => some k
  | _ => none

structure ClassInfo where
  importable : Bool       -- `find_global(module, name)` finds the class
  hasResolver : Bool      -- instances have `_p_resolveConflict`
deriving DecidableEq, Repr

/-- `find_global` applied by the unpickler to a GLOBAL inside a reference -/
def findGlobal (ci : ClassId → ClassInfo) (c : ClassId) : LKlass :=
  if (ci c).importable then .cls c else .bad c

def unpickleKlass (ci : ClassId → ClassInfo) : PKlass → LKlass
  | .global c => findGlobal ci c
  | .named c => .named c

/-- `PersistentReference` object: `data` plus the attributes `__init__` derives from it -/
structure PersistentReference where
  data : Ref NKlass
  oid : Oid
  database_name : Option DbName
  weak : Bool
deriving DecidableEq, Repr

/-- "We can't use the BadClass directly … a class reference in a persistent reference is allowed
    to be a module+name tuple": `BadClass` → `klass.args` -/
def normK : LKlass → NKlass
  | .cls c => .cls c
  | .bad c => .named c
  | .named c => .named c

/-- `PersistentReference.__init__` (via `PersistentReferenceFactory.persistent_load`) -/
def persistentLoad (r : LRef) : PersistentReference :=
  { data := r.mapK normK, oid := r.oid, database_name := r.db, weak := r.isWeak }

/-- `ConflictResolution.persistent_id` -/
def persistentId (p : PersistentReference) : Ref NKlass := p.data

/-- how the pickler writes the class slot of `persistent_id`'s result -/
def pickleKlass : NKlass → PKlass
  | .cls c => .global c
  | .named c => .named c

/-- one reference through unpickle → `persistent_load` -/
def loadRef (ci : ClassId → ClassInfo) (r : PRef) : PersistentReference :=
  persistentLoad (r.mapK (unpickleKlass ci))

/-- one reference through `persistent_id` → pickle -/
def dumpRef (p : PersistentReference) : PRef := (persistentId p).mapK pickleKlass

/-! ### object states -/

inductive Tree (ρ : Type) where
  | atom (n : Nat)
  | ref (r : ρ)
  | pair (a b : Tree ρ)
deriving DecidableEq, Repr

def Tree.map {ρ σ : Type} (f : ρ → σ) : Tree ρ → Tree σ
  | .atom n => .atom n
  | .ref r => .ref (f r)
  | .pair a b => .pair (a.map f) (b.map f)

def Tree.refs {ρ : Type} : Tree ρ → List ρ
  | .atom _ => []
  | .ref r => [r]
  | .pair a b => a.refs ++ b.refs

abbrev PState := Tree PRef                   -- state as pickled
abbrev LState := Tree PersistentReference    -- state as the resolver sees it

/-- first pickle of a record: the class (and `__getnewargs__` result, opaque here) -/
structure Meta where
  cls : ClassId
  args : Nat
deriving DecidableEq, Repr

structure Record where
  hdr : Meta
  state : PState
deriving DecidableEq, Repr

/-- `state(self, oid, serial, prfactory, p)`: second pickle of the record, references through
    `prfactory.persistent_load` -/
def loadState (ci : ClassId → ClassInfo) (s : PState) : LState := s.map (loadRef ci)

/-- `pickler.dump(resolved)` with `persistent_id` -/
def dumpState (s : LState) : PState := s.map dumpRef

/-! ### tryToResolveConflict -/

/-- what `_p_resolveConflict` may raise -/
inductive ResErr where
  | conflict             -- raises ConflictError itself
  | other (code : Nat)   -- raises anything else
deriving DecidableEq, Repr

structure Env where
  ci : ClassId → ClassInfo
  resolver : ClassId → LState → LState → LState → Except ResErr LState

/-- exceptions that can occur inside the `try:` block, before the funnel -/
inductive Exc where
  | conflict                 -- `raise ConflictError` (cache hit / no resolver / raised by the resolver)
  | badClass                 -- `klass.__new__` on a `BadClass` instance (TypeError) / BadClassName
  | keyError                 -- `loadSerial` failed (POSKeyError)
  | resolverRaised (code : Nat)
deriving DecidableEq, Repr

/-- the only thing that leaves `tryToResolveConflict` on failure:
    `ConflictError(oid=oid, serials=(committedSerial, oldSerial), data=newpickle)` -/
structure ConflictErr where
  oid : Oid
  committedSerial : Tid
  oldSerial : Tid
deriving DecidableEq, Repr

/-- the arguments `_p_resolveConflict` was called with (observable [P] of C10) -/
structure Call where
  cls : ClassId
  old : LState
  committed : LState
  new : LState
deriving DecidableEq, Repr

structure Result where
  out : Except Exc Record
  cache : List ClassId           -- `_unresolvable` afterwards
  call : Option Call             -- the resolver invocation, if it got that far

/-- body of the `try:` block of `tryToResolveConflict`, statement by statement.
    `loadSerial` is the storage's `loadSerial(oid, serial)` (`none` = POSKeyError). -/
def tryCore (E : Env) (loadSerial : Oid → Tid → Option Record) (cache : List ClassId)
    (oid : Oid) (committedSerial oldSerial : Tid) (newpickle : Record)
    (committedData : Option Record) : Result :=
  let c := newpickle.hdr.cls
  -- meta = unpickler.load(); klass comes out of find_global
  match findGlobal E.ci c with
  | .bad _ | .named _ =>
    -- `klass in _unresolvable` is False for a fresh BadClass instance; `klass.__new__(klass)` raises
    { out := .error .badClass, cache := cache, call := none }
  | .cls _ =>
    if c ∈ cache then
      { out := .error .conflict, cache := cache, call := none }
    else if !(E.ci c).hasResolver then
      -- AttributeError: `_unresolvable[klass] = 1; raise ConflictError`
      { out := .error .conflict, cache := c :: cache, call := none }
    else
      match loadSerial oid oldSerial with          -- oldData = self.loadSerial(oid, oldSerial)
      | none => { out := .error .keyError, cache := cache, call := none }
      | some oldData =>
        -- if not committedData: committedData = self.loadSerial(oid, committedSerial)
        match (match committedData with
               | some d => some d
               | none => loadSerial oid committedSerial) with
        | none => { out := .error .keyError, cache := cache, call := none }
        | some committedD =>
          let newstate := loadState E.ci newpickle.state
          let old := loadState E.ci oldData.state
          let committed := loadState E.ci committedD.state
          let call : Call := { cls := c, old := old, committed := committed, new := newstate }
          match E.resolver c old committed newstate with
          | .error .conflict => { out := .error .conflict, cache := cache, call := some call }
          | .error (.other n) => { out := .error (.resolverRaised n), cache := cache, call := some call }
          | .ok resolved =>
            -- pickler.dump(meta); pickler.dump(resolved)
            { out := .ok { hdr := newpickle.hdr, state := dumpState resolved },
              cache := cache, call := some call }

/-- `except (ConflictError, BadClassName)` / bare `except:` / final `raise ConflictError(...)` -/
def funnel {α : Type} (oid : Oid) (committedSerial oldSerial : Tid) :
    Except Exc α → Except ConflictErr α
  | .ok a => .ok a
  | .error _ => .error { oid := oid, committedSerial := committedSerial, oldSerial := oldSerial }

structure TryResult where
  out : Except ConflictErr Record
  cache : List ClassId
  call : Option Call

/-- `tryToResolveConflict(self, oid, committedSerial, oldSerial, newpickle, committedData=b'')` -/
def tryToResolve (E : Env) (loadSerial : Oid → Tid → Option Record) (cache : List ClassId)
    (oid : Oid) (committedSerial oldSerial : Tid) (newpickle : Record)
    (committedData : Option Record) : TryResult :=
  let r := tryCore E loadSerial cache oid committedSerial oldSerial newpickle committedData
  { out := funnel oid committedSerial oldSerial r.out, cache := r.cache, call := r.call }

/-! ### the call from `FileStorage._transactionalUndoRecord`

    `data = self.tryToResolveConflict(oid, ctid, tid, pre_data, current_data)` where `tid` is the
    transaction being undone, `ctid`/`current_data` the current revision and `pre_data` the revision
    before the undone one; `except ConflictError: pass` then `raise UndoError`. -/

inductive UndoErr where
  | undoError
deriving DecidableEq, Repr

structure UndoResult where
  out : Except UndoErr Record
  cache : List ClassId
  call : Option Call

def undoResolve (E : Env) (loadSerial : Oid → Tid → Option Record) (cache : List ClassId)
    (oid : Oid) (ctid undoneTid : Tid) (preData currentData : Record) : UndoResult :=
  let r := tryToResolve E loadSerial cache oid ctid undoneTid preData (some currentData)
  { out := (match r.out with | .ok d => .ok d | .error _ => .error .undoError),
    cache := r.cache, call := r.call }

end ZodbModel.Resolve
