/-
  Model of `ZODB.MappingStorage.MappingStorage` (src/ZODB/MappingStorage.py) for C04.

  `_data : {oid -> OOBucket {tid -> pickle}}` and `_transactions : OOBTree {tid -> TransactionRecord}`
  are idealised as association lists kept sorted by key (BTrees behave as sorted maps — trusted, see
  C19); `_tdata` is a Python dict: assignment keeps the position of an existing key.
  Queries follow the code: `keys(None, before - 1)`, `keys(tid, None)`, `maxKey()`, `keys()[-size:]`,
  `values(start, end)`.
-/
import ZodbModel.Basic
import ZodbModel.Tid
import ZodbModel.History
namespace ZodbModel.Mapping
open ZodbModel.History (Err Rec Txn HistEntry)

abbrev AL (α : Type) := List (Nat × α)

/-- `d.get(k)` -/
def alGet {α} (k : Nat) : AL α → Option α
  | [] => none
  | (k', v) :: t => if k = k' then some v else alGet k t

/-- `d[k] = v` on a sorted map -/
def alSet {α} (k : Nat) (v : α) : AL α → AL α
  | [] => [(k, v)]
  | (k', v') :: t =>
    if k < k' then (k, v) :: (k', v') :: t
    else if k = k' then (k, v) :: t
    else (k', v') :: alSet k v t

/-- `d[k] = v` on a Python dict (insertion ordered) -/
def dictSet {α} (k : Nat) (v : α) : AL α → AL α
  | [] => [(k, v)]
  | (k', v') :: t => if k = k' then (k, v) :: t else (k', v') :: dictSet k v t

structure MTxn where
  tid : Nat
  user : Bytes
  desc : Bytes
  ext : Bytes
  data : AL Bytes            -- TransactionRecord.data = the `_tdata` dict
deriving Repr, DecidableEq

structure Staged where
  tid : Nat
  user : Bytes
  desc : Bytes
  ext : Bytes
  tdata : AL Bytes
deriving Repr, DecidableEq

structure MS where
  data : AL (AL Bytes)       -- `_data`
  txns : AL MTxn             -- `_transactions`, sorted by tid
  ltid : Nat                 -- `_ltid`
  txn : Option Staged
deriving Repr, DecidableEq

def init : MS := ⟨[], [], 0, none⟩

/-- `self._data.get(oid)` when truthy (a non-empty bucket) -/
def tidData (m : MS) (oid : Nat) : Option (AL Bytes) :=
  match alGet oid m.data with
  | some (x :: l) => some (x :: l)
  | _ => none

/-- `loadBefore(oid, tid)` -/
def loadBefore (m : MS) (oid b : Nat) : Except Err (Option (Bytes × Nat × Option Nat)) :=
  match tidData m oid with
  | none => .error .keyError
  | some td =>
    if b = 0 then .ok none
    else
      match (td.filter fun kv => kv.1 ≤ b - 1).getLast? with     -- tid_data.keys(None, before - 1)
      | none => .ok none
      | some (t, d) => .ok (some (d, t, ((td.filter fun kv => b ≤ kv.1).head?).map (·.1)))

/-- `load = load_current`: `loadBefore(oid, maxtid)`, `None` → POSKeyError -/
def load (m : MS) (oid : Nat) : Except Err (Bytes × Nat) :=
  match loadBefore m oid (2 ^ 64 - 1) with
  | .error e => .error e
  | .ok none => .error .keyError
  | .ok (some (d, t, _)) => .ok (d, t)

/-- `loadSerial(oid, serial)` -/
def loadSerial (m : MS) (oid serial : Nat) : Except Err Bytes :=
  match tidData m oid with
  | none => .error .keyError
  | some td =>
    match alGet serial td with
    | some d => .ok d
    | none => .error .keyError

/-- `getTid(oid)`: `tid_data.maxKey()` -/
def getTid (m : MS) (oid : Nat) : Except Err Nat :=
  match tidData m oid with
  | none => .error .keyError
  | some td =>
    match td.getLast? with
    | some (t, _) => .ok t
    | none => .error .keyError

def lastTransaction (m : MS) : Nat := m.ltid

/-- `history(oid, size)` for `size ≥ 1`: `tids = tid_data.keys()[-size:]; tids.reverse()` -/
def history (m : MS) (oid n : Nat) : Except Err (List HistEntry) :=
  match tidData m oid with
  | none => .error .keyError
  | some td =>
    .ok ((td.reverse.take n).filterMap fun kv =>
      (alGet kv.1 m.txns).map fun t => ⟨kv.1, t.user, t.desc, t.ext, kv.2.length⟩)

def toTxn (t : MTxn) : Txn :=
  ⟨t.tid, History.stNormal, t.user, t.desc, t.ext, t.data.map fun od => ⟨od.1, some od.2, none⟩⟩

/-- `iterator(start, end)`: `self._transactions.values(start, end)` -/
def iterator (m : MS) (start stop : Option Nat) : List Txn :=
  (m.txns.filter fun kt =>
    (match start with | none => true | some a => decide (a ≤ kt.1)) &&
    (match stop with | none => true | some b => decide (kt.1 ≤ b))).map fun kt => toTxn kt.2

/-! ### transitions -/

inductive OpErr where
  | conflict | storageTxn | busy
deriving Repr, DecidableEq

abbrev Res := Except OpErr Unit

/-- `tpc_begin(txn, tid)`: `tid = newTid(self._transactions.maxKey() or None)` -/
def beginTid (m : MS) (tid? : Option Nat) (now : Nat) : Nat :=
  match tid? with
  | some t => t
  | none =>
    match m.txns.getLast? with
    | none => now
    | some (old, _) => Tid.later now old

def begin (m : MS) (tid? : Option Nat) (now : Nat) (u d e : Bytes) : MS × Res :=
  match m.txn with
  | some _ => (m, .error .busy)
  | none => ({ m with txn := some ⟨beginTid m tid? now, u, d, e, []⟩ }, .ok ())

/-- `serial != old_tid` for an object with committed revisions -/
def storeConflict (m : MS) (oid serial : Nat) : Bool :=
  match tidData m oid with
  | none => false
  | some td =>
    match td.getLast? with
    | some (old, _) => serial != old
    | none => false

/-- `store(oid, serial, data, '', txn)` -/
def store (m : MS) (oid serial : Nat) (data : Bytes) : MS × Res :=
  match m.txn with
  | none => (m, .error .storageTxn)
  | some st =>
    if storeConflict m oid serial then (m, .error .conflict)
    else ({ m with txn := some { st with tdata := dictSet oid data st.tdata } }, .ok ())

/-- `tpc_finish`: `for oid in tdata: _data[oid][tid] = tdata[oid]`; `_ltid = tid`;
    `_transactions[tid] = TransactionRecord(tid, txn, tdata)` -/
def finish (m : MS) : MS × Res :=
  match m.txn with
  | none => (m, .error .storageTxn)
  | some st =>
    let data := st.tdata.foldl (fun acc od =>
      alSet od.1 (alSet st.tid od.2 ((alGet od.1 acc).getD [])) acc) m.data
    ({ data := data, txns := alSet st.tid ⟨st.tid, st.user, st.desc, st.ext, st.tdata⟩ m.txns,
       ltid := st.tid, txn := none }, .ok ())

def abort (m : MS) : MS × Res := ({ m with txn := none }, .ok ())

inductive Op where
  | begin (tid? : Option Nat) (now : Nat) (u d e : Bytes)
  | store (oid serial : Nat) (data : Bytes)
  | finish | abort
deriving Repr

def step (m : MS) : Op → MS × Res
  | .begin tid? now u d e => begin m tid? now u d e
  | .store oid serial data => store m oid serial data
  | .finish => finish m
  | .abort => abort m

/-- the committed transactions in tid order -/
def abs (m : MS) : History.History := m.txns.map fun kt => toTxn kt.2

end ZodbModel.Mapping
