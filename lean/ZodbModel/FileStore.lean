/-
  Record-level model of `ZODB.FileStorage.FileStorage` (src/ZODB/FileStorage/FileStorage.py,
  format.py; DESIGN 3.3).

  Representation.  The committed file is the list of its transactions kept NEWEST FIRST, every
  transaction holding its data records newest first.  A file offset is identified with the encoded
  size of the part of the file in front of it:

      offset of transaction `t` in `t :: older`   =  logEnd older            (4 = len "FS21")
      offset of record `r` in `r :: olderRecs`    =  tpos + hdrLen t + recsSize olderRecs
      record size  = 42 + (len data | 8 for a back pointer)      (DATA_HDR_LEN, `recordlen`)
      header size  = 23 + ulen + dlen + elen                     (TRANS_HDR_LEN, `headerlen`)
      transaction  = header + records + 8 (redundant length)

  so that "seek(pos); read header" (`recAt`) and every pointer walk (`index → prev → prev …`,
  `back → back …`) is structural recursion on the list: a pointer either lies in the newest
  transaction, or the walk continues in the older part.  The in-memory index is an association list
  (first binding wins; `index.update(tindex)` = prepend).  Data is opaque: conflict resolution and
  undo's three-way merge always fail on it (`tryToResolveConflict` raises ConflictError).

  What follows the code, function by function:
    recAt            FileStorageFormatter._read_data_header
    loadBack         FileStorageFormatter._loadBack_impl (fail = True / False: `none`)
    chain + *Go      the `while` loops of loadSerial / loadBefore / history over `h.prev`
    load loadSerial loadBefore getTid history lastTransaction
    iterator         FileIterator (_skip_to_start with both scan directions, __next__),
                     TransactionRecordIterator (data through back pointers, one-hop data_txn)
    undoLog          UndoSearch (`finished()`: `pos <= 4`)
    txnFind dataFind FileStorage._txn_find (`while pos > 4`), _data_find
    begin store delete restore undo vote finish abort
                     tpc_begin/_begin, store, deleteObject, restore, undo/_txn_undo_write/
                     _transactionalUndoRecord/_undoDataInfo, tpc_vote, tpc_finish/_finish_finish, tpc_abort
    readIndex reopen read_index (forward scan accumulating positions), FileStorage.__init__
-/
import ZodbModel.Basic
import ZodbModel.Tid
import ZodbModel.History
namespace ZodbModel.FileStore
open ZodbModel.History (Err Rec Txn HistEntry UndoEntry stNormal stPacked)

/-! ### the file -/

inductive Body where
  | data (d : Bytes)       -- plen > 0: the pickle
  | back (p : Nat)         -- plen = 0: 8-byte back pointer (0: object does not exist)
deriving Repr, DecidableEq

structure DRec where
  oid : Nat
  tid : Nat
  prev : Nat               -- offset of the previous committed record of the oid (0: none)
  body : Body
deriving Repr, DecidableEq

/-- `DataHeader.plen` -/
def DRec.plen (r : DRec) : Nat := match r.body with | .data d => d.length | .back _ => 0
/-- `DataHeader.recordlen()` = 42 + (plen or 8) -/
def DRec.size (r : DRec) : Nat := 42 + (match r.body with | .data d => d.length | .back _ => 8)

structure FTxn where
  tid : Nat
  status : Nat
  user : Bytes
  desc : Bytes
  ext : Bytes
  recs : List DRec         -- newest first (reverse file order)
deriving Repr, DecidableEq

def recsSize : List DRec → Nat
  | [] => 0
  | r :: older => recsSize older + r.size

/-- `TxnHeader.headerlen()` -/
def FTxn.hdrLen (t : FTxn) : Nat := 23 + t.user.length + t.desc.length + t.ext.length
/-- the `tlen` field -/
def FTxn.tlen (t : FTxn) : Nat := t.hdrLen + recsSize t.recs
def FTxn.size (t : FTxn) : Nat := t.tlen + 8

abbrev Log := List FTxn    -- newest first

/-- file size of a log = offset just past its newest transaction (`_pos`) -/
def logEnd : Log → Nat
  | [] => 4
  | t :: older => logEnd older + t.size

abbrev Index := List (Nat × Nat)

/-- `index.get(oid, 0)` -/
def idxGet : Index → Nat → Nat
  | [], _ => 0
  | (k, v) :: rest, oid => if k = oid then v else idxGet rest oid

/-- the record starting at offset `p` among the records of one transaction whose first record
    starts at `base` -/
def recAtIn (base : Nat) : List DRec → Nat → Option DRec
  | [], _ => none
  | r :: older, p => if p = base + recsSize older then some r else recAtIn base older p

/-- `_read_data_header(p)`: the data record at offset `p`, with its transaction (`h.tloc`) -/
def recAt : Log → Nat → Option (FTxn × DRec)
  | [], _ => none
  | t :: older, p =>
    if logEnd older ≤ p then (recAtIn (logEnd older + t.hdrLen) t.recs p).map fun r => (t, r)
    else recAt older p

/-- the records visited by `pos = index[oid]; while …: h = read(pos); …; pos = h.prev` -/
def chain : Log → Nat → List (FTxn × DRec)
  | [], _ => []
  | t :: older, p =>
    if logEnd older ≤ p then
      match recAtIn (logEnd older + t.hdrLen) t.recs p with
      | none => []
      | some r => (t, r) :: chain older r.prev
    else chain older p

/-- `_loadBack_impl(oid, back)`: follow back pointers to the bytes; `none` = the chain ends in a
    zero back pointer (POSKeyError with `fail=True`, `None` data with `fail=False`) -/
def loadBack : Log → Nat → Option Bytes
  | [], _ => none
  | t :: older, p =>
    if logEnd older ≤ p then
      match recAtIn (logEnd older + t.hdrLen) t.recs p with
      | none => none
      | some r =>
        match r.body with
        | .data d => some d
        | .back q => loadBack older q
    else loadBack older p

/-! ### the storage -/

structure Staged where
  tid : Nat
  status : Nat
  user : Bytes
  desc : Bytes
  ext : Bytes
  recs : List DRec         -- `_tfile`, newest first
  tindex : Index           -- `_tindex`
  voted : Bool             -- `_nextpos ≠ 0`
deriving Repr, DecidableEq

/-- `_thl` -/
def Staged.thl (st : Staged) : Nat := 23 + st.user.length + st.desc.length + st.ext.length

structure FS where
  log : Log
  index : Index            -- `_index`
  pos : Nat                -- `_pos`
  ltid : Nat               -- `_ltid`
  ts : Nat                 -- `_ts`
  txn : Option Staged      -- `_transaction`, `_tfile`, `_tindex`, `_ude`, `_tid`, `_tstatus`
deriving Repr, DecidableEq

/-- a newly created storage (`_ts = TimeStamp(z64)` after the empty `read_index`) -/
def init : FS := { log := [], index := [], pos := 4, ltid := 0, ts := 0, txn := none }

/-! ### queries -/

/-- bytes of a record found by a load: its own, or through its back pointer -/
def recData (log : Log) (r : DRec) : Option Bytes :=
  match r.body with
  | .data d => some d
  | .back q => if q = 0 then none else loadBack log q

/-- `load(oid)` -/
def load (s : FS) (oid : Nat) : Except Err (Bytes × Nat) :=
  let pos := idxGet s.index oid
  if pos = 0 then .error .keyError
  else match recAt s.log pos with
    | none => .error .corrupted
    | some (_, h) =>
      match recData s.log h with
      | some d => .ok (d, h.tid)
      | none => .error .keyError

/-- loop of `loadSerial` over the visited records (`tidOf` reads `h.tid`):
    `if h.tid == serial: break; pos = h.prev; if h.tid < serial or not pos: raise` -/
def loadSerialGo {α : Type} (tidOf : α → Nat) (serial : Nat) : List α → Option α
  | [] => none
  | h :: rest =>
    if tidOf h = serial then some h
    else if tidOf h < serial then none
    else loadSerialGo tidOf serial rest

/-- `loadSerial(oid, serial)` -/
def loadSerial (s : FS) (oid serial : Nat) : Except Err Bytes :=
  let pos := idxGet s.index oid
  if pos = 0 then .error .keyError
  else match loadSerialGo (fun th => th.2.tid) serial (chain s.log pos) with
    | none => .error .keyError
    | some (_, h) =>
      match recData s.log h with
      | some d => .ok d
      | none => .error .keyError

/-- loop of `loadBefore` over the visited records (`tidOf` reads `h.tid`):
    `if h.tid < tid: break; pos = h.prev; end_tid = h.tid; if not pos: return None` -/
def loadBeforeGo {α : Type} (tidOf : α → Nat) (b : Nat) : Option Nat → List α → Option (α × Option Nat)
  | _, [] => none
  | e, h :: rest => if tidOf h < b then some (h, e) else loadBeforeGo tidOf b (some (tidOf h)) rest

/-- `loadBefore(oid, tid)` -/
def loadBefore (s : FS) (oid b : Nat) : Except Err (Option (Bytes × Nat × Option Nat)) :=
  let pos := idxGet s.index oid
  if pos = 0 then .error .keyError
  else match loadBeforeGo (fun th => th.2.tid) b none (chain s.log pos) with
    | none => .ok none
    | some ((_, h), e) =>
      match recData s.log h with
      | some d => .ok (some (d, h.tid, e))
      | none => .error .keyError

/-- `getTid(oid)` -/
def getTid (s : FS) (oid : Nat) : Except Err Nat :=
  let pos := idxGet s.index oid
  if pos = 0 then .error .keyError
  else match recAt s.log pos with
    | none => .error .corrupted
    | some (_, h) =>
      match h.body with
      | .back 0 => .error .keyError            -- plen == 0 and back == 0: undone creation
      | _ => .ok h.tid

/-- `lastTransaction()` -/
def lastTransaction (s : FS) : Nat := s.ltid

/-- `history(oid, size=n)` -/
def history (s : FS) (oid n : Nat) : Except Err (List HistEntry) :=
  let pos := idxGet s.index oid
  if pos = 0 then .error .keyError
  else .ok (((chain s.log pos).take n).map fun th => ⟨th.2.tid, th.1.user, th.1.desc, th.1.ext, th.2.plen⟩)

/-- what `TransactionRecordIterator.__next__` yields for a record: bytes through the back pointer
    chain (`_loadBackTxn(oid, back, False)`), `data_txn` = tid of the record the pointer names
    (`getTxnFromData`, one hop) -/
def absRec (log : Log) (r : DRec) : Rec :=
  match r.body with
  | .data d => ⟨r.oid, some d, none⟩
  | .back q =>
    if q = 0 then ⟨r.oid, none, none⟩
    else ⟨r.oid, loadBack log q, (recAt log q).map fun th => th.2.tid⟩

/-- a transaction as the iterator reports it, resolving pointers in `log` -/
def absTxn (log : Log) (t : FTxn) : Txn :=
  ⟨t.tid, t.status, t.user, t.desc, t.ext, t.recs.reverse.map (absRec log)⟩

/-- `FileIterator._scan_forward(4, start)` over the transactions in file order -/
def scanForward (start : Nat) : List FTxn → List FTxn
  | [] => []
  | t :: rest => if start ≤ t.tid then t :: rest else scanForward start rest

/-- `FileIterator._scan_backward(pos2, start)`: `older` = transactions in front of `pos`, newest
    first; `acc` = those from `pos` on, in file order -/
def scanBackward (start : Nat) : List FTxn → List FTxn → List FTxn
  | [], acc => acc
  | t :: older, acc =>
    if t.tid ≤ start then (if t.tid = start then t :: acc else acc)
    else scanBackward start older (t :: acc)

/-- `FileIterator._skip_to_start(start)`: the transactions from the first one with `tid ≥ start`
    on, in file order.  `back` = outcome of the timestamp-distance heuristic (scan backward). -/
def skipToStart (start : Nat) (back : Bool) (log : Log) : List FTxn :=
  match log.reverse, log with
  | t1 :: fwd, tl :: older =>
    if start < t1.tid then t1 :: fwd
    else if start = t1.tid then t1 :: fwd
    else if tl.tid ≤ start then (if tl.tid = start then [tl] else [])
    else if back then scanBackward start older [tl] else scanForward start (t1 :: fwd)
  | _, _ => []

/-- status byte `'c'`: voted, `tpc_finish` has not cleared the checkpoint flag yet -/
def stCheckpoint : Nat := 99

/-- what a reader of the data file finds: after `tpc_vote` the file ends with the complete record of
    the voted transaction, checkpoint flag still set (a `FileIterator` opens the file by name) -/
def fileLog (s : FS) : Log :=
  match s.txn with
  | some st =>
    if st.voted then ⟨st.tid, stCheckpoint, st.user, st.desc, st.ext, st.recs⟩ :: s.log else s.log
  | none => s.log

/-- `FileIterator.__next__`: until `h.tid > stop` or `h.status == 'c'` (the in-progress transaction) -/
def iterTake (stop : Option Nat) (l : List FTxn) : List FTxn :=
  l.takeWhile fun t =>
    (match stop with
     | none => true
     | some b => decide (t.tid ≤ b)) && t.status != stCheckpoint

/-- where the iteration starts: at offset 4, or where `_skip_to_start` lands -/
def iterFrom (start : Option Nat) (back : Bool) (log : Log) : List FTxn :=
  match start with
  | none => log.reverse
  | some a => skipToStart a back log

/-- `iterator(start, stop)` -/
def iterator (s : FS) (start stop : Option Nat) (back : Bool) : List Txn :=
  (iterTake stop (iterFrom start back (fileLog s))).map (absTxn (fileLog s))

def undoEntry (t : FTxn) : UndoEntry := ⟨t.tid, t.user, t.desc, t.ext, t.tlen⟩

/-- `UndoSearch`: `i` = number of matching transactions found so far (a transaction the filter
    rejects is not counted); the head of the list is the transaction ending at `self.pos` -/
def undoSearch (p : UndoEntry → Bool) (first last : Nat) : Nat → Log → List UndoEntry
  | _, [] => []
  | i, t :: older =>
    if last ≤ i ∨ logEnd (t :: older) ≤ 4 then []           -- finished(): `self.pos <= 4` (was `< 39`)
    else if t.status = stPacked then []                       -- stop
    else if t.status ≠ stNormal ∨ p (undoEntry t) = false then undoSearch p first last i older
    else (if first ≤ i then [undoEntry t] else []) ++ undoSearch p first last (i + 1) older

/-- `undoLog(first, last, filter)` for `last ≥ 0` (a negative `last` is normalised to `first - last`) -/
def undoLogF (s : FS) (p : UndoEntry → Bool) (first last : Nat) : List UndoEntry :=
  undoSearch p first last 0 s.log

/-- `undoLog(first, last)` without a filter -/
def undoLog (s : FS) (first last : Nat) : List UndoEntry := undoLogF s (fun _ => true) first last

/-- `lastInvalidations(n)` -/
def lastInvalidations (s : FS) (n : Nat) : List (Nat × List Nat) :=
  ((s.log.take n).reverse).map fun t => (t.tid, t.recs.reverse.map (·.oid))

/-- `index.minKey(k)` -/
def idxMinKey (ix : Index) (k : Nat) : Option Nat := ((ix.map (·.1)).filter fun o => k ≤ o).min?

/-- `record_iternext(next)` -/
def recordIterNext (s : FS) (next : Nat) : Except Err (Nat × Nat × Bytes × Option Nat) :=
  match idxMinKey s.index next with
  | none => .error .valueError
  | some oid =>
    match load s oid with
    | .error e => .error e
    | .ok (d, tid) => .ok (oid, tid, d, idxMinKey s.index (oid + 1))

/-! ### transitions -/

inductive OpErr where
  | keyError            -- POSKeyError
  | conflict            -- ConflictError (resolution of opaque data fails)
  | undoError           -- UndoError / MultipleUndoErrors
  | storageTxn          -- StorageTransactionError: no such transaction in progress
  | fileStorageError    -- FileStorageError: metadata field longer than 65535
  | typeError           -- TypeError (`len(None)` in `_data_find`)
  | busy                -- tpc_begin while another transaction holds the commit lock (would block)
  | notVoted            -- tpc_finish without tpc_vote (outside the protocol)
deriving Repr, DecidableEq

abbrev Res := Except OpErr Unit

/-- append one record to the temp file: `here = pos + tfile.tell() + thl; tindex[oid] = here` -/
def stage (s : FS) (st : Staged) (r : DRec) : FS :=
  { s with txn := some { st with recs := r :: st.recs,
                                 tindex := (r.oid, s.pos + recsSize st.recs + st.thl) :: st.tindex } }

/-- the tid of a new transaction: the explicit one, or `laterThan(now, _ts)` -/
def beginTid (s : FS) (tid? : Option Nat) (now : Nat) : Nat :=
  match tid? with
  | some t => t
  | none => Tid.newTid s.ts now

/-- `tpc_begin(txn, tid, status)` + `_begin` -/
def begin (s : FS) (tid? : Option Nat) (now status : Nat) (u d e : Bytes) : FS × Res :=
  match s.txn with
  | some _ => (s, .error .busy)
  | none =>
    let st : Staged := ⟨beginTid s tid? now, status, u, d, e, [], [], false⟩
    -- the transaction is registered before `_begin` checks the lengths: on error the caller aborts
    ({ s with ts := st.tid, txn := some st },
     if 65535 < st.thl ∧ (65535 < u.length ∨ 65535 < d.length ∨ 65535 < e.length) then
       .error .fileStorageError
     else .ok ())

/-- tid of the committed record at `old` differs from `serial` (`oldserial != committed_tid`) -/
def serialMismatch (s : FS) (old serial : Nat) : Bool :=
  match recAt s.log old with
  | some (_, h) => h.tid != serial
  | none => true

/-- `store(oid, oldserial, data, '', txn)` -/
def store (s : FS) (oid serial : Nat) (data : Bytes) : FS × Res :=
  match s.txn with
  | none => (s, .error .storageTxn)
  | some st =>
    let old := idxGet s.index oid
    if old ≠ 0 ∧ serialMismatch s old serial then (s, .error .conflict)
    else (stage s st ⟨oid, st.tid, old, .data data⟩, .ok ())

/-- `deleteObject(oid, oldserial, txn)` -/
def delete (s : FS) (oid serial : Nat) : FS × Res :=
  match s.txn with
  | none => (s, .error .storageTxn)
  | some st =>
    let old := idxGet s.index oid
    if old = 0 then (s, .error .keyError)
    else if serialMismatch s old serial then (s, .error .conflict)
    else (stage s st ⟨oid, st.tid, old, .back 0⟩, .ok ())

/-- `_txn_find(tid, _)`: the transaction with id `tid` and the log in front of it; `while pos > 4`
    (was `pos > 39` before the repair of the skipped short first transaction) -/
def txnFind (tid : Nat) : Log → Option (FTxn × Log)
  | [] => none
  | t :: older =>
    if 4 < logEnd (t :: older) then (if t.tid = tid then some (t, older) else txnFind tid older)
    else none

/-- the newest record of `oid` among the records of one transaction, with its offset -/
def lastRecIn (base : Nat) : List DRec → Nat → Option (DRec × Nat)
  | [], _ => none
  | r :: older, oid =>
    if r.oid = oid then some (r, base + recsSize older) else lastRecIn base older oid

/-- `_data_find(tpos, oid, data)`: offset to point back to, 0 if none -/
def dataFind (base : Nat) (recs : List DRec) (oid : Nat) (data : Option Bytes) : Except OpErr Nat :=
  match lastRecIn base recs oid with
  | none => .ok 0
  | some (h, p) =>
    match h.body with
    | .back _ => .ok p                       -- "This is also a backpointer, Gotta trust it."
    | .data d =>
      match data with
      | none => .error .typeError
      | some d' => if d.length ≠ d'.length then .ok 0 else if d = d' then .ok p else .ok 0

/-- the back pointer `restore` computes from its `prev_txn` hint (0: none) -/
def restorePrevPos (s : FS) (oid : Nat) (data : Option Bytes) (prevTxn : Option Nat) : Except OpErr Nat :=
  match prevTxn with
  | none => .ok 0
  | some pt =>
    match txnFind pt s.log with
    | none => .ok 0                                      -- just a hint: UndoError is swallowed
    | some (t, older) => dataFind (logEnd older + t.hdrLen) t.recs oid data

/-- what `restore` writes after the data header -/
def restoreBody (pp : Nat) (data : Option Bytes) : Body :=
  if pp ≠ 0 then .back pp
  else match data with
    | none => .back 0
    | some d => .data d

/-- `restore(oid, serial, data, '', prev_txn, txn)` -/
def restore (s : FS) (oid serial : Nat) (data : Option Bytes) (prevTxn : Option Nat) : FS × Res :=
  match s.txn with
  | none => (s, .error .storageTxn)
  | some st =>
    match restorePrevPos s oid data prevTxn with
    | .error e => (s, .error e)
    | .ok pp => (stage s st ⟨oid, serial, idxGet s.index oid, restoreBody pp data⟩, .ok ())

/-- records of a transaction with their offsets, newest first -/
def withPos (base : Nat) : List DRec → List (DRec × Nat)
  | [] => []
  | r :: older => (r, base + recsSize older) :: withPos base older

/-- `_transactionalUndoRecord(oid, pos, tid, pre)` for the committed record `h` at `pos`:
    `some (back, prev)` for the undo record to write, `none` = UndoError -/
def undoRecord (s : FS) (st : Staged) (h : DRec) (pos : Nat) : Option (Nat × Nat) :=
  let tpos := idxGet st.tindex h.oid
  let ipos := idxGet s.index h.oid
  let tipos := if tpos ≠ 0 then tpos else ipos
  let pre := h.prev
  let copy : Option Bool :=
    if tipos = pos then some true
    else
      -- `_undoDataInfo(oid, ipos, tpos)`
      let cur : Option DRec :=
        if tpos ≠ 0 then recAtIn (s.pos + st.thl) st.recs tpos
        else (recAt s.log ipos).map (·.2)
      match cur with
      | none => none
      | some c =>
        let cdataptr := match c.body with | .data _ => tipos | .back q => q
        if cdataptr = pos then some true
        else
          match loadBack s.log pos with
          | none => none                                   -- "_loadBack() failed"
          | some undone =>
            let current := match c.body with | .data d => some d | .back q => loadBack s.log q
            match current with
            | none => none
            | some cd =>
              if undone = cd then some true
              else if pre = 0 then none                    -- "Can't undo an add transaction followed by…"
              else some false
  match copy with
  | none => none
  | some cp =>
    if pre = 0 then some (0, ipos)
    else if cp then some (pre, ipos)
    else none                                              -- three-way merge of opaque data fails

/-- loop of `_txn_undo_write` over the records of the undone transaction in file order:
    new records (newest first) and the oids whose undo failed so far -/
def undoLoop (s : FS) (st : Staged) : List (DRec × Nat) → List DRec × List Nat → List DRec × List Nat
  | [], acc => acc
  | (h, pos) :: rest, (new, failures) =>
    let failures := failures.filter (· ≠ h.oid)           -- "second chance!"
    match undoRecord s st h pos with
    | none => undoLoop s st rest (new, h.oid :: failures)
    | some (back, prev) => undoLoop s st rest (⟨h.oid, st.tid, prev, .back back⟩ :: new, failures)

/-- `undo(transaction_id, txn)` (after a failure the caller has to abort: the partially written temp
    file of the real code is not modelled) -/
def undo (s : FS) (tid : Nat) : FS × Res :=
  match s.txn with
  | none => (s, .error .storageTxn)
  | some st =>
    match txnFind tid s.log with
    | none => (s, .error .undoError)                       -- "Invalid transaction id"
    | some (t, older) =>
      if t.status ≠ stNormal then (s, .error .undoError)  -- "non-undoable transaction"
      else
        match undoLoop s st (withPos (logEnd older + t.hdrLen) t.recs).reverse ([], []) with
        | (new, []) =>
          ((new.reverse.foldl (fun s' r => match s'.txn with
                                            | some st' => stage s' st' r
                                            | none => s') s), .ok ())
        | (_, _ :: _) => (s, .error .undoError)            -- MultipleUndoErrors

/-- `tpc_vote(txn)` -/
def vote (s : FS) : FS × Res :=
  match s.txn with
  | none => (s, .error .storageTxn)
  | some st => ({ s with txn := some { st with voted := true } }, .ok ())

def Staged.toTxn (st : Staged) : FTxn := ⟨st.tid, st.status, st.user, st.desc, st.ext, st.recs⟩

/-- `tpc_finish(txn)`: `_pos = _nextpos; _index.update(_tindex); _ltid = tid` -/
def finish (s : FS) : FS × Res :=
  match s.txn with
  | none => (s, .error .storageTxn)
  | some st =>
    if st.voted then
      ({ log := st.toTxn :: s.log, index := st.tindex ++ s.index, pos := s.pos + st.toTxn.size,
         ltid := st.tid, ts := s.ts, txn := none }, .ok ())
    else (s, .error .notVoted)

/-- `tpc_abort(txn)` -/
def abort (s : FS) : FS × Res := ({ s with txn := none }, .ok ())

/-- `read_index` inner loop: `tindex[h.oid] = pos; pos += dlen` over records in file order -/
def scanRecs : Index → Nat → List DRec → Index × Nat
  | ix, pos, [] => (ix, pos)
  | ix, pos, r :: rest => scanRecs ((r.oid, pos) :: ix) (pos + r.size) rest

/-- `read_index` outer loop body: one transaction at `pos`; `index.update(tindex)`; `ltid = tid` -/
def scanTxn (acc : Index × Nat × Nat) (t : FTxn) : Index × Nat × Nat :=
  let r := scanRecs [] (acc.2.1 + t.hdrLen) t.recs.reverse
  (r.1 ++ acc.1, r.2 + 8, t.tid)

/-- `read_index(file, …, start=4, ltid=z64)`: forward scan of the whole file → (index, pos, ltid) -/
def readIndex (log : Log) : Index × Nat × Nat := log.reverse.foldl scanTxn ([], 4, 0)

/-- `close(); FileStorage(name)`: index, `_pos`, `_ltid` from the scan, `_ts = TimeStamp(ltid)` -/
def reopen (s : FS) : FS :=
  let r := readIndex s.log
  { log := s.log, index := r.1, pos := r.2.1, ltid := r.2.2, ts := r.2.2, txn := none }

inductive Op where
  | begin (tid? : Option Nat) (now status : Nat) (u d e : Bytes)
  | store (oid serial : Nat) (data : Bytes)
  | delete (oid serial : Nat)
  | restore (oid serial : Nat) (data : Option Bytes) (prevTxn : Option Nat)
  | undo (tid : Nat)
  | vote | finish | abort | reopen
deriving Repr

def step (s : FS) : Op → FS × Res
  | .begin tid? now status u d e => begin s tid? now status u d e
  | .store oid serial data => store s oid serial data
  | .delete oid serial => delete s oid serial
  | .restore oid serial data prevTxn => restore s oid serial data prevTxn
  | .undo tid => undo s tid
  | .vote => vote s
  | .finish => finish s
  | .abort => abort s
  | .reopen => (reopen s, .ok ())

def run (s : FS) (ops : List Op) : FS := ops.foldl (fun s op => (step s op).1) s

/-! ### abstraction to a `History`, and the invariant of reachable states -/

def absLog : Log → List Txn
  | [] => []
  | t :: older => absTxn older t :: absLog older

/-- the history a storage state stands for: its committed transactions in commit order, back
    pointers resolved to bytes -/
def abs (s : FS) : History.History := (absLog s.log).reverse

/-- offset of the newest record of `oid` in a log, 0 if none (what the index should say) -/
def lastPos (oid : Nat) : Log → Nat
  | [] => 0
  | t :: older =>
    match lastRecIn (logEnd older + t.hdrLen) t.recs oid with
    | some (_, p) => p
    | none => lastPos oid older

def statusOk (st : Nat) : Prop := st ≠ 117 ∧ st ≠ 99      -- not 'u' (skipped by read_index), not 'c'

/-- a record written into a transaction with id `ttid` on top of the committed log `older` -/
def RecOk (older : Log) (ttid : Nat) (r : DRec) : Prop :=
  r.tid = ttid ∧ r.prev = lastPos r.oid older ∧
  (match r.body with
   | .data d => d ≠ []
   | .back q => q = 0 ∨ ∃ th, recAt older q = some th ∧ th.2.oid = r.oid)

def LogInv : Log → Prop
  | [] => True
  | t :: older =>
    (∀ t' ∈ older, t'.tid < t.tid) ∧ (∀ r ∈ t.recs, RecOk older t.tid r) ∧ statusOk t.status ∧
    LogInv older

def lastTid (log : Log) : Nat := (log.head?.map (·.tid)).getD 0

structure StagedInv (s : FS) (st : Staged) : Prop where
  recs : ∀ r ∈ st.recs, RecOk s.log st.tid r
  tid : s.ltid < st.tid
  ts : st.tid = s.ts
  status : statusOk st.status
  tindex : st.tindex = (withPos (s.pos + st.thl) st.recs).map fun rp => (rp.1.oid, rp.2)

structure Inv (s : FS) : Prop where
  log : LogInv s.log
  pos : s.pos = logEnd s.log
  index : ∀ oid, idxGet s.index oid = lastPos oid s.log
  idxpos : ∀ kv ∈ s.index, kv.2 ≠ 0
  ltid : s.ltid = lastTid s.log
  ts : s.ltid ≤ s.ts
  staged : ∀ st, s.txn = some st → StagedInv s st

/-- what the caller of the storage API owes (the theorems about `step` assume it) -/
def OpOk (s : FS) : Op → Prop
  | .begin tid? _ status _ _ _ =>
    statusOk status ∧ (match tid? with | some t => s.ltid < t | none => True)
  | .store _ _ data => data ≠ []
  | .restore _ serial data _ =>
    (∀ st, s.txn = some st → serial = st.tid) ∧ data ≠ some []
  | _ => True

end ZodbModel.FileStore
