/-
  Two-phase commit of `ZODB.FileStorage.FileStorage` at record level, with its raw file-operation
  trace and a fault parameter (C05); small machines for `MappingStorage` (optionally wrapped in a
  `BlobStorage`) and `DemoStorage` (both commit locks).  Core Lean only.

  Source followed (src/ZODB):
    BaseStorage.py      tpc_begin / tpc_abort (transaction-identity checks, commit lock)
    FileStorage.py      _begin (metadata length checks), store / deleteObject (conflict, quota —
                        checked AFTER the record went to the temp file), tpc_vote (header, records,
                        trailer, flush; `except:` truncates back to `_pos`), tpc_finish / _finish /
                        _finish_finish (status flip, fsync, `close()` on failure), _abort, _clear_temp
    blob.py             BlobStorageMixin._blob_storeblob / _blob_tpc_abort / _blob_tpc_finish,
                        BlobStorage.tpc_abort (foreign transaction ignored)
    MappingStorage.py   tpc_begin / store / tpc_vote / tpc_finish / tpc_abort
    DemoStorage.py      tpc_begin (records the transaction BEFORE delegating) / store / tpc_vote /
                        tpc_finish / tpc_abort

  Conventions.
  * A transaction object is a `TxnId`; "is" comparison of the code = equality of ids.
  * Payloads are `(dlen, tag)`: length and a name for the bytes (the theorems never look inside).
  * The committed file is the list `txns` (NEWEST FIRST, DESIGN 3.3); `pos` is the code's `_pos`;
    `fileLen` is the physical length of Data.fs (so garbage after `_pos` is visible).
  * `fault k` arms a one-shot fault: the k-th raw mutating file operation of the NEXT call raises
    (as harness/vfs.py `fail_at`); every call disarms it.  Raw operations per call:
      store / delete    1 = temp-file write of the 42-byte header, 2 = of the payload
      storeBlob         1, 2 as store, 3 = putting the blob file in place
      vote              (1 = flush of the temp file, only if something is staged), then one per
                        piece: transaction header, each record, 8-byte trailer.  Python's buffering
                        may cut the same bytes differently; any cut is a sequence of writes to
                        consecutive offsets >= `_pos`, which is all the theorems use.
      finish            1 = the one-byte status flip at `_pos + 16`
      begin / abort     faults not modelled (begin does no raw operation that matters; a failing
                        truncate inside tpc_abort itself is outside the property's quantifier)
  * Protocol misuse the model does not follow (returns `misuse`, no effect): `finish` that is not
    directly preceded by a successful vote of the same staging area (the code would write the
    status byte anyway and set `_pos` from a stale `_nextpos`).  Conflict resolution is C10's
    subject: here every serial mismatch is an unresolvable `ConflictError`.
  * After `close()` (only reachable through a failed finish) every call answers `closed`; the
    real object raises assorted errors on its closed files — not modelled further.
-/
import ZodbModel.Basic
namespace ZodbModel.TwoPC

abbrev Oid := Nat
abbrev Tid := Nat
abbrev TxnId := Nat

/-! ### association lists (dict / fsIndex as a map; order irrelevant to the theorems) -/

def lookup {α} (k : Nat) : List (Nat × α) → Option α
  | [] => none
  | (k', v) :: t => if k = k' then some v else lookup k t

def insert {α} (k : Nat) (v : α) : List (Nat × α) → List (Nat × α)
  | [] => [(k, v)]
  | (k', v') :: t => if k = k' then (k, v) :: t else (k', v') :: insert k v t

/-- `dict.update` -/
def update {α} (m : List (Nat × α)) (t : List (Nat × α)) : List (Nat × α) :=
  t.foldl (fun acc kv => insert kv.1 kv.2 acc) m

/-! ### records, transactions, events -/

structure Rec where
  oid : Oid
  tid : Tid
  prev : Nat          -- position of the previous committed record (index entry at store time), 0 = none
  del : Bool          -- deleteObject: no payload, 8-byte zero back pointer
  dlen : Nat
  tag : Nat
deriving DecidableEq, Repr

def dataHdrLen : Nat := 42
def transHdrLen : Nat := 23

def Rec.size (r : Rec) : Nat := dataHdrLen + (if r.del then 8 else r.dlen)

def recsSize : List Rec → Nat
  | [] => 0
  | r :: t => r.size + recsSize t

structure FTxn where
  tid : Tid
  status : Nat        -- character code: 32 = ' ', 112 = 'p'
  ul : Nat
  dl : Nat
  el : Nat
  recs : List Rec     -- file order
deriving DecidableEq, Repr

inductive File where
  | data | tmp | blob
deriving DecidableEq, Repr

inductive Ev where
  | write (f : File) (off len : Nat)
  | trunc (f : File) (size : Nat)
  | fsync (f : File)
  | fault (f : File)                 -- the raw operation that raised
  | blobAdd (oid : Oid) (tid : Tid)  -- rename of the uncommitted file to <oid>/<tid>.blob
  | blobDel (oid : Oid) (tid : Tid)
deriving DecidableEq, Repr

inductive Out where
  | ok
  | blocked        -- commit lock held by another transaction: the call would not return
  | errTxn         -- StorageTransactionError
  | errConflict    -- ConflictError
  | errQuota       -- FileStorageQuotaError
  | errMeta (which : Nat)   -- FileStorageError: 0 user name / 1 description / 2 extension too long
  | errIO          -- OSError from the file layer
  | errKey         -- POSKeyError
  | closed
  | misuse
  | errCallback    -- the exception of the callback handed to tpc_finish
deriving DecidableEq, Repr

inductive Op where
  | begin (t : TxnId) (tid : Tid) (status ul dl el : Nat)
  | store (t : TxnId) (oid : Oid) (serial : Tid) (dlen tag : Nat)
  | storeBlob (t : TxnId) (oid : Oid) (serial : Tid) (dlen tag : Nat)
  | delete (t : TxnId) (oid : Oid) (serial : Tid)
  | vote (t : TxnId)
  | finish (t : TxnId)
  | abort (t : TxnId)
  | fault (k : Nat)
deriving DecidableEq, Repr

/-! ### FileStorage -/

structure State where
  txns : List FTxn := []                  -- committed transactions, newest first
  pos : Nat := 4                          -- `_pos`
  fileLen : Nat := 4                      -- physical length of Data.fs
  index : List (Oid × Tid × Nat) := []    -- `_index`: oid ↦ (tid of the current record, its position)
  ltid : Tid := 0
  blobs : List (Oid × Tid) := []          -- committed blob files
  maxOid : Oid := 0                       -- `_oid` (NOT part of `obs`)
  tfile : List Rec := []                  -- temp file, in store order
  tindex : List (Oid × Tid × Nat) := []
  thl : Nat := 0
  nextpos : Nat := 0
  tid : Tid := 0
  tstatus : Nat := 32
  ude : Nat × Nat × Nat := (0, 0, 0)
  dirty : List (Oid × Tid) := []          -- `dirty_oids`: blob files put in place by this transaction
  txn : Option TxnId := none              -- `_transaction`
  commitLock : Option TxnId := none       -- holder of `_commit_lock`
  quota : Option Nat := none
  closed : Bool := false
  armed : Option Nat := none
deriving DecidableEq, Repr

abbrev Res := State × List Ev × Out

def clearTemp (s : State) : State := { s with tindex := [], tfile := [] }

/-- BaseStorage.tpc_begin + FileStorage._begin -/
def doBegin (s : State) (t : TxnId) (tid : Tid) (status ul dl el : Nat) : Res :=
  if s.txn = some t then (s, [], .errTxn)          -- "Duplicate tpc_begin calls for same transaction"
  else match s.commitLock with
    | some _ => (s, [], .blocked)
    | none =>
      let thl := transHdrLen + ul + dl + el
      let s1 : State := { s with commitLock := some t, txn := some t, tindex := [], tfile := [],
                                 ude := (ul, dl, el), tid := tid, tstatus := status,
                                 nextpos := 0, thl := thl }
      if thl > 65535 then
        if ul > 65535 then (s1, [], .errMeta 0)
        else if dl > 65535 then (s1, [], .errMeta 1)
        else if el > 65535 then (s1, [], .errMeta 2)
        else (s1, [], .ok)
      else (s1, [], .ok)

def overQuota (s : State) (here : Nat) : Bool :=
  match s.quota with
  | some q => decide (here > q)
  | none => false

/-- `self._index_get(oid, 0)`: position of the current committed record, 0 if there is none -/
def prevPos (index : List (Oid × Tid × Nat)) (oid : Oid) : Nat :=
  match lookup oid index with
  | some (_, p) => p
  | none => 0

/-- the common tail of store / deleteObject: tindex entry, two temp-file writes, quota check,
    then (storeBlob only) the blob file -/
def stage (s : State) (oid : Oid) (del : Bool) (dlen tag : Nat) (blob : Bool) : Res :=
  let old := prevPos s.index oid
  let off := recsSize s.tfile
  let here := s.pos + off + s.thl
  let r : Rec := { oid := oid, tid := s.tid, prev := old, del := del, dlen := dlen, tag := tag }
  let s1 : State := { s with tindex := insert oid (s.tid, here) s.tindex }
  if s.armed = some 1 ∨ s.armed = some 2 then (s1, [.fault .tmp], .errIO)
  else
    let s2 : State := { s1 with tfile := s1.tfile ++ [r] }
    let ev := [Ev.write .tmp off dataHdrLen, Ev.write .tmp (off + dataHdrLen) (r.size - dataHdrLen)]
    if overQuota s here then (s2, ev, .errQuota)
    else if blob then
      if s.armed = some 3 then (s2, ev ++ [.fault .blob], .errIO)
      else ({ s2 with dirty := (oid, s.tid) :: s2.dirty }, ev ++ [.blobAdd oid s.tid], .ok)
    else (s2, ev, .ok)

/-- FileStorage.store / BlobStorageMixin.storeBlob -/
def doStore (s : State) (t : TxnId) (oid : Oid) (serial : Tid) (dlen tag : Nat) (blob : Bool) : Res :=
  if s.txn ≠ some t then (s, [], .errTxn)
  else
    let s0 : State := { s with maxOid := max s.maxOid oid }
    match lookup oid s.index with
    | some (ctid, _) =>
      if serial ≠ ctid then (s0, [], .errConflict) else stage s0 oid false dlen tag blob
    | none => stage s0 oid false dlen tag blob

/-- FileStorage.deleteObject -/
def doDelete (s : State) (t : TxnId) (oid : Oid) (serial : Tid) : Res :=
  if s.txn ≠ some t then (s, [], .errTxn)
  else match lookup oid s.index with
    | none => (s, [], .errKey)
    | some (ctid, _) =>
      if serial ≠ ctid then (s, [], .errConflict) else stage s oid true 0 0 false

/-- sizes of the logical writes of tpc_vote: header+metadata, each record, trailer -/
def votePieces (s : State) : List Nat :=
  (s.thl :: s.tfile.map Rec.size) ++ [8]

/-- consecutive writes of `pieces` to the data file starting at `off` -/
def writesFrom (off : Nat) : List Nat → List Ev
  | [] => []
  | n :: t => Ev.write .data off n :: writesFrom (off + n) t

/-- FileStorage.tpc_vote -/
def doVote (s : State) (t : TxnId) : Res :=
  if s.txn ≠ some t then (s, [], .errTxn)
  else
    let tmpOps := if s.tfile = [] then 0 else 1
    let tmpEv := if s.tfile = [] then [] else [Ev.write .tmp 0 (recsSize s.tfile)]
    let pieces := votePieces s
    let tl := s.thl + recsSize s.tfile
    match s.armed with
    | some k =>
      if k = 0 ∨ k > tmpOps + pieces.length then
        ({ s with nextpos := s.pos + tl + 8, fileLen := max s.fileLen (s.pos + tl + 8) },
         tmpEv ++ writesFrom s.pos pieces, .ok)
      else if k ≤ tmpOps then
        -- `self._tfile.seek(0)` (outside the try block) raises: nothing touched the data file
        (s, [.fault .tmp], .errIO)
      else
        -- pieces before the failing one reached the file; `except:` truncates back to `_pos`
        ({ s with fileLen := s.pos },
         tmpEv ++ writesFrom s.pos (pieces.take (k - tmpOps - 1)) ++ [.fault .data, .trunc .data s.pos],
         .errIO)
    | none =>
      ({ s with nextpos := s.pos + tl + 8, fileLen := max s.fileLen (s.pos + tl + 8) },
       tmpEv ++ writesFrom s.pos pieces, .ok)

/-- the last file-affecting call was a successful vote of exactly the staged records -/
def voted (s : State) : Prop :=
  s.nextpos ≠ 0 ∧ s.fileLen = s.nextpos ∧ s.nextpos = s.pos + s.thl + recsSize s.tfile + 8

instance (s : State) : Decidable (voted s) := by unfold voted; exact inferInstance

/-- `op` passes the identity check of tpc_finish and reaches the status flip (the commit point) -/
def commits (s : State) : Op → Prop
  | .finish t => s.closed = false ∧ s.txn = some t ∧ voted s
  | _ => False

instance (s : State) (op : Op) : Decidable (commits s op) := by
  cases op <;> unfold commits <;> exact inferInstance

/-- FileStorage.tpc_finish / _finish / _finish_finish -/
def doFinish (s : State) (t : TxnId) : Res :=
  if s.txn ≠ some t then (s, [], .errTxn)
  else if ¬ voted s then (s, [], .misuse)
  else if s.armed = some 1 then
    -- the flush of the status byte raises: `_finish` logs, calls `close()` (whose own flush retries
    -- the byte) and re-raises; the `finally` of tpc_finish clears `_transaction`, releases the lock
    ({ s with closed := true, txn := none, commitLock := none },
     [.fault .data, .write .data (s.pos + 16) 1], .errIO)
  else
    let new : FTxn := { tid := s.tid, status := s.tstatus, ul := s.ude.1, dl := s.ude.2.1,
                        el := s.ude.2.2, recs := s.tfile }
    ({ s with txns := new :: s.txns, pos := s.nextpos, index := update s.index s.tindex,
              ltid := s.tid, blobs := s.dirty ++ s.blobs, dirty := [],
              tindex := [], tfile := [], txn := none, commitLock := none },
     [.write .data (s.pos + 16) 1, .fsync .data], .ok)

/-- `tpc_finish(t, f)` whose callback `f` raises.  `f(tid)` runs inside the `try` BEFORE `_finish`
    (nothing is committed), and the `finally` clause forgets the transaction and releases the lock —
    without undoing the vote: the voted bytes stay behind `_pos`, the staging area and the blob files
    stay, and a later `tpc_abort(t)` is ignored because `t` is no longer current.  Kept OUTSIDE `step`
    (the theorems' histories do not contain it); `Props.C05.finish_callback_*` exhibit the effect. -/
def doFinishCb (s : State) (t : TxnId) : Res :=
  if s.closed then (s, [], .closed)
  else if s.txn ≠ some t then (s, [], .errTxn)
  else ({ s with txn := none, commitLock := none, armed := none }, [], .errCallback)

/-- `tpc_abort(t)` whose `_abort` raises — the truncate that removes the voted records, or the removal
    of a blob file, fails: the `finally` of BaseStorage.tpc_abort still releases the commit lock, but
    `_clear_temp()` and `_transaction = None` are skipped and nothing is truncated.  Kept OUTSIDE `step`
    (a fault inside the abort cannot restore anything; what remains is "blocks no one"). -/
def doAbortFault (s : State) (t : TxnId) : Res :=
  if s.closed then (s, [], .closed)
  else if s.txn ≠ some t then (s, [], .ok)
  else ({ s with commitLock := none, armed := none }, [.fault .data], .errIO)

/-- BaseStorage.tpc_abort + FileStorage._abort + _blob_tpc_abort + _clear_temp -/
def doAbort (s : State) (t : TxnId) : Res :=
  if s.txn ≠ some t then (s, [], .ok)      -- silently ignored
  else
    let ev1 := if s.nextpos ≠ 0 then [Ev.trunc .data s.pos] else []
    let ev2 := s.dirty.map fun (o, d) => Ev.blobDel o d
    ({ s with fileLen := (if s.nextpos ≠ 0 then s.pos else s.fileLen), nextpos := 0, dirty := [],
              tindex := [], tfile := [], txn := none, commitLock := none },
     ev1 ++ ev2, .ok)

def step (s : State) (op : Op) : Res :=
  if s.closed then (s, [], .closed)
  else match op with
    | .fault k => ({ s with armed := some k }, [], .ok)
    | .begin t tid st ul dl el => let r := doBegin s t tid st ul dl el; ({ r.1 with armed := none }, r.2)
    | .store t oid ser dlen tag => let r := doStore s t oid ser dlen tag false; ({ r.1 with armed := none }, r.2)
    | .storeBlob t oid ser dlen tag => let r := doStore s t oid ser dlen tag true; ({ r.1 with armed := none }, r.2)
    | .delete t oid ser => let r := doDelete s t oid ser; ({ r.1 with armed := none }, r.2)
    | .vote t => let r := doVote s t; ({ r.1 with armed := none }, r.2)
    | .finish t => let r := doFinish s t; ({ r.1 with armed := none }, r.2)
    | .abort t => let r := doAbort s t; ({ r.1 with armed := none }, r.2)

def run (s : State) (ops : List Op) : State := ops.foldl (fun s o => (step s o).1) s

def trace : State → List Op → List Ev
  | _, [] => []
  | s, o :: os => (step s o).2.1 ++ trace (step s o).1 os

/-- what the property talks about; deliberately NOT `maxOid` (C20 needs it monotone), nor the dead
    staging scalars (`thl`, `tid`, `ude`, `nextpos` are overwritten by the next begin) -/
structure Obs where
  txns : List FTxn
  pos : Nat
  fileLen : Nat
  index : List (Oid × Tid × Nat)
  ltid : Tid
  blobFiles : List (Oid × Tid)      -- the blob directory: committed files and files put in place
  stagingEmpty : Bool
  lockFree : Bool
  txnNone : Bool
  closed : Bool
deriving DecidableEq, Repr

def obs (s : State) : Obs :=
  { txns := s.txns, pos := s.pos, fileLen := s.fileLen, index := s.index, ltid := s.ltid,
    blobFiles := s.dirty ++ s.blobs,
    stagingEmpty := decide (s.tfile = []) && decide (s.tindex = []),
    lockFree := decide (s.commitLock = none), txnNone := decide (s.txn = none), closed := s.closed }

/-- the next `tpc_begin` of any transaction returns (does not block, storage usable) -/
def canBegin (s : State) : Bool := !s.closed && decide (s.commitLock = none)

def isDataMut : Ev → Bool
  | .write .data _ _ => true
  | .trunc .data _ => true
  | _ => false

/-- no call in `ops` (run from `s`) reaches the commit point: the transaction(s) driven by `ops`
    never finish — they are aborted, fail, or are still in flight -/
def NoCommit : State → List Op → Prop
  | _, [] => True
  | s, o :: os => ¬ commits s o ∧ NoCommit (step s o).1 os

/-- the mandated `tpc_abort` of whatever transaction is in progress (nothing to do if none is) -/
def abortCurrent (s : State) : State :=
  match s.txn with
  | some t => (step s (.abort t)).1
  | none => s

def outs : State → List Op → List Out
  | _, [] => []
  | s, o :: os => (step s o).2.2 :: outs (step s o).1 os

/-- argument of one `store` call -/
structure StoreArg where
  oid : Oid
  serial : Tid
  dlen : Nat
  tag : Nat
deriving DecidableEq, Repr

/-- an ordinary transaction: begin, stores, vote, finish -/
def cleanTxn (t : TxnId) (tid : Tid) (st ul dl el : Nat) (stores : List StoreArg) : List Op :=
  .begin t tid st ul dl el :: (stores.map fun a => Op.store t a.oid a.serial a.dlen a.tag)
    ++ [.vote t, .finish t]

/-- the records such a transaction appends when it starts from `s` -/
def mkRecs (s : State) (tid : Tid) (stores : List StoreArg) : List Rec :=
  stores.map fun a =>
    { oid := a.oid, tid := tid,
      prev := prevPos s.index a.oid, del := false, dlen := a.dlen, tag := a.tag }

/-! ### MappingStorage, optionally wrapped in a BlobStorage -/

namespace Mapping

structure MTxn where
  tid : Tid
  recs : List (Oid × Nat × Nat)      -- oid ↦ (dlen, tag): `_tdata` is a dict
deriving DecidableEq, Repr

structure State where
  txns : List MTxn := []                   -- `_transactions`, newest first
  cur : List (Oid × Tid) := []             -- oid ↦ newest tid (`_data[oid].maxKey()`)
  ltid : Tid := 0
  blobs : List (Oid × Tid) := []
  maxOid : Oid := 0
  tdata : List (Oid × Nat × Nat) := []
  tid : Tid := 0
  dirty : List (Oid × Tid) := []
  txn : Option TxnId := none
  commitLock : Option TxnId := none
deriving DecidableEq, Repr

abbrev Res := State × Out

def doBegin (s : State) (t : TxnId) (tid : Tid) : Res :=
  if s.txn = some t then (s, .errTxn)
  else match s.commitLock with
    | some _ => (s, .blocked)
    | none => ({ s with commitLock := some t, txn := some t, tdata := [], tid := tid }, .ok)

def doStore (s : State) (t : TxnId) (oid : Oid) (serial : Tid) (dlen tag : Nat) (blob : Bool) : Res :=
  if s.txn ≠ some t then (s, .errTxn)
  else
    let go : Res :=
      let s1 : State := { s with tdata := insert oid (dlen, tag) s.tdata, maxOid := max s.maxOid oid }
      if blob then ({ s1 with dirty := (oid, s.tid) :: s1.dirty }, .ok) else (s1, .ok)
    match lookup oid s.cur with
    | some ctid => if serial ≠ ctid then (s, .errConflict) else go
    | none => go

def doVote (s : State) (t : TxnId) : Res :=
  if s.txn ≠ some t then (s, .errTxn) else (s, .ok)

def doFinish (s : State) (t : TxnId) : Res :=
  if s.txn ≠ some t then (s, .errTxn)
  else
    ({ s with txns := { tid := s.tid, recs := s.tdata } :: s.txns,
              cur := update s.cur (s.tdata.map fun (o, _) => (o, s.tid)),
              ltid := s.tid, blobs := s.dirty ++ s.blobs, dirty := [], tdata := [],
              txn := none, commitLock := none }, .ok)

/-- MappingStorage.tpc_abort; BlobStorage.tpc_abort removes the dirty blob files only when the
    transaction is the one in progress -/
def doAbort (s : State) (t : TxnId) : Res :=
  if s.txn ≠ some t then (s, .ok)
  else ({ s with tdata := [], dirty := [], txn := none, commitLock := none }, .ok)

/-- MappingStorage.tpc_finish calls `func(tid)` first: a raising callback leaves everything as it
    was (transaction still current, lock held), so the mandated abort works -/
def doFinishCb (s : State) (t : TxnId) : Res :=
  if s.txn ≠ some t then (s, .errTxn) else (s, .errCallback)

def step (s : State) (op : Op) : Res :=
  match op with
  | .fault _ => (s, .ok)
  | .begin t tid _ _ _ _ => doBegin s t tid
  | .store t oid ser dlen tag => doStore s t oid ser dlen tag false
  | .storeBlob t oid ser dlen tag => doStore s t oid ser dlen tag true
  | .delete _ _ _ => (s, .misuse)           -- MappingStorage has no deleteObject
  | .vote t => doVote s t
  | .finish t => doFinish s t
  | .abort t => doAbort s t

structure Obs where
  txns : List MTxn
  cur : List (Oid × Tid)
  ltid : Tid
  blobFiles : List (Oid × Tid)
  stagingEmpty : Bool
  lockFree : Bool
  txnNone : Bool
deriving DecidableEq, Repr

/-- `_tdata` survives tpc_abort in the code (it is replaced by the next begin and invisible to every
    query); the model clears it, so `stagingEmpty` is meaningful -/
def obs (s : State) : Obs :=
  { txns := s.txns, cur := s.cur, ltid := s.ltid, blobFiles := s.dirty ++ s.blobs,
    stagingEmpty := decide (s.tdata = []), lockFree := decide (s.commitLock = none),
    txnNone := decide (s.txn = none) }

end Mapping

/-! ### generic machines, and DemoStorage over any of them -/

/-- a storage as far as the commit protocol is concerned -/
structure Machine where
  σ : Type
  step : σ → Op → σ × Out
  txn : σ → Option TxnId                  -- `tpc_transaction()`
  lockFree : σ → Bool                     -- every commit lock of the storage is free
  curTid : σ → Oid → Option Tid           -- `load_current(storage, oid)[1]`
  usable : σ → Bool                       -- not closed

def fileMachine : Machine :=
  { σ := State, step := fun s o => ((step s o).1, (step s o).2.2), txn := fun s => s.txn,
    lockFree := fun s => decide (s.commitLock = none),
    curTid := fun s oid => (lookup oid s.index).map (·.1), usable := fun s => !s.closed }

def mappingMachine : Machine :=
  { σ := Mapping.State, step := Mapping.step, txn := fun s => s.txn,
    lockFree := fun s => decide (s.commitLock = none),
    curTid := fun s oid => lookup oid s.cur, usable := fun _ => true }

namespace Demo

structure State (M : Machine) where
  changes : M.σ
  base : List (Oid × Tid)                 -- the base storage never changes: oid ↦ current tid
  txn : Option TxnId := none              -- DemoStorage._transaction
  commitLock : Option TxnId := none       -- DemoStorage._commit_lock

variable {M : Machine}

/-- `load_current(self, oid)[1]`: changes first, then base -/
def curTid (d : State M) (oid : Oid) : Option Tid :=
  match M.curTid d.changes oid with
  | some t => some t
  | none => lookup oid d.base

def doBegin (d : State M) (op : Op) (t : TxnId) : State M × Out :=
  if d.txn = some t then (d, .errTxn)
  else match d.commitLock with
    | some _ => (d, .blocked)
    | none =>
      -- the transaction is recorded BEFORE delegating, so a failing changes.tpc_begin can be aborted
      let r := M.step d.changes op
      ({ d with commitLock := some t, txn := some t, changes := r.1 }, r.2)

def doStore (d : State M) (op : Op) (t : TxnId) (oid : Oid) (serial : Tid) : State M × Out :=
  if d.txn ≠ some t then (d, .errTxn)
  else
    let old := match curTid d oid with
      | some c => c
      | none => serial
    if old ≠ serial then (d, .errConflict)       -- unresolvable here (C10 covers resolution)
    else let r := M.step d.changes op; ({ d with changes := r.1 }, r.2)

/-- storeBlob does no DemoStorage-level conflict check, it only delegates -/
def doStoreBlob (d : State M) (op : Op) (t : TxnId) : State M × Out :=
  if d.txn ≠ some t then (d, .errTxn)
  else let r := M.step d.changes op; ({ d with changes := r.1 }, r.2)

/-- tpc_vote only delegates (the changes storage checks the identity) -/
def doVote (d : State M) (op : Op) : State M × Out :=
  let r := M.step d.changes op; ({ d with changes := r.1 }, r.2)

def doFinish (d : State M) (op : Op) (t : TxnId) : State M × Out :=
  if d.txn ≠ some t then (d, .errTxn)
  else
    let r := M.step d.changes op
    -- `_transaction = None` precedes the delegation; the lock is released after it returned
    match r.2 with
    | .ok => ({ d with txn := none, commitLock := none, changes := r.1 }, .ok)
    | .misuse => ({ d with changes := r.1 }, .misuse)          -- outside the model, see the header
    | e => ({ d with txn := none, changes := r.1 }, e)         -- the demo lock stays held

/-- DemoStorage.tpc_finish whose callback raises inside `changes.tpc_finish` (`r` = what the changes
    storage does with it): `_transaction` is already `None`, the lock release is skipped.  Outside
    `step`, as `TwoPC.doFinishCb`. -/
def doFinishCb (d : State M) (t : TxnId) (r : M.σ × Out) : State M × Out :=
  if d.txn ≠ some t then (d, .errTxn)
  else ({ d with txn := none, changes := r.1 }, r.2)

/-- DemoStorage.tpc_abort when `changes.tpc_abort` raises (`r` = what the changes storage does, e.g.
    `TwoPC.doAbortFault`): `_transaction` is already `None`, and the lock release sits in a `finally`
    (fix 39c0c67), so the DemoStorage commit lock is freed although the error propagates.  Outside
    `step`, as `TwoPC.doAbortFault`. -/
def doAbortFault (d : State M) (t : TxnId) (r : M.σ × Out) : State M × Out :=
  if d.txn ≠ some t then (d, .ok)
  else ({ d with txn := none, commitLock := none, changes := r.1 }, r.2)

/-- DemoStorage.tpc_abort: `_transaction = None`, delegate, release the lock (in a `finally`) -/
def doAbort (d : State M) (op : Op) (t : TxnId) : State M × Out :=
  if d.txn ≠ some t then (d, .ok)
  else let r := M.step d.changes op; ({ d with txn := none, commitLock := none, changes := r.1 }, r.2)

def step (d : State M) (op : Op) : State M × Out :=
  match op with
  | .fault _ => let r := M.step d.changes op; ({ d with changes := r.1 }, r.2)
  | .begin t _ _ _ _ _ => doBegin d op t
  | .store t oid ser _ _ => doStore d op t oid ser
  | .storeBlob t _ _ _ _ => doStoreBlob d op t
  | .delete _ _ _ => (d, .misuse)            -- DemoStorage has no deleteObject
  | .vote _ => doVote d op
  | .finish t => doFinish d op t
  | .abort t => doAbort d op t

end Demo

/-- DemoStorage(base, changes = M) is again a machine (so demo storages stack: `push`) -/
def demoMachine (M : Machine) : Machine :=
  { σ := Demo.State M, step := Demo.step, txn := fun d => d.txn,
    lockFree := fun d => decide (d.commitLock = none) && M.lockFree d.changes,
    curTid := Demo.curTid, usable := fun d => M.usable d.changes }

/-! ### vocabulary of the property for any machine -/

def Machine.run (M : Machine) (s : M.σ) (ops : List Op) : M.σ :=
  ops.foldl (fun s o => (M.step s o).1) s

/-- the mandated `tpc_abort` of whatever transaction is in progress -/
def Machine.abortCurrent (M : Machine) (s : M.σ) : M.σ :=
  match M.txn s with
  | some t => (M.step s (.abort t)).1
  | none => s

end ZodbModel.TwoPC
