/-
  Reachability closure over a reference function — the work-list search of
  `GC.findReachableAtPacktime` (src/ZODB/FileStorage/fspack.py) and of the sweep in
  `MappingStorage.pack`.  Core Lean only.

  * `Reachable refsOf roots o`      — the specification (inductive): `o` is a root or is referenced
                                      by a reachable oid.
  * `ReachAvoid refsOf seen roots o`— the same, but oids in `seen` are never expanded (they were
                                      marked by an earlier call; `if oid in reachable: continue`).
  * `closure refsOf fuel seen todo` — the executable search.  `none` = fuel exhausted.
  * `closure_spec`     : a completed search returns exactly `seen ∪ ReachAvoid` (so, started with
                         `seen = []`, exactly the least set containing the roots and closed under
                         `refsOf`: `closure_least`, `closure_closed`).
  * `closure_isSome`   : fuel `todo.length + Σ_{o ∈ U} (1 + |refsOf o|)` suffices whenever the finite
                         universe `U` contains the work list and is closed under `refsOf`.
-/
namespace ZodbModel.Reach

/-- spec: `o` is reachable from `roots` through `refsOf` -/
inductive Reachable (refsOf : Nat → List Nat) (roots : List Nat) : Nat → Prop
  | root {o : Nat} : o ∈ roots → Reachable refsOf roots o
  | step {o o' : Nat} : Reachable refsOf roots o → o' ∈ refsOf o → Reachable refsOf roots o'

/-- spec of a search that does not expand the oids in `seen` -/
inductive ReachAvoid (refsOf : Nat → List Nat) (seen roots : List Nat) : Nat → Prop
  | root {o : Nat} : o ∈ roots → ReachAvoid refsOf seen roots o
  | step {o o' : Nat} : ReachAvoid refsOf seen roots o → o ∉ seen → o' ∈ refsOf o →
      ReachAvoid refsOf seen roots o'

/-- work-list search: pop an oid; skip it when already marked, else mark it and push its
    references (`todo.pop()`, `if oid in reachable: continue`, `reachable[oid] = pos`,
    `todo.append(refs)`).  The order of the work list is irrelevant for the result set. -/
def closure (refsOf : Nat → List Nat) : Nat → List Nat → List Nat → Option (List Nat)
  | _, seen, [] => some seen
  | 0, _, _ :: _ => none
  | fuel + 1, seen, o :: todo =>
    if o ∈ seen then closure refsOf fuel seen todo
    else closure refsOf fuel (o :: seen) (refsOf o ++ todo)

theorem reachAvoid_nil_roots {refsOf : Nat → List Nat} {seen : List Nat} {o : Nat}
    (h : ReachAvoid refsOf seen [] o) : False := by
  induction h with
  | root hm => simp at hm
  | step _ _ _ ih => exact ih

theorem reachAvoid_mono_roots {refsOf : Nat → List Nat} {seen r₁ r₂ : List Nat} {o : Nat}
    (hsub : ∀ x ∈ r₁, x ∈ r₂) (h : ReachAvoid refsOf seen r₁ o) : ReachAvoid refsOf seen r₂ o := by
  induction h with
  | root hm => exact .root (hsub _ hm)
  | step _ hn hr ih => exact .step ih hn hr

/-- the exact result of a completed search -/
theorem closure_spec (refsOf : Nat → List Nat) :
    ∀ (fuel : Nat) (seen todo S : List Nat), closure refsOf fuel seen todo = some S →
      ∀ x, x ∈ S ↔ (x ∈ seen ∨ ReachAvoid refsOf seen todo x) := by
  intro fuel
  induction fuel with
  | zero =>
    intro seen todo S h x
    cases todo with
    | nil =>
      simp only [closure, Option.some.injEq] at h; subst h
      exact ⟨Or.inl, fun h => h.elim id (fun h => (reachAvoid_nil_roots h).elim)⟩
    | cons o t => simp [closure] at h
  | succ fuel ih =>
    intro seen todo S h x
    cases todo with
    | nil =>
      simp only [closure, Option.some.injEq] at h; subst h
      exact ⟨Or.inl, fun h => h.elim id (fun h => (reachAvoid_nil_roots h).elim)⟩
    | cons o todo =>
      simp only [closure] at h
      split at h
      · rename_i hos
        rw [ih _ _ _ h x]
        constructor
        · rintro (hx | hx)
          · exact Or.inl hx
          · exact Or.inr (reachAvoid_mono_roots (fun y hy => List.mem_cons_of_mem _ hy) hx)
        · rintro (hx | hx)
          · exact Or.inl hx
          · induction hx with
            | root hm =>
              rcases List.mem_cons.1 hm with rfl | hm
              · exact Or.inl hos
              · exact Or.inr (.root hm)
            | step _ hn hr ih' =>
              rcases ih' with h1 | h1
              · exact absurd h1 hn
              · exact Or.inr (.step h1 hn hr)
      · rename_i hos
        rw [ih _ _ _ h x]
        constructor
        · rintro (hx | hx)
          · rcases List.mem_cons.1 hx with rfl | hx
            · exact Or.inr (.root (List.mem_cons_self ..))
            · exact Or.inl hx
          · right
            induction hx with
            | root hm =>
              rcases List.mem_append.1 hm with hm | hm
              · exact .step (.root (List.mem_cons_self ..)) hos hm
              · exact .root (List.mem_cons_of_mem _ hm)
            | step _ hn hr ih' =>
              exact .step ih' (fun hc => hn (List.mem_cons_of_mem _ hc)) hr
        · rintro (hx | hx)
          · exact Or.inl (List.mem_cons_of_mem _ hx)
          · induction hx with
            | root hm =>
              rcases List.mem_cons.1 hm with rfl | hm
              · exact Or.inl (List.mem_cons_self ..)
              · exact Or.inr (.root (List.mem_append_right _ hm))
            | @step y z _ hn hr ih' =>
              rcases ih' with h1 | h1
              · rcases List.mem_cons.1 h1 with rfl | h1
                · exact Or.inr (.root (List.mem_append_left _ hr))
                · exact absurd h1 hn
              · by_cases hy : y = o
                · subst hy
                  exact Or.inr (.root (List.mem_append_left _ hr))
                · refine Or.inr (.step h1 ?_ hr)
                  intro hc
                  rcases List.mem_cons.1 hc with rfl | hc
                  · exact hy rfl
                  · exact hn hc

theorem reachAvoid_nil_seen_iff {refsOf : Nat → List Nat} {roots : List Nat} {o : Nat} :
    ReachAvoid refsOf [] roots o ↔ Reachable refsOf roots o := by
  constructor
  · intro h
    induction h with
    | root hm => exact .root hm
    | step _ _ hr ih => exact .step ih hr
  · intro h
    induction h with
    | root hm => exact .root hm
    | step _ hr ih => exact .step ih (by simp) hr

/-- started with nothing marked, the search returns exactly the reachable oids -/
theorem closure_eq_reachable {refsOf : Nat → List Nat} {fuel : Nat} {roots S : List Nat}
    (h : closure refsOf fuel [] roots = some S) (x : Nat) : x ∈ S ↔ Reachable refsOf roots x := by
  rw [closure_spec refsOf fuel [] roots S h x, reachAvoid_nil_seen_iff]; simp

/-- the result contains the roots and is closed under `refsOf` … -/
theorem closure_closed {refsOf : Nat → List Nat} {fuel : Nat} {roots S : List Nat}
    (h : closure refsOf fuel [] roots = some S) :
    (∀ r ∈ roots, r ∈ S) ∧ ∀ o ∈ S, ∀ o' ∈ refsOf o, o' ∈ S := by
  refine ⟨fun r hr => (closure_eq_reachable h r).2 (.root hr), fun o ho o' ho' => ?_⟩
  exact (closure_eq_reachable h o').2 (.step ((closure_eq_reachable h o).1 ho) ho')

/-- … and is the least such set. -/
theorem closure_least {refsOf : Nat → List Nat} {fuel : Nat} {roots S : List Nat}
    (h : closure refsOf fuel [] roots = some S) (P : Nat → Prop) (hroots : ∀ r ∈ roots, P r)
    (hclosed : ∀ o, P o → ∀ o' ∈ refsOf o, P o') : ∀ o ∈ S, P o := by
  intro o ho
  have hr := (closure_eq_reachable h o).1 ho
  clear ho
  induction hr with
  | root hm => exact hroots _ hm
  | step _ hr ih => exact hclosed _ ih _ hr

/-- already marked oids stay marked -/
theorem closure_seen_subset {refsOf : Nat → List Nat} {fuel : Nat} {seen todo S : List Nat}
    (h : closure refsOf fuel seen todo = some S) : ∀ x ∈ seen, x ∈ S :=
  fun x hx => (closure_spec refsOf fuel seen todo S h x).2 (Or.inl hx)

/-! ### fuel -/

/-- work still to do for the unmarked part of the universe `U` -/
def cost (refsOf : Nat → List Nat) (seen : List Nat) : List Nat → Nat
  | [] => 0
  | u :: U => (if u ∈ seen then 0 else 1 + (refsOf u).length) + cost refsOf seen U

theorem cost_mark_le (refsOf : Nat → List Nat) (seen : List Nat) (o : Nat) (U : List Nat) :
    cost refsOf (o :: seen) U ≤ cost refsOf seen U := by
  induction U with
  | nil => simp [cost]
  | cons u U ih =>
    simp only [cost, List.mem_cons]
    by_cases h1 : u ∈ seen
    · simp [h1]; exact ih
    · by_cases h2 : u = o
      · simp [h2]; omega
      · simp [h1, h2]; exact ih

theorem cost_mark (refsOf : Nat → List Nat) (seen : List Nat) (o : Nat) (U : List Nat)
    (ho : o ∈ U) (hs : o ∉ seen) :
    cost refsOf (o :: seen) U + 1 + (refsOf o).length ≤ cost refsOf seen U := by
  induction U with
  | nil => simp at ho
  | cons u U ih =>
    simp only [cost, List.mem_cons]
    by_cases h2 : u = o
    · subst h2
      have := cost_mark_le refsOf seen u U
      simp [hs]; omega
    · have ho' : o ∈ U := by
        rcases List.mem_cons.1 ho with h | h
        · exact absurd h.symm h2
        · exact h
      have := ih ho'
      by_cases h1 : u ∈ seen
      · simp [h1]; omega
      · simp [h1, h2]; omega

/-- fuel `todo.length + cost seen U` suffices when the universe `U` contains the work list and is
    closed under `refsOf` -/
theorem closure_isSome (refsOf : Nat → List Nat) (U : List Nat)
    (hU : ∀ o ∈ U, ∀ o' ∈ refsOf o, o' ∈ U) :
    ∀ (fuel : Nat) (seen todo : List Nat), (∀ o ∈ todo, o ∈ U) →
      todo.length + cost refsOf seen U ≤ fuel → (closure refsOf fuel seen todo).isSome := by
  intro fuel
  induction fuel with
  | zero =>
    intro seen todo _ hf
    cases todo with
    | nil => simp [closure]
    | cons o t => simp at hf
  | succ fuel ih =>
    intro seen todo ht hf
    cases todo with
    | nil => simp [closure]
    | cons o todo =>
      simp only [closure]
      split
      · apply ih
        · exact fun x hx => ht x (List.mem_cons_of_mem _ hx)
        · simp only [List.length_cons] at hf; omega
      · rename_i hos
        have hoU : o ∈ U := ht o (List.mem_cons_self ..)
        apply ih
        · intro x hx
          rcases List.mem_append.1 hx with hx | hx
          · exact hU o hoU x hx
          · exact ht x (List.mem_cons_of_mem _ hx)
        · have := cost_mark refsOf seen o U hoU hos
          simp only [List.length_cons, List.length_append] at hf ⊢
          omega

/-- the fuel used by the pack models: enough for any universe `U` -/
def fuelFor (refsOf : Nat → List Nat) (todo U : List Nat) : Nat :=
  todo.length + cost refsOf [] U

theorem cost_le_nil (refsOf : Nat → List Nat) (seen U : List Nat) :
    cost refsOf seen U ≤ cost refsOf [] U := by
  induction U with
  | nil => simp [cost]
  | cons u U ih =>
    simp only [cost]
    by_cases h1 : u ∈ seen
    · simp [h1]; omega
    · simp [h1]; exact ih

theorem closure_fuelFor_isSome (refsOf : Nat → List Nat) (U seen todo : List Nat)
    (hU : ∀ o ∈ U, ∀ o' ∈ refsOf o, o' ∈ U) (ht : ∀ o ∈ todo, o ∈ U) :
    (closure refsOf (fuelFor refsOf todo U) seen todo).isSome := by
  apply closure_isSome refsOf U hU _ _ _ ht
  have := cost_le_nil refsOf seen U
  unfold fuelFor; omega

/-- two reference functions that agree on every oid of the result give the same result
    (the search only ever looks at oids it marks) -/
theorem closure_congr (f g : Nat → List Nat) :
    ∀ (fuel : Nat) (seen todo S : List Nat), closure f fuel seen todo = some S →
      (∀ o ∈ S, o ∉ seen → f o = g o) → closure g fuel seen todo = some S := by
  intro fuel
  induction fuel with
  | zero =>
    intro seen todo S h _
    cases todo with
    | nil => simpa [closure] using h
    | cons o t => simp [closure] at h
  | succ fuel ih =>
    intro seen todo S h hfg
    cases todo with
    | nil => simpa [closure] using h
    | cons o todo =>
      simp only [closure] at h ⊢
      split
      · rename_i hos
        rw [if_pos hos] at h
        exact ih _ _ _ h hfg
      · rename_i hos
        rw [if_neg hos] at h
        have hoS : o ∈ S := closure_seen_subset h o (List.mem_cons_self ..)
        rw [← hfg o hoS hos]
        apply ih _ _ _ h
        intro x hx hxs
        exact hfg x hx (fun hc => hxs (List.mem_cons_of_mem _ hc))

end ZodbModel.Reach
