/-
  Model of ZODB's blob handling at the storage boundary (C13).

  Sources followed (the repaired tree, see `git -C /repo log`):
    src/ZODB/blob.py           BlobStorageMixin: storeBlob / restoreBlob / _blob_storeblob,
                               _blob_tpc_abort, _blob_tpc_finish, loadBlob, dirty_oids;
                               BlobStorage (the wrapper): tpc_finish, tpc_abort (ignores a foreign
                               transaction), pack → _packUndoing / _packNonUndoing (keep a file iff
                               loadSerial of its (oid, tid) still succeeds)
    src/ZODB/FileStorage/FileStorage.py   _finish_finish, _abort (blob clean-up at every phase),
                               undo → _txn_undo_write (blob copy), pack →
                               _remove_blob_files_tagged_for_removal_during_pack
    src/ZODB/FileStorage/fspack.py        copyDataRecords (tags `oid+tid` of every dropped blob
                               record in blobs/.removed)
    src/ZODB/Connection.py     Blob working copies (`Blob.open`, `consumeFile`), TmpStore.storeBlob /
                               loadBlob / reset (savepoint blob files) — second half of this file

  The blob directory is a finite map `(oid, tid) ⇀ bytes` of committed-named files
  `<oid>/<tid>.blob` plus a temp area.  The object records are kept as a list of committed
  revisions, newest first, each `(oid, tid, kind, val, src)`:
    kind  blob | plain | uncreate (data-less record written by undoing a creation)
    val   identity of the pickle (all Blob pickles are byte-identical: `Blob.__getstate__` is None)
    src   tid of the record that physically holds the data (target of the back pointer chain;
          `_loadBackTxn` returns it and undo copies the blob file named after it)
    back  tid of the record the back pointer names directly (0: the record carries its data)

  Protocol discipline (guaranteed by Connection + the transaction package, refused by the model
  with `misuse` instead of being followed into undefined territory): an oid is stored at most once
  per transaction, nothing is stored after the vote, a transaction in which a call raised is
  aborted (never voted / finished).  Which records a pack drops is the subject of C07; here the
  dropped set is a parameter and every theorem holds for all of them.
-/
import ZodbModel.Basic
namespace ZodbModel.Blob

/-- object ids and transaction ids are plain naturals; a blob file name is the pair `(oid, tid)` -/
abbrev Key := Nat × Nat

/-! ### finite maps as association lists (first binding wins) -/

def aget {κ : Type} [DecidableEq κ] : List (κ × Bytes) → κ → Option Bytes
  | [], _ => none
  | (k', b) :: t, k => if k' = k then some b else aget t k

def adel {κ : Type} [DecidableEq κ] (m : List (κ × Bytes)) (k : κ) : List (κ × Bytes) :=
  m.filter fun e => decide (e.1 ≠ k)

def aset {κ : Type} [DecidableEq κ] (m : List (κ × Bytes)) (k : κ) (b : Bytes) : List (κ × Bytes) :=
  (k, b) :: adel m k

abbrev Files := List (Key × Bytes)
abbrev Tmp := List (Nat × Bytes)

/-! ### records -/

inductive Kind where
  | blob | plain | uncreate
deriving DecidableEq, Repr

structure Rec where
  oid : Nat
  tid : Nat
  kind : Kind
  val : Nat
  src : Nat      -- tid of the record that physically holds the data
  back : Nat     -- tid of the record the back pointer names (one hop; 0 = no back pointer)
deriving DecidableEq, Repr

def Rec.key (r : Rec) : Key := (r.oid, r.tid)

inductive Flavor where
  | fs      -- FileStorage(blob_dir=…)
  | wrap    -- BlobStorage(blob_dir, MappingStorage())
deriving DecidableEq, Repr

structure Txn where
  tid : Nat
  staged : List Rec
  voted : Bool
  failed : Bool
deriving DecidableEq, Repr

structure St where
  flavor : Flavor
  files : Files          -- committed-named files  <oid>/<tid>.blob
  tmp : Tmp              -- uncommitted files handed over by clients (blobs/tmp)
  hist : List Rec        -- committed records, newest first
  txn : Option Txn
  dirty : List Key       -- BlobStorageMixin.dirty_oids (a stack: head = last appended)
  packedTo : Nat         -- transactions up to here carry status 'p' (not undoable)
deriving DecidableEq, Repr

def init (fl : Flavor) : St :=
  { flavor := fl, files := [], tmp := [], hist := [], txn := none, dirty := [], packedTo := 0 }

/-! ### raw file-system events (what the recording VFS sees) -/

inductive Path where
  | blob (k : Key)       -- <oid>/<tid>.blob in the blob directory
  | tmp (n : Nat)        -- a client's uncommitted file in blobs/tmp
  | scratch              -- a temp file made by undo (mktemp in blobs/tmp)
  | old (k : Key)        -- blobs.old/<oid>/<tid>.blob (pack_keep_old)
deriving DecidableEq, Repr

inductive Ev where
  | create (p : Path)    -- open(p, 'wb'): creates or truncates
  | write (p : Path)
  | rename (a b : Path)
  | remove (p : Path)
  | link (a b : Path)
deriving DecidableEq, Repr

inductive Err where
  | conflict | os | txn | misuse | undo | keyError | busy | unsupported | value
deriving DecidableEq, Repr

inductive Out where
  | ok
  | err (e : Err)
deriving DecidableEq, Repr

/-! ### queries on the record list -/

/-- newest committed record of `oid` (what the index points to) -/
def curRec (h : List Rec) (oid : Nat) : Option Rec := h.find? fun r => r.oid = oid

/-- newest committed record of `oid` older than `t` (the `prev` pointer of the record at `t`) -/
def prevRec (h : List Rec) (oid : Nat) (t : Nat) : Option Rec :=
  h.find? fun r => r.oid = oid ∧ r.tid < t

def hasRec (h : List Rec) (k : Key) : Bool := h.any fun r => r.key = k

/-- `loadSerial(oid, tid)` succeeds: a record with data exists -/
def loadSerialOk (h : List Rec) (k : Key) : Bool :=
  h.any fun r => r.key = k ∧ r.kind ≠ .uncreate

/-- `load_current(oid)` succeeds -/
def loadCurrentOk (h : List Rec) (oid : Nat) : Bool :=
  match curRec h oid with
  | some r => r.kind ≠ .uncreate
  | none => false

def isStaged (t : Txn) (oid : Nat) : Bool := t.staged.any fun r => r.oid = oid

/-- staged by `store` / `storeBlob` (not by an earlier `undo` of the same transaction, whose records
    carry a back pointer or are un-creations) -/
def stagedByStore (t : Txn) (oid : Nat) : Bool :=
  t.staged.any fun q => q.oid = oid ∧ q.back = 0 ∧ q.kind ≠ .uncreate

/-! ### two-phase commit with blobs -/

def setTxn (s : St) (t : Txn) : St := { s with txn := some t }

def failTxn (s : St) (t : Txn) : St := { s with txn := some { t with failed := true } }

/-- `tpc_begin(txn, tid)`; tids are strictly increasing (BaseStorage / newTid guarantee it) -/
def begin (s : St) (tid : Nat) : St × List Ev × Out :=
  match s.txn with
  | some _ => (s, [], .err .busy)
  | none =>
    if s.hist.all (fun r => r.tid < tid) ∧ s.packedTo < tid then
      ({ s with txn := some { tid := tid, staged := [], voted := false, failed := false } }, [], .ok)
    else (s, [], .err .value)

/-- a client (Blob object, copyTransactionsFrom, …) prepares an uncommitted file in the temp area -/
def mkTemp (s : St) (n : Nat) (b : Bytes) : St × List Ev × Out :=
  ({ s with tmp := aset s.tmp n b }, [.create (.tmp n), .write (.tmp n)], .ok)

/-- the serial check of `store` -/
def conflicts (s : St) (oid : Nat) (base : Nat) : Bool :=
  match curRec s.hist oid with
  | some r => r.tid ≠ base
  | none => false

/-- `store(oid, base, data)` of a non-blob record -/
def store (s : St) (oid : Nat) (val : Nat) (base : Nat) : St × List Ev × Out :=
  match s.txn with
  | none => (s, [], .err .txn)
  | some t =>
    if t.voted ∨ isStaged t oid then (s, [], .err .misuse)
    else if conflicts s oid base then (failTxn s t, [], .err .conflict)
    else
      (setTxn s { t with staged := { oid := oid, tid := t.tid, kind := .plain, val := val,
                                     src := t.tid, back := 0 } :: t.staged }, [], .ok)

/-- `_blob_storeblob(oid, tid, blobfilename)`: rename the uncommitted file to its committed name and
    remember it as dirty.  `none` = the rename (and the copy fall-back) failed: file missing. -/
def blobStoreBlob (s : St) (k : Key) (n : Nat) : Option (St × List Ev) :=
  match aget s.tmp n with
  | none => none
  | some b =>
    some ({ s with files := aset s.files k b, tmp := adel s.tmp n, dirty := k :: s.dirty },
          [.rename (.tmp n) (.blob k)])

/-- `storeBlob(oid, base, data, blobfilename)`: FIRST `store` the record (may raise ConflictError),
    THEN move the file into place.  `restoreBlob` (check = false) skips the serial check. -/
def storeBlob (s : St) (oid : Nat) (n : Nat) (base : Nat) (check : Bool) : St × List Ev × Out :=
  match s.txn with
  | none => (s, [], .err .txn)
  | some t =>
    if t.voted ∨ isStaged t oid then (s, [], .err .misuse)
    else if check ∧ conflicts s oid base then (failTxn s t, [], .err .conflict)
    else
      let t' := { t with staged := { oid := oid, tid := t.tid, kind := .blob, val := 0,
                                     src := t.tid, back := 0 } :: t.staged }
      match blobStoreBlob (setTxn s t') (oid, t.tid) n with
      | some (s', evs) => (s', evs, .ok)
      | none => (failTxn s t', [], .err .os)

def vote (s : St) : St × List Ev × Out :=
  match s.txn with
  | none => (s, [], .err .txn)
  | some t =>
    if t.failed then (s, [], .err .misuse)
    else (setTxn s { t with voted := true }, [], .ok)

/-- `tpc_finish`: the records become part of the history, `_blob_tpc_finish` forgets the dirty list -/
def finish (s : St) : St × List Ev × Out :=
  match s.txn with
  | none => (s, [], .err .txn)
  | some t =>
    if t.failed ∨ ¬ t.voted then (s, [], .err .misuse)
    else ({ s with hist := t.staged ++ s.hist, txn := none, dirty := [] }, [], .ok)

/-- `_blob_tpc_abort`: pop every dirty entry and remove its file if it exists -/
def blobTpcAbort : Files → List Key → Files × List Ev
  | fs, [] => (fs, [])
  | fs, k :: ks =>
    match aget fs k with
    | some _ =>
      let r := blobTpcAbort (adel fs k) ks
      (r.1, .remove (.blob k) :: r.2)
    | none => blobTpcAbort fs ks

/-- `tpc_abort(txn)` with the transaction in progress, at ANY phase (before or after the vote; on
    FileStorage since the repair e560fee, on the wrapper always) -/
def abort (s : St) : St × List Ev × Out :=
  match s.txn with
  | none => (s, [], .ok)
  | some _ =>
    let r := blobTpcAbort s.files s.dirty
    ({ s with files := r.1, txn := none, dirty := [] }, r.2, .ok)

/-- `tpc_abort(other)` — a transaction that is not the one in progress (repair 996f8c9) -/
def foreignAbort (s : St) : St × List Ev × Out := (s, [], .ok)

/-! ### undo (FileStorage._txn_undo_write with the blob copy) -/

/-- can the record `r` of the transaction being undone be undone?  (`_transactionalUndoRecord`:
    it is current, or the current record is a back pointer to it, or the current data equals the
    data being undone — for two Blob records that is always so, their pickles are identical) -/
def undoable (h : List Rec) (r : Rec) : Bool :=
  match curRec h r.oid with
  | none => false
  | some c =>
    c.key = r.key ∨ (c.back = r.tid ∧ c.back ≠ 0) ∨
      (c.kind ≠ .uncreate ∧ r.kind ≠ .uncreate ∧ c.kind = r.kind ∧ c.val = r.val)

/-- the record undo writes for `r`: a copy of the previous revision, or an un-creation -/
def undoRec (h : List Rec) (r : Rec) (tid : Nat) : Rec :=
  match prevRec h r.oid r.tid with
  | none => { oid := r.oid, tid := tid, kind := .uncreate, val := 0, src := tid, back := 0 }
  | some p =>
    match p.kind with
    | .blob => { oid := r.oid, tid := tid, kind := .blob, val := p.val, src := p.src, back := p.tid }
    | .plain => { oid := r.oid, tid := tid, kind := .plain, val := p.val, src := p.src, back := p.tid }
    | .uncreate => { oid := r.oid, tid := tid, kind := .uncreate, val := 0, src := tid, back := p.tid }

structure UndoAcc where
  files : Files
  dirty : List Key
  staged : List Rec
  evs : List Ev
  failures : Bool     -- some record raised UndoError (reported after the loop)
  broken : Bool       -- a blob file to copy was missing (POSKeyError leaves the loop at once)
  seen : List Nat     -- oids this undo call has handled (a transaction holds one record per oid)
deriving DecidableEq, Repr

/-- one iteration of the record loop of `_txn_undo_write`.  The current record of the oid is the one
    an earlier `undo` of the SAME transaction has staged (`_tindex`), else the committed one; a second
    undo of the same oid in one transaction (`DB.undoMultiple`) replaces the staged record and renames
    its blob copy over the in-flight file `(oid, tid)`. -/
def undoOne (h : List Rec) (tid : Nat) (a : UndoAcc) (r : Rec) : UndoAcc :=
  if a.broken then a
  else if a.seen.contains r.oid then { a with failures := true }     -- discipline: one record per oid
  else if ¬ undoable (a.staged ++ h) r then { a with failures := true }
  else
    let nr := undoRec h r tid
    let rest := a.staged.filter fun q => q.oid ≠ r.oid
    match nr.kind with
    | .blob =>
      -- copy the blob file of the revision being restored to a temp file, move it into place
      match aget a.files (r.oid, nr.src) with
      | none => { a with broken := true }
      | some b =>
        { a with files := aset a.files (r.oid, tid) b, dirty := (r.oid, tid) :: a.dirty,
                 staged := nr :: rest, seen := r.oid :: a.seen,
                 evs := a.evs ++ [.create .scratch, .write .scratch,
                                  .rename .scratch (.blob (r.oid, tid))] }
    | _ =>
      match aget a.files (r.oid, tid) with
      | some _ =>
        -- EXCLUDED: an earlier undo of this transaction left its blob copy under (oid, tid) and this
        -- one un-creates the object (undoMultiple of a rewrite and of the creation): the code leaves
        -- that file behind; such multi-undos are not generated (observation in the registry note)
        { a with failures := true }
      | none => { a with staged := nr :: rest, seen := r.oid :: a.seen }

/-- records of transaction `utid` in file order (oldest first) -/
def txnRecs (h : List Rec) (utid : Nat) : List Rec := (h.filter fun r => r.tid = utid).reverse

/-- `undo(transaction_id, txn)`.  (A transaction without records is undone by doing nothing; ids of
    transactions that do not exist are C06's subject and not generated here.) -/
def undo (s : St) (utid : Nat) : St × List Ev × Out :=
  match s.flavor with
  | .wrap => (s, [], .err .unsupported)      -- MappingStorage has no undo
  | .fs =>
    match s.txn with
    | none => (s, [], .err .txn)
    | some t =>
      let recs := txnRecs s.hist utid
      if t.voted ∨ recs.any (fun r => stagedByStore t r.oid) then (s, [], .err .misuse)
      else if utid ≤ s.packedTo then (failTxn s t, [], .err .undo)   -- status 'p': not undoable
      else
        let a := recs.foldl (undoOne s.hist t.tid)
          { files := s.files, dirty := s.dirty, staged := t.staged, evs := [],
            failures := false, broken := false, seen := [] }
        ({ s with files := a.files, dirty := a.dirty,
                  txn := some { t with staged := a.staged,
                                       failed := t.failed || a.failures || a.broken } },
         a.evs,
         if a.broken then .err .keyError else if a.failures then .err .undo else .ok)

/-! ### pack -/

/-- the records the base storage's pack removes: those named in `drop`, never one written after the
    pack time `T` -/
def dropped (T : Nat) (drop : List Key) (r : Rec) : Bool := drop.contains r.key ∧ r.tid ≤ T

/-- what pack does to the data pointer of a kept record: the data is copied into every record up to
    the pack time and into records whose data-holding record is removed -/
def adjSrc (T : Nat) (drop : List Key) (h : List Rec) (r : Rec) : Rec :=
  if r.tid ≤ T ∨ h.any (fun q => q.key = (r.oid, r.src) ∧ dropped T drop q) then
    { r with src := r.tid } else r

/-- … and to its back pointer: packed records have none, later ones lose it with its target -/
def adjBack (T : Nat) (drop : List Key) (h : List Rec) (r : Rec) : Rec :=
  if r.tid ≤ T ∨ h.any (fun q => q.key = (r.oid, r.back) ∧ dropped T drop q) then
    { r with back := 0 } else r

def adj (T : Nat) (drop : List Key) (h : List Rec) (r : Rec) : Rec :=
  adjBack T drop h (adjSrc T drop h r)

/-- the history after the pack -/
def packHist (T : Nat) (drop : List Key) (h : List Rec) : List Rec :=
  (h.filter fun r => ¬ dropped T drop r).map (adj T drop h)

/-- fspack.copyDataRecords: every dropped record that is a blob record is tagged `oid+tid` in
    blobs/.removed (repair 7206ca4: never the bare oid) -/
def tagged (T : Nat) (drop : List Key) (h : List Rec) : List Key :=
  (h.filter fun r => dropped T drop r ∧ r.kind = .blob).map Rec.key

/-- `_remove_blob_files_tagged_for_removal_during_pack`, first step: each tagged file that still
    exists is removed, or moved to blobs.old when `pack_keep_old` -/
def removeTagged (keepOld : Bool) : Files → List Key → Files × List Ev
  | fs, [] => (fs, [])
  | fs, k :: ks =>
    match aget fs k with
    | some _ =>
      let r := removeTagged keepOld (adel fs k) ks
      (r.1, (if keepOld then Ev.rename (.blob k) (.old k) else .remove (.blob k)) :: r.2)
    | none => removeTagged keepOld fs ks

/-- second step with `pack_keep_old`: hard-link every remaining file into blobs.old -/
def linkRest (keepOld : Bool) (fs : Files) : List Ev :=
  if keepOld then fs.map fun e => .link (.blob e.1) (.old e.1) else []

/-- BlobStorage._packUndoing: keep a file iff `loadSerial` of its (oid, tid) still succeeds -/
def packUndoing (fs : Files) (h : List Rec) : Files :=
  fs.filter fun e => loadSerialOk h e.1

/-- `files[-1]` of the sorted directory listing: no file of the same oid carries a larger tid -/
def isLatest (fs : Files) (k : Key) : Bool := fs.all fun e => e.1.1 = k.1 → e.1.2 ≤ k.2

/-- BlobStorage._packNonUndoing (used over a base storage without undo, e.g. MappingStorage): the
    whole oid directory goes when the object can no longer be loaded, else ONLY THE NEWEST file of
    the object is kept — although the base storage may keep older revisions (the one current at
    the pack time and everything later): `Props.C13.wrapper_nonundo_pack_removes_kept_blob`. -/
def packNonUndoing (fs : Files) (h : List Rec) : Files :=
  fs.filter fun e => loadCurrentOk h e.1.1 ∧ isLatest fs e.1

def removedEvs (before after : Files) : List Ev :=
  (before.filter fun e => (aget after e.1).isNone).map fun e => .remove (.blob e.1)

/-- `pack(T)`; `drop` = the records the base storage decides to remove -/
def pack (s : St) (T : Nat) (drop : List Key) (keepOld : Bool) : St × List Ev × Out :=
  match s.flavor with
  | .fs =>
    match s.txn with
    | some _ => (s, [], .err .busy)          -- the packer waits for the commit lock
    | none =>
      let h' := packHist T drop s.hist
      let r := removeTagged keepOld s.files (tagged T drop s.hist)
      ({ s with hist := h', files := r.1, packedTo := max s.packedTo T },
       r.2 ++ linkRest keepOld r.1, .ok)
  | .wrap =>
    let h' := packHist T drop s.hist
    let fs' := packNonUndoing s.files h'
    ({ s with hist := h', files := fs', packedTo := max s.packedTo T },
     removedEvs s.files fs', .ok)

/-! ### operations and runs -/

inductive Op where
  | mkTemp (n : Nat) (b : Bytes)
  | begin (tid : Nat)
  | store (oid : Nat) (val : Nat) (base : Nat)
  | storeBlob (oid : Nat) (n : Nat) (base : Nat)
  | restoreBlob (oid : Nat) (n : Nat)
  | vote
  | finish
  | abort
  | foreignAbort
  | undo (utid : Nat)
  | pack (T : Nat) (drop : List Key) (keepOld : Bool)
deriving DecidableEq, Repr

def step (s : St) : Op → St × List Ev × Out
  | .mkTemp n b => mkTemp s n b
  | .begin tid => begin s tid
  | .store oid val base => store s oid val base
  | .storeBlob oid n base => storeBlob s oid n base true
  | .restoreBlob oid n => storeBlob s oid n 0 false
  | .vote => vote s
  | .finish => finish s
  | .abort => abort s
  | .foreignAbort => foreignAbort s
  | .undo utid => undo s utid
  | .pack T drop keepOld => pack s T drop keepOld

def next (s : St) (o : Op) : St := (step s o).1

def run (s : St) (ops : List Op) : St := ops.foldl next s

/-- What the non-undo wrapper's pack needs from the base storage's pack to stay exact: of every
    object that survives, exactly the newest blob revision is kept. -/
def WrapPackOK (s : St) (T : Nat) (drop : List Key) : Prop :=
  ∀ r ∈ s.hist, r.kind = .blob →
    (dropped T drop r = false ↔
      ((∀ q ∈ s.hist, q.kind = .blob → q.oid = r.oid → q.tid ≤ r.tid) ∧
       ∃ c ∈ s.hist, c.oid = r.oid ∧ dropped T drop c = false))

/-- Histories the theorems quantify over.  Restrictions, both for the blob WRAPPER only:
    * its pack is not run between `tpc_begin` and `tpc_finish`/`tpc_abort` of a transaction (it would
      delete the blob files that transaction has already moved into place — see
      `Props.C13.wrapper_pack_in_txn_loses_blob`; C13 does not quantify over such interleavings);
    * `WrapPackOK`: the base storage's pack keeps only the newest blob revision of every surviving
      object (otherwise `_packNonUndoing` removes files of kept revisions — the open finding
      `C13:nonundo-pack-removes-kept-blob`, witness `Props.C13.wrapper_nonundo_pack_removes_kept_blob`). -/
def Admissible (s : St) : Op → Prop
  | .pack T drop _ => s.flavor = .wrap → (s.txn = none ∧ WrapPackOK s T drop)
  | _ => True

inductive Reach : St → Prop where
  | init (fl : Flavor) : Reach (init fl)
  | step {s : St} (o : Op) : Reach s → Admissible s o → Reach (next s o)

/-- committed blob revisions of the history -/
def blobRecs (h : List Rec) : List Key := (h.filter fun r => r.kind = .blob).map Rec.key

/-! ## Blob objects: working copies and savepoints (Connection side)

`Blob.open(mode)` never touches a committed file: 'r' opens it read-only, 'w' / 'a' / 'r+' work on
a private uncommitted file (created empty, or — for 'a' and 'r+' — as a copy of the committed
data first).  `consumeFile` replaces the working copy.  At a savepoint the working copy moves into
the TmpStore's private directory under a name that contains the record position (repair 47a289a),
and `TmpStore.reset` restores the index, so a rollback shows the file of that savepoint again. -/

inductive Mode where
  | w | a | rplus
deriving DecidableEq, Repr

/-- bytes after `f = blob.open(mode); f.write(data); f.close()` given the bytes the blob showed
    before (`cur` = working copy if any, else committed data, else empty) and whether a working
    copy already existed -/
def writeMode (m : Mode) (cur : Bytes) (data : Bytes) : Bytes :=
  match m with
  | .w => data
  | .a => cur ++ data
  | .rplus => data ++ cur.drop data.length

/-- state of one Blob object inside one connection -/
structure Obj where
  committed : Option Bytes      -- what `_p_blob_committed` points to (storage or savepoint file)
  working : Option Bytes        -- `_p_blob_uncommitted`
deriving DecidableEq, Repr

def Obj.read (o : Obj) : Bytes :=
  match o.working with
  | some b => b
  | none => o.committed.getD []

def Obj.write (o : Obj) (m : Mode) (data : Bytes) : Obj :=
  { o with working := some (writeMode m o.read data) }

def Obj.consume (o : Obj) (data : Bytes) : Obj := { o with working := some data }

/-- TmpStore: records `(oid, pos)` ↦ file; `index : oid ⇀ pos`; `position` -/
structure TmpStore where
  spFiles : List ((Nat × Nat) × Bytes)
  index : List (Nat × Nat)
  position : Nat
deriving DecidableEq, Repr

def TmpStore.empty : TmpStore := { spFiles := [], index := [], position := 0 }

def idxGet : List (Nat × Nat) → Nat → Option Nat
  | [], _ => none
  | (o, p) :: t, oid => if o = oid then some p else idxGet t oid

/-- TmpStore.storeBlob: store the record at `position`, then move the working copy to
    `<oid>-<serial>-<pos>.spb` -/
def TmpStore.storeBlob (ts : TmpStore) (oid : Nat) (b : Bytes) (len : Nat) : TmpStore :=
  { spFiles := aset ts.spFiles (oid, ts.position) b,
    index := (oid, ts.position) :: ts.index,
    position := ts.position + len + 1 }

/-- TmpStore.loadBlob: the savepoint file of the indexed record, if any (else the base storage) -/
def TmpStore.loadBlob (ts : TmpStore) (oid : Nat) : Option Bytes :=
  match idxGet ts.index oid with
  | none => none
  | some p => aget ts.spFiles (oid, p)

/-- the state a `Savepoint` object remembers -/
structure SpState where
  position : Nat
  index : List (Nat × Nat)
deriving DecidableEq, Repr

def TmpStore.state (ts : TmpStore) : SpState := { position := ts.position, index := ts.index }

/-- TmpStore.reset (files are left alone; names are unique per position) -/
def TmpStore.reset (ts : TmpStore) (st : SpState) : TmpStore :=
  { ts with index := st.index, position := st.position }

/-- what a connection does to its TmpStore after a savepoint was taken -/
inductive TsOp where
  | store (oid : Nat) (b : Bytes) (len : Nat)     -- a later savepoint stores a blob
  | rollback (st : SpState)                        -- rollback to some savepoint state
deriving DecidableEq, Repr

def TmpStore.apply (ts : TmpStore) : TsOp → TmpStore
  | .store oid b len => ts.storeBlob oid b len
  | .rollback st => ts.reset st

def runTs (ts : TmpStore) (ops : List TsOp) : TmpStore := ops.foldl TmpStore.apply ts

/-- every indexed record lies below the write position -/
def TsInv (ts : TmpStore) : Prop := ∀ e ∈ ts.index, e.2 < ts.position

/-- rollbacks after a savepoint with write position `base` go to savepoints taken later -/
def TsOp.After (base : Nat) : TsOp → Prop
  | .store _ _ _ => True
  | .rollback st => base ≤ st.position

end ZodbModel.Blob
