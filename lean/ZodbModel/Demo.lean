/-
  Model of `ZODB.DemoStorage.DemoStorage` (src/ZODB/DemoStorage.py) over abstract history-backed
  layers.

  A *layer* is what a MappingStorage / FileStorage (with or without blob directory) is to the demo
  storage: a list of committed transactions (commit order), from which the revisions of an oid
  `revs l o : List (Tid × Option Data)` are read off (`none` = un-creation record: undone creation
  or `deleteObject`), plus `lastTransaction`, the records staged by the two-phase commit in
  progress and whether the storage supports undo.  The query functions of a layer (`loadBeforeR`,
  `loadSerialR`, `getTidR`, `historyR`) are the History semantics of DESIGN 3.1 on the revision list
  (what C04 establishes for FileStorage; MappingStorage never holds `none`).

  The demo storage itself is modelled *as coded*: `loadBefore` tries the changes, defers to the
  base on POSKeyError, and on `None` asks the base and — if the base revision is current there —
  walks the changes backwards with `loadBefore` to find the end tid (`findEnd`); `getTid`,
  `loadSerial`, `history`, `lastTransaction`, `iterator`, `store` (serial compared with the demo's
  own `load_current`, then the changes' own check), two-phase commit delegated to the changes
  only, `new_oid` over a GIVEN stream of candidate draws, `push`/`pop`.  A base may itself be a demo
  storage (`Store` is recursive), which is how stackings are covered.

  Pickles are opaque: `Data = Nat` names a pickle (the harness maps numbers to pickles).
  Core Lean only.
-/
import ZodbModel.Basic
namespace ZodbModel.Demo

abbrev Oid := Nat
abbrev Tid := Nat
abbrev Data := Nat
abbrev Rev := Tid × Option Data
/-- result of `loadBefore`: data, serial, end tid -/
abbrev LB := Data × Tid × Option Tid

/-- `ZODB.utils.maxtid` = 7fff ffff ffff ffff -/
def maxtid : Tid := 2 ^ 63 - 1

inductive Err where
  | keyError      -- POSKeyError
  | conflict      -- ConflictError
  | undoError     -- UndoError / MultipleUndoErrors
  | txnError      -- StorageTransactionError
  | readConflict  -- ReadConflictError (checkCurrentSerialInTransaction)
  | blocked       -- the call would block on the commit lock
  | unsupported   -- AttributeError / TypeError / not modelled
deriving Repr, DecidableEq

abbrev Recs := List (Oid × Option Data)

structure Txn where
  tid : Tid
  packed : Bool
  recs : Recs
deriving Repr, DecidableEq

structure Layer where
  txns : List Txn                    -- committed transactions, commit order
  ltid : Tid                         -- lastTransaction(); 0 = z64
  staged : Option (Tid × Recs)       -- transaction in progress: its tid and the records written
  canUndo : Bool                     -- FileStorage-like (supportsUndo, deleteObject)
deriving Repr, DecidableEq

def Layer.empty (canUndo : Bool) : Layer := ⟨[], 0, none, canUndo⟩

/-! ### revisions of an oid -/

/-- the record of `o` in one transaction (the last one written wins) -/
def recOf (recs : Recs) (o : Oid) : Option (Option Data) :=
  (recs.reverse.find? (fun r => r.1 = o)).map (·.2)

def revsOf (txns : List Txn) (o : Oid) : List Rev :=
  txns.filterMap fun t => (recOf t.recs o).map fun d => (t.tid, d)

def Layer.revs (l : Layer) (o : Oid) : List Rev := revsOf l.txns o

/-! ### the queries of a history-backed storage on the revision list of one oid -/

def before (r : List Rev) (t : Tid) : List Rev := r.filter fun x => x.1 < t
def after (r : List Rev) (t : Tid) : List Rev := r.filter fun x => ¬ x.1 < t

/-- `loadBefore(oid, tid)`: unknown oid ⇒ POSKeyError; no revision below `tid` ⇒ `None`; newest such
    revision an un-creation ⇒ POSKeyError; else its data, its tid and the tid of the next revision -/
def loadBeforeR (r : List Rev) (t : Tid) : Except Err (Option LB) :=
  if r.isEmpty then .error .keyError
  else
    match (before r t).getLast? with
    | none => .ok none
    | some (_, none) => .error .keyError
    | some (s, some d) => .ok (some (d, s, ((after r t).head?).map (·.1)))

/-- `ZODB.utils.load_current`: `loadBefore(oid, maxtid)`, `None` ⇒ POSKeyError -/
def currentOf (x : Except Err (Option LB)) : Except Err (Data × Tid) :=
  match x with
  | .error e => .error e
  | .ok none => .error .keyError
  | .ok (some (d, s, _)) => .ok (d, s)

def loadCurrentR (r : List Rev) : Except Err (Data × Tid) := currentOf (loadBeforeR r maxtid)

def loadSerialR (r : List Rev) (s : Tid) : Except Err Data :=
  match r.find? (fun x => x.1 = s) with
  | some (_, some d) => .ok d
  | _ => .error .keyError

def getTidR (r : List Rev) : Except Err Tid :=
  match r.getLast? with
  | some (s, some _) => .ok s
  | _ => .error .keyError

/-- `history(oid, size)`: the tids of the newest `n` records, newest first -/
def historyR (r : List Rev) (n : Nat) : Except Err (List Tid) :=
  if r.isEmpty then .error .keyError else .ok ((r.reverse.take n).map (·.1))

/-! ### layer operations (what the demo storage delegates to) -/

def putRec (recs : Recs) (o : Oid) (d : Option Data) : Recs :=
  recs.filter (fun r => r.1 ≠ o) ++ [(o, d)]

def Layer.begin (l : Layer) (tid : Tid) : Layer := { l with staged := some (tid, []) }

/-- serial check of the layer's own `store`/`deleteObject`: the tid of its newest record -/
def Layer.serialOk (l : Layer) (o : Oid) (serial : Tid) : Bool :=
  match (l.revs o).getLast? with
  | none => true
  | some (s, _) => s = serial

def Layer.store (l : Layer) (o : Oid) (serial : Tid) (d : Data) : Except Err Layer :=
  match l.staged with
  | none => .error .txnError
  | some (tid, recs) =>
    if l.serialOk o serial then .ok { l with staged := some (tid, putRec recs o (some d)) }
    else .error .conflict

/-- `FileStorage.deleteObject` -/
def Layer.delete (l : Layer) (o : Oid) (serial : Tid) : Except Err Layer :=
  if ¬ l.canUndo then .error .unsupported else
  match l.staged with
  | none => .error .txnError
  | some (tid, recs) =>
    if (l.revs o).isEmpty then .error .keyError
    else if l.serialOk o serial then .ok { l with staged := some (tid, putRec recs o none) }
    else .error .conflict

def Layer.finish (l : Layer) : Layer :=
  match l.staged with
  | none => l
  | some (tid, recs) =>
    { l with txns := l.txns ++ [⟨tid, false, recs⟩], ltid := tid, staged := none }

def Layer.abort (l : Layer) : Layer := { l with staged := none }

/-- the undo record for one oid of the transaction `u` (`_transactionalUndoRecord` at revision
    level): if `u` wrote the current record, or the current data equal the data `u` wrote, the new
    record carries the data of the revision before `u` (none: un-creation); otherwise UndoError
    (no resolvable classes here). -/
def undoRec (r : List Rev) (recs : Recs) (u : Tid) : Oid → Except Err (Option Data) := fun o =>
  let pre : Option Data := ((before r u).getLast?).bind (·.2)
  let du : Option Data := (r.find? (fun x => x.1 = u)).bind (·.2)
  match recOf recs o with
  | some dc =>                      -- already written in this transaction (multi-undo)
    (match du, dc with
     | some a, some b => if a = b then .ok pre else .error .undoError
     | _, _ => .error .undoError)
  | none =>
    match r.getLast? with
    | none => .error .undoError
    | some (ct, dc) =>
      if ct = u then .ok pre
      else
        match du, dc with
        | some a, some b => if a = b then .ok pre else .error .undoError
        | _, _ => .error .undoError

def undoAll (l : Layer) (u : Tid) : List Oid → Recs → Except Err Recs
  | [], recs => .ok recs
  | o :: os, recs =>
    match undoRec (l.revs o) recs u o with
    | .error e => .error e
    | .ok d => undoAll l u os (putRec recs o d)

/-- `FileStorage.undo(tid)` inside the transaction in progress -/
def Layer.undo (l : Layer) (u : Tid) : Except Err Layer :=
  if ¬ l.canUndo then .error .unsupported else
  match l.staged with
  | none => .error .txnError
  | some (tid, recs) =>
    match l.txns.find? (fun t => t.tid = u) with
    | none => .error .undoError
    | some t =>
      if t.packed then .error .undoError
      else
        match undoAll l u ((t.recs.map (·.1)).eraseDups) recs with
        | .error e => .error e
        | .ok recs' => .ok { l with staged := some (tid, recs') }

/-- tid of the only revision `≤ P` of an oid that a pack (without gc) to `P` keeps: the newest one,
    unless it is an un-creation -/
def keptAt (r : List Rev) (P : Tid) : Option Tid :=
  match (r.filter fun x => x.1 ≤ P).getLast? with
  | some (s, some _) => some s
  | _ => none

def packTxns (txns : List Txn) (P : Tid) : List Txn :=
  txns.filterMap fun t =>
    if P < t.tid then some t
    else
      let recs := t.recs.filter fun od => keptAt (revsOf txns od.1) P = some t.tid
      if recs.isEmpty then none else some { t with packed := true, recs := recs }

def recCount (txns : List Txn) : Nat := (txns.map fun t => t.recs.length + 1).sum

/-- `pack(t, referencesf, gc=False)`; a pack that frees nothing leaves the storage as it is -/
def Layer.pack (l : Layer) (P : Tid) : Layer :=
  let txns' := packTxns l.txns P
  if recCount txns' = recCount l.txns then l else { l with txns := txns' }

/-- `undoLog(0, n)`: the transactions that can still be undone, newest first (the search stops at the
    first packed transaction) -/
def Layer.undoLog (l : Layer) : List Tid :=
  (l.txns.reverse.takeWhile fun t => !t.packed).map (·.tid)

/-- `len(storage)`: the number of oids with a record -/
def Layer.oidCount (l : Layer) : Nat :=
  ((l.txns.flatMap fun t => t.recs.map (·.1)).eraseDups).length

/-! ### the demo storage -/

structure DState where
  issued : List Oid          -- `_issued_oids`
  stored : List Oid          -- `_stored_oids`
  next : Oid                 -- `_next_oid`
  txn : Option Nat           -- `_transaction` (identity of the transaction holding the commit lock)
  tempChanges : Bool         -- `_temporary_changes`
deriving Repr, DecidableEq

inductive Store where
  | leaf (l : Layer)
  | demo (base : Store) (changes : Layer) (ds : DState)
deriving Repr

/-- the end-tid search of `DemoStorage.loadBefore`: `end_tid = maxtid; t = changes.loadBefore(oid,
    end_tid); while t: end_tid = t[1]; t = changes.loadBefore(oid, end_tid)`.  The fuel is
    `length + 1`, proved sufficient (`Proofs.Demo.findEnd_fuel`). -/
def findEnd (rc : List Rev) : Nat → Tid → Except Err Tid
  | 0, e => .ok e
  | f + 1, e =>
    match loadBeforeR rc e with
    | .error x => .error x
    | .ok none => .ok e
    | .ok (some (_, s, _)) => findEnd rc f s

/-- `DemoStorage.loadBefore` given the base's `loadBefore` for this oid and the changes' revisions -/
def demoLoadBefore (lbBase : Tid → Except Err (Option LB)) (rc : List Rev) (t : Tid) :
    Except Err (Option LB) :=
  match loadBeforeR rc t with
  | .error _ => lbBase t                       -- POSKeyError: the oid isn't in the changes
  | .ok (some r) => .ok (some r)
  | .ok none =>                                -- in the changes, but no earlier record there
    match lbBase t with
    | .error _ => .ok none                     -- not in the base: None is right
    | .ok none => .ok none
    | .ok (some (d, s, some e)) => .ok (some (d, s, some e))
    | .ok (some (d, s, none)) =>               -- current in the base: find the end tid
      if t = maxtid then .ok (some (d, s, none))
      else
        match findEnd rc (rc.length + 1) maxtid with
        | .error x => .error x
        | .ok e => .ok (some (d, s, if e = maxtid then none else some e))

def demoLoadSerial (lsBase : Except Err Data) (rc : List Rev) (s : Tid) : Except Err Data :=
  match loadSerialR rc s with
  | .ok d => .ok d
  | .error _ => lsBase

def demoGetTid (gtBase : Except Err Tid) (rc : List Rev) : Except Err Tid :=
  match getTidR rc with
  | .ok s => .ok s
  | .error _ => gtBase

/-- `DemoStorage.history(oid, size)` -/
def demoHistory (hBase : Nat → Except Err (List Tid)) (rc : List Rev) (n : Nat) :
    Except Err (List Tid) :=
  let r := match historyR rc n with
    | .ok r => r
    | .error _ => []
  let m := n - r.length
  if m = 0 then .ok r
  else
    match hBase m with
    | .ok rb => .ok (r ++ rb)
    | .error e => if r.isEmpty then .error e else .ok r

namespace Store

def loadBefore : Store → Oid → Tid → Except Err (Option LB)
  | .leaf l, o, t => loadBeforeR (l.revs o) t
  | .demo b c _, o, t => demoLoadBefore (fun t' => b.loadBefore o t') (c.revs o) t

/-- `load` = `load_current(self, oid)` -/
def load (s : Store) (o : Oid) : Except Err (Data × Tid) := currentOf (s.loadBefore o maxtid)

def loadSerial : Store → Oid → Tid → Except Err Data
  | .leaf l, o, ser => loadSerialR (l.revs o) ser
  | .demo b c _, o, ser => demoLoadSerial (b.loadSerial o ser) (c.revs o) ser

def getTid : Store → Oid → Except Err Tid
  | .leaf l, o => getTidR (l.revs o)
  | .demo b c _, o => demoGetTid (b.getTid o) (c.revs o)

def history : Store → Oid → Nat → Except Err (List Tid)
  | .leaf l, o, n => historyR (l.revs o) n
  | .demo b c _, o, n => demoHistory (fun m => b.history o m) (c.revs o) n

def lastTransaction : Store → Tid
  | .leaf l => l.ltid
  | .demo b c _ => if c.ltid = 0 then b.lastTransaction else c.ltid

/-- `iterator()`: the base's transactions, then the changes' -/
def iterator : Store → List Txn
  | .leaf l => l.txns
  | .demo b c _ => b.iterator ++ c.txns

/-- `iterator(start, stop)` -/
def iteratorRange : Store → Tid → Tid → List Txn
  | .leaf l, a, z => l.txns.filter fun t => a ≤ t.tid ∧ t.tid ≤ z
  | .demo b c _, a, z => b.iteratorRange a z ++ c.txns.filter fun t => a ≤ t.tid ∧ t.tid ≤ z

/-- the revisions of an oid in the concatenated history (base first) -/
def revs (s : Store) (o : Oid) : List Rev := revsOf s.iterator o

/-- `load_current` succeeds: what `new_oid` takes as "exists" -/
def live (s : Store) (o : Oid) : Bool :=
  match s.load o with
  | .ok _ => true
  | .error _ => false

def base : Store → Option Store
  | .leaf _ => none
  | .demo b _ _ => some b

end Store

/-- the draw loop of `DemoStorage.new_oid`: try the candidate; if it is taken draw the next candidate
    from the given stream.  Result: the oid (none: stream exhausted), the new `_next_oid`, and how
    many draws were consumed. -/
def drawLoop (free : Oid → Bool) : Oid → List Oid → Nat → Option Oid × Oid × Nat
  | cand, draws, used =>
    if free cand then (some cand, cand + 1, used)
    else
      match draws with
      | [] => (none, cand, used)
      | d :: ds => drawLoop free d ds (used + 1)

/-- the test `new_oid` applies to a candidate -/
def freeOid (b : Store) (c : Layer) (ds : DState) (o : Oid) : Bool :=
  !ds.issued.contains o && !(Store.leaf c).live o && !b.live o

/-! ### the machine -/

inductive Op where
  | begin (x : Nat) (tid : Option Tid) (now : Tid)   -- `tid = none`: the tid comes from the clock `now`
  | store (x : Nat) (o : Oid) (serial : Tid) (d : Data)
  | delete (x : Nat) (o : Oid) (serial : Tid)
  | vote (x : Nat)
  | finish (x : Nat)
  | abort (x : Nat)
  | undo (x : Nat) (u : Tid)
  | checkCurrent (x : Nat) (o : Oid) (serial : Tid)  -- checkCurrentSerialInTransaction (readCurrent)
  | pack (P : Tid) (gc : Option Bool)                 -- pack(t, referencesf, gc=None|False|True)
  | newOid (draws : List Oid)
  | push (firstDraw : Oid)
  | pushWith (canUndo : Bool) (firstDraw : Oid)      -- push(changes=<given storage>)
  | pop
deriving Repr

inductive Out where
  | ok
  | err (e : Err)
  | oid (o : Option Oid) (used : Nat)
deriving Repr, DecidableEq

/-- `TimeStamp(now).laterThan(old)` (idealised as in DESIGN 6.3) — what `utils.newTid(old)` returns -/
def laterThan (now old : Tid) : Tid := if old < now then now else old + 1

/-- the tid `DemoStorage.tpc_begin` hands to the changes: the caller's, else (repaired code)
    `newTid(self.lastTransaction())`, so that tids keep increasing across the two layers -/
def beginTid (last : Tid) (tid : Option Tid) (now : Tid) : Tid :=
  match tid with
  | some t => t
  | none => laterThan now last

/-- `committed_tid = self.getTid(oid); if committed_tid != serial: raise ReadConflictError` -/
def checkCurrentOut (gt : Except Err Tid) (serial : Tid) : Out :=
  match gt with
  | .error e => .err e
  | .ok t => if t = serial then .ok else .err .readConflict

def newDemo (b : Store) (canUndo temp : Bool) (firstDraw : Oid) : Store :=
  .demo b (Layer.empty canUndo) ⟨[], [], firstDraw, none, temp⟩

/-- one API call on the storage at the top of the stack.  A `leaf` at the top is a plain storage
    (used to build base histories); a `demo` follows DemoStorage.py. -/
def step : Store → Op → Store × Out
  -- plain storage (single client: the transaction identity is not modelled here)
  | .leaf l, .begin _ tid now => (.leaf (l.begin (beginTid l.ltid tid now)), .ok)
  | .leaf l, .store _ o ser d =>
    (match l.store o ser d with
     | .ok l' => (.leaf l', .ok)
     | .error e => (.leaf l, .err e))
  | .leaf l, .delete _ o ser =>
    (match l.delete o ser with
     | .ok l' => (.leaf l', .ok)
     | .error e => (.leaf l, .err e))
  | .leaf l, .vote _ => (.leaf l, if l.staged.isSome then .ok else .err .txnError)
  | .leaf l, .finish _ => (.leaf l.finish, if l.staged.isSome then .ok else .err .txnError)
  | .leaf l, .abort _ => (.leaf l.abort, .ok)
  | .leaf l, .undo _ u =>
    (match l.undo u with
     | .ok l' => (.leaf l', .ok)
     | .error e => (.leaf l, .err e))
  | .leaf l, .checkCurrent _ o ser =>
    (.leaf l, if l.staged.isNone then .err .txnError else checkCurrentOut ((Store.leaf l).getTid o) ser)
  | .leaf l, .pack P _ => (.leaf (l.pack P), .ok)             -- plain storages are packed with gc=False
  | .leaf l, .newOid _ => (.leaf l, .err .unsupported)       -- counters: see ZodbModel/Oid.lean
  | .leaf l, .pop => (.leaf l, .err .unsupported)
  | s, .push d => (newDemo s false true d, .ok)
  | s, .pushWith cu d => (newDemo s cu false d, .ok)
  -- DemoStorage
  | .demo b c ds, .begin x tid now =>
    if ds.txn = some x then (.demo b c ds, .err .txnError)
    else if ds.txn.isSome then (.demo b c ds, .err .blocked)
    else (.demo b (c.begin (beginTid (Store.demo b c ds).lastTransaction tid now))
            { ds with txn := some x, stored := [] }, .ok)
  | .demo b c ds, .store x o ser d =>
    if ds.txn ≠ some x then (.demo b c ds, .err .txnError)
    else
      let ds' := { ds with stored := o :: ds.stored }
      let old := match (Store.demo b c ds).load o with
        | .ok (_, s) => s
        | .error _ => ser
      if old ≠ ser then (.demo b c ds', .err .conflict)      -- tryToResolveConflict: nothing resolvable
      else
        match c.store o ser d with
        | .ok c' => (.demo b c' ds', .ok)
        | .error e => (.demo b c ds', .err e)
  | .demo b c ds, .delete _ _ _ => (.demo b c ds, .err .unsupported)   -- no deleteObject attribute
  | .demo b c ds, .vote x =>
    (.demo b c ds, if ds.txn = some x then .ok else .err .txnError)
  | .demo b c ds, .finish x =>
    if ds.txn ≠ some x then (.demo b c ds, .err .txnError)
    else
      (.demo b c.finish { ds with issued := ds.issued.filter (fun o => !ds.stored.contains o),
                                  stored := [], txn := none }, .ok)
  | .demo b c ds, .abort x =>
    if ds.txn ≠ some x then (.demo b c ds, .ok)
    else (.demo b c.abort { ds with stored := [], txn := none }, .ok)
  | .demo b c ds, .undo x u =>
    if ¬ c.canUndo then (.demo b c ds, .err .unsupported)
    else if ds.txn ≠ some x then (.demo b c ds, .err .txnError)
    else
      match c.undo u with
      | .ok c' => (.demo b c' ds, .ok)
      | .error e => (.demo b c ds, .err e)
  | .demo b c ds, .checkCurrent x o ser =>
    -- `BaseStorage.checkCurrentSerialInTransaction`: the demo storage's OWN getTid, i.e. across the layers
    (.demo b c ds, if ds.txn ≠ some x then .err .txnError
                   else checkCurrentOut ((Store.demo b c ds).getTid o) ser)
  | .demo b c ds, .pack P gc =>
    -- gc=True: TypeError with explicit changes, the changes' own gc with implicit ones (not modelled);
    -- gc=None on implicit changes is that gc pack too; everything else is `changes.pack(gc=False)`
    if gc = some true then (.demo b c ds, .err .unsupported)
    else if ds.tempChanges ∧ gc = none then (.demo b c ds, .err .unsupported)
    else (.demo b (c.pack P) ds, .ok)
  | .demo b c ds, .newOid draws =>
    (match drawLoop (freeOid b c ds) ds.next draws 0 with
     | (some o, nxt, used) => (.demo b c { ds with next := nxt, issued := o :: ds.issued }, .oid (some o) used)
     | (none, nxt, used) => (.demo b c { ds with next := nxt }, .oid none used))
  | .demo b _ _, .pop => (b, .ok)

def run (s : Store) (ops : List Op) : Store := ops.foldl (fun s op => (step s op).1) s

end ZodbModel.Demo
