/-
  C17 (recovery part) — byte-level model of `ZODB.fsrecover` (`read_txn_header`, `scan`, the main
  loop of `recover` with error ⇒ scan ⇒ continue and the time-stamp fix-up; default options: no
  `-p`, no pack) together with the record iteration it relies on
  (`TransactionRecordIterator.__next__`, `_read_data_header`, `_loadBack_impl(fail=False)`,
  `getTxnFromData`) and, for the output file, `FileStorage.restore` of `ZodbModel/Copy.lean`.

  The input is the Data.fs image as a byte list; every `f.seek(pos); f.read(n)` is `slice b pos n`
  (short near the end of the file, exactly as `read`).  The model is of the REPAIRED code:
  `scan` returns 0 when a '.' lies within the last 8 bytes of the file, `_loadBack_impl` refuses a
  back pointer that does not point backwards, `recover` refuses a transaction whose record
  iterator stopped before the end of the transaction.

  The second half defines the byte encoding of a record-level store (`encStore`), i.e. the real
  FileStorage layout: magic `FS30`; per transaction a 23-byte header tid(8) tlen(8) status(1)
  ulen(2) dlen(2) elen(2), user, description, extension, the data records — 42-byte header oid(8)
  tid(8) prev(8) tloc(8) vlen(2)=0 plen(8), then the pickle or, when plen = 0, an 8-byte back
  pointer — and the redundant 8-byte tlen.  Core Lean only.
-/
import ZodbModel.Copy
namespace ZodbModel.Recover
open ZodbModel ZodbModel.Copy

/-- `f.seek(pos); f.read(n)` -/
def slice (b : Bytes) (pos n : Nat) : Bytes := (b.drop pos).take n

/-- an 8-byte (or 2-byte) big-endian field -/
def num (b : Bytes) (pos n : Nat) : Nat := beVal (slice b pos n)

def magic : Bytes := [70, 83, 51, 48]      -- b'FS30' (ZODB._compat.FILESTORAGE_MAGIC)
def window : Nat := 8096                   -- the read size of `scan`
/-- idealisation of the allocator: `file.read(n)` with `n ≥ 2^30` raises (MemoryError, or
    OverflowError beyond 2^63), a smaller request succeeds (and may return fewer bytes).  Only the
    unguarded `read(h.plen)` of `_loadBack_impl` can ask for that much; where the real limit lies
    depends on the machine, so the harness pins it to the same value (its `open` for fsrecover's
    input refuses larger requests). -/
def hugeRead : Nat := 2 ^ 30

/-! ### `read_txn_header` -/

inductive Hdr where
  | eof                                   -- EOFError: short header, or status 'c'
  | bad                                   -- ErrorFound (or UnicodeDecodeError of `as_text`)
  | undone (npos tid : Nat)               -- status 'u': skipped
  | txn (npos tid status : Nat) (user desc ext : Bytes) (rpos tend : Nat)
deriving Repr, DecidableEq

/-- `read_txn_header(f, pos, file_size, outp, ltid)` -/
def readTxnHeader (b : Bytes) (pos : Nat) (ltid : Option Nat) : Hdr :=
  if b.length < pos + 23 then .eof
  else
    let tid := num b pos 8
    let stl := slice b (pos + 8) 8
    let tl := beVal stl
    let status := num b (pos + 16) 1
    let ul := num b (pos + 17) 2
    let dl := num b (pos + 19) 2
    let el := num b (pos + 21) 2
    if 128 ≤ status then .bad                             -- as_text(status) cannot decode
    else if pos + (tl + 8) > b.length then .bad           -- "bad transaction length"
    else if tl < 23 + ul + dl + el then .bad              -- "invalid transaction length"
    else if (match ltid with | some l => decide (tid < l) | none => false) then .bad
                                                          -- "time-stamp reducation"
    else if status = 99 then .eof                         -- 'c': truncate(); raise EOFError
    else if status ≠ 32 ∧ status ≠ 117 ∧ status ≠ 112 then .bad   -- not in " up"
    else if slice b (pos + tl) 8 ≠ stl then .bad          -- redundant length check (both branches)
    else if status = 117 then .undone (pos + tl + 8) tid
    else .txn (pos + tl + 8) tid status (slice b (pos + 23) ul) (slice b (pos + 23 + ul) dl)
           (slice b (pos + 23 + ul + dl) el) (pos + 23 + ul + dl + el) (pos + tl)

/-! ### `scan` -/

inductive Win where
  | found (p : Nat)       -- `return pos + s + 8`
  | ret0                  -- `return 0` (the repaired end-of-file rule)
  | advance (n : Nat)     -- `pos += n; break`
deriving Repr, DecidableEq

/-- the inner loop of `scan` over one window `data` read at `pos` (`wlen = len(data)`); `i` is the
    index in the window of the head of the remaining bytes. -/
def scanWin (pos wlen : Nat) : Nat → Bytes → Win
  | _, [] => .advance wlen                               -- no further '.': pos += len(data)
  | i, x :: rest =>
    if x = 46 then
      if wlen < i + 1 + 8 then                           -- s > len(data) - 8
        (if i = 0 then .ret0 else .advance i)
      else if beVal (rest.take 8) < pos then .found (pos + i + 1 + 8)   -- plausible length
      else scanWin pos wlen (i + 1) rest
    else scanWin pos wlen (i + 1) rest

/-- `scan(f, pos)`; `none` = fuel exhausted (proved impossible for fuel > file length) -/
def scan (b : Bytes) : Nat → Nat → Option Nat
  | 0, _ => none
  | f + 1, pos =>
    let w := slice b pos window
    if w.isEmpty then some 0
    else
      match scanWin pos w.length 0 w with
      | .found p => some p
      | .ret0 => some 0
      | .advance n => scan b f (pos + n)

/-! ### record iteration -/

inductive LB where
  | err                       -- CorruptedDataError / ValueError / struct.error
  | fuel                      -- fuel exhausted (proved impossible for fuel > back)
  | data (d : Option Bytes)
deriving Repr, DecidableEq

/-- `_loadBack_impl(oid, back, fail=False)` on the image (repaired: pointers must decrease) -/
def loadBackB (b : Bytes) : Nat → Nat → LB
  | 0, _ => .fuel
  | f + 1, back =>
    if b.length < back + 42 then .err                       -- short header
    else if num b (back + 32) 2 ≠ 0 then .err                -- non-zero version length
    else if num b (back + 34) 8 ≠ 0 then
      if hugeRead ≤ num b (back + 34) 8 then .err            -- read(n): MemoryError / OverflowError
      else .data (some (slice b (back + 42) (num b (back + 34) 8)))   -- the pickle (may be short)
    else if b.length < back + 50 then .err                   -- u64 of a short read
    else if num b (back + 42) 8 = 0 then .data none
    else if back ≤ num b (back + 42) 8 then .err             -- does not point backwards
    else loadBackB b f (num b (back + 42) 8)

inductive RecRes where
  | err
  | fuel
  | one (r : IRec) (dlen : Nat)
deriving Repr, DecidableEq

/-- one step of `TransactionRecordIterator.__next__` at `pos` in the transaction `[tpos, tend)`;
    a `break` (record exceeds the transaction / wrong tloc) is `err` because `recover` then finds
    `records._pos != txn._tend`. -/
def readRec (b : Bytes) (tpos tend pos : Nat) : RecRes :=
  if b.length < pos + 42 then .err
  else if num b (pos + 32) 2 ≠ 0 then .err
  else
    let oid := num b pos 8
    let tid := num b (pos + 8) 8
    let tloc := num b (pos + 24) 8
    let plen := num b (pos + 34) 8
    if plen ≠ 0 then
      if tend < pos + (42 + plen) ∨ tloc ≠ tpos then .err
      else .one ⟨oid, tid, some (slice b (pos + 42) plen), none⟩ (42 + plen)
    else if b.length < pos + 50 then .err
    else if tend < pos + 50 ∨ tloc ≠ tpos then .err
    else
      let back := num b (pos + 42) 8
      if back = 0 then .one ⟨oid, tid, none, none⟩ 50
      else
        match loadBackB b (back + 1) back with
        | .err => .err
        | .fuel => .fuel
        | .data d =>
          if num b back 8 ≠ oid then .err                   -- getTxnFromData(oid, back)
          else .one ⟨oid, tid, d, some (num b (back + 8) 8)⟩ 50

inductive Recs where
  | ok (rs : List Rec)
  | err
  | fuel
deriving Repr, DecidableEq

/-- `for r in records: ofs.restore(...)` followed by the fill check -/
def readRecs (b : Bytes) (D : Store) (tpos tend : Nat) : Nat → Nat → Recs
  | 0, _ => .fuel
  | f + 1, pos =>
    if pos < tend then
      match readRec b tpos tend pos with
      | .err => .err
      | .fuel => .fuel
      | .one ir dlen =>
        match restoreRec D ir with
        | .error _ => .err
        | .ok r =>
          match readRecs b D tpos tend f (pos + dlen) with
          | .ok rs => .ok (r :: rs)
          | .err => .err
          | .fuel => .fuel
    else if pos = tend then .ok [] else .err

/-! ### the main loop -/

inductive Outcome where
  | done (D : Store)      -- the output storage (newest first)
  | fuel                  -- a fuel bound was exhausted (proved impossible)
  | notFS                 -- die("input is not a file storage")
deriving Repr, DecidableEq

def recoverLoop (b : Bytes) : Nat → Nat → Option Nat → Option Nat → Store → Outcome
  | 0, _, _, _, _ => .fuel
  | f + 1, pos, ltid, ts, D =>
    if pos = 0 then .done D
    else
      match readTxnHeader b pos ltid with
      | .eof => .done D
      | .bad =>
        match scan b (b.length + 1) pos with
        | none => .fuel
        | some p => recoverLoop b f p ltid ts D
      | .undone npos tid => recoverLoop b f npos (some tid) ts D
      | .txn npos tid status user desc ext rpos tend =>
        match readRecs b D pos tend (b.length + 1) rpos with
        | .fuel => .fuel
        | .err =>                                   -- tpc_abort; pos = scan(f, pos) with pos = npos
          match scan b (b.length + 1) npos with
          | none => .fuel
          | some p => recoverLoop b f p (some tid) (fixTid ts tid).2 D
        | .ok rs =>
          recoverLoop b f npos (some tid) (fixTid ts tid).2
            (⟨(fixTid ts tid).1, status, user, desc, ext, rs⟩ :: D)

/-- `fsrecover.recover(inp, outp)`: FUEL := file length + 1 -/
def recover (b : Bytes) : Outcome :=
  if slice b 0 4 ≠ magic then .notFS
  else recoverLoop b (b.length + 1) 4 none none []

/-- what the output storage's iterator yields (`none` = the run did not end normally) -/
def recoverOut (b : Bytes) : Option (List ITxn) :=
  match recover b with
  | .done D => iterate D
  | _ => none

/-! ### the byte encoding of a record-level store -/

def recLen (r : Rec) : Nat :=
  42 + (match r.body with | .full d => d.length | _ => 8)

def recsLen : List Rec → Nat
  | [] => 0
  | r :: rs => recLen r + recsLen rs

def hdrLen (t : Txn) : Nat := 23 + t.user.length + t.desc.length + t.ext.length
def tlen (t : Txn) : Nat := hdrLen t + recsLen t.recs

def storeSize : Store → Nat
  | [] => 4
  | t :: older => storeSize older + (tlen t + 8)

/-- file offset of the record a pointer designates -/
def recOff : Store → Nat → Nat → Nat
  | [], _, _ => 0
  | t :: older, lvl, idx =>
    if lvl = older.length then storeSize older + hdrLen t + recsLen (t.recs.take idx)
    else recOff older lvl idx

def ptrOff (S : Store) : Option (Nat × Nat) → Nat
  | none => 0
  | some (l, i) => recOff S l i

def encBody (older : Store) : Body → Bytes
  | .full d => be 8 d.length ++ d
  | .back l i => be 8 0 ++ be 8 (recOff older l i)
  | .uncreate => be 8 0 ++ be 8 0

def encRec (older : Store) (tpos : Nat) (r : Rec) : Bytes :=
  be 8 r.oid ++ be 8 r.serial ++ be 8 (ptrOff older r.prev) ++ be 8 tpos ++ be 2 0 ++
    encBody older r.body

def encRecs (older : Store) (tpos : Nat) : List Rec → Bytes
  | [] => []
  | r :: rs => encRec older tpos r ++ encRecs older tpos rs

def encTxn (older : Store) (t : Txn) : Bytes :=
  be 8 t.tid ++ be 8 (tlen t) ++ [t.status] ++ be 2 t.user.length ++ be 2 t.desc.length ++
    be 2 t.ext.length ++ t.user ++ t.desc ++ t.ext ++
    encRecs older (storeSize older) t.recs ++ be 8 (tlen t)

/-- the Data.fs image of a store -/
def encStore : Store → Bytes
  | [] => magic
  | t :: older => encStore older ++ encTxn older t

end ZodbModel.Recover
