/-
  The store decision of the three bundled storages and the commit-lock two-phase-commit machine.

  Follows
    * `FileStorage.store`            (src/ZODB/FileStorage/FileStorage.py)
        `old = self._index_get(oid, 0); if old: committed_tid = h.tid;
         if oldserial != committed_tid: data = self.tryToResolveConflict(...); self._resolved.append(oid)`
    * `MappingStorage.store`         (src/ZODB/MappingStorage.py)
        `tid_data = self._data.get(oid); if tid_data: old_tid = tid_data.maxKey();
         if serial != old_tid: raise ConflictError`        (no resolution)
    * `DemoStorage.store`            (src/ZODB/DemoStorage.py)
        `try: old = load_current(self, oid)[1]  except POSKeyError: old = serial`
        `if old != serial: rdata = self.tryToResolveConflict(oid, old, serial, data);
                           self.changes.store(oid, old, rdata, ...); self._resolved.append(oid)`
        `else: self.changes.store(oid, serial, data, ...)`
    * `BaseStorage.tpc_begin / tpc_vote / tpc_finish / tpc_abort`, the same four of MappingStorage
      and DemoStorage: `tpc_begin` acquires `_commit_lock` and sets `_transaction`; every other call
      compares `transaction is self._transaction`; `tpc_finish` / `tpc_abort` release the lock.
    * `BaseStorage.checkCurrentSerialInTransaction` (shared by all three).

  The committed history is a list of transactions NEWEST FIRST; each transaction carries the
  revisions it wrote: `{oid, base (the serial the writer passed), data (stored), wanted (what the
  writer passed), resolved}`.  `checked` is a ghost field: the successful
  `checkCurrentSerialInTransaction` calls of the transaction.

  Un-creation records (FileStorage.deleteObject, undo of a creation) are revisions without data:
  they count as the current revision for the serial comparison, cannot be loaded, and make getTid
  raise POSKeyError.  Not modelled here: pack, restore, the oid counter, quota, blobs, the file
  layout (see FileStore/TwoPC models of C01/C04/C05).  Core Lean only.
-/
import ZodbModel.Resolve
namespace ZodbModel.StoreRules
open ZodbModel.Resolve

scoped notation "TxnId" => Nat

structure Rev where
  oid : Oid
  base : Tid             -- serial passed to `store`
  data : Record          -- what was stored
  wanted : Record        -- what the writer passed
  resolved : Bool        -- stored through conflict resolution
  deleted : Bool := false   -- un-creation record (`deleteObject`, undo of the creation): no data
deriving DecidableEq, Repr

structure Txn where
  tid : Tid
  recs : List Rev                -- newest first (the last `store` of an oid wins)
  checked : List (Oid × Tid)     -- ghost: successful readCurrent checks
deriving DecidableEq, Repr

abbrev Hist := List Txn           -- newest first

def Txn.has (t : Txn) (o : Oid) : Bool := t.recs.any (fun r => r.oid == o)

def recData : List Rev → Oid → Option Record
  | [], _ => none
  | r :: rs, o => if r.oid = o then (if r.deleted then none else some r.data) else recData rs o

/-- is the (last) record a transaction wrote for `o` an un-creation record -/
def recDeleted : List Rev → Oid → Bool
  | [], _ => false
  | r :: rs, o => if r.oid = o then r.deleted else recDeleted rs o

/-- the current revision of `o` is an un-creation record (`h.plen == 0 and h.back == 0`) -/
def currentDeleted : Hist → Oid → Bool
  | [], _ => false
  | t :: older, o => if t.recs.any (fun r => r.oid == o) then recDeleted t.recs o else currentDeleted older o

def Txn.data (t : Txn) (o : Oid) : Option Record := recData t.recs o

/-- tid of the newest transaction (by position) that wrote `o`: the spec-level "current revision" -/
def currentTid : Hist → Oid → Option Tid
  | [], _ => none
  | t :: older, o => if t.has o then some t.tid else currentTid older o

/-- `tid_data.maxKey()` of MappingStorage: the largest tid under which `o` was written -/
def maxKeyTid : Hist → Oid → Option Tid
  | [], _ => none
  | t :: older, o =>
    match maxKeyTid older o with
    | none => if t.has o then some t.tid else none
    | some m => if t.has o then some (max t.tid m) else some m

inductive Simple where
  | file | mapping
deriving DecidableEq, Repr

inductive Kind where
  | simple (k : Simple)
  | demo (changes base : Simple)     -- DemoStorage(base=…, changes=…)
deriving DecidableEq, Repr

/-- committed tid the store / getTid of a simple storage compares with:
    FileStorage `_index` → header tid (positional newest), MappingStorage `maxKey()` -/
def curS : Simple → Hist → Oid → Option Tid
  | .file, h, o => currentTid h o
  | .mapping, h, o => maxKeyTid h o

/-- `FileStorage.loadSerial`: walk the oid's chain from the index; stop with POSKeyError as soon as
    a revision older than `serial` is met -/
def loadSerialFile : Hist → Oid → Tid → Option Record
  | [], _, _ => none
  | t :: older, o, ser =>
    match t.data o with
    | none => loadSerialFile older o ser
    | some d =>
      if t.tid = ser then some d
      else if t.tid < ser then none
      else loadSerialFile older o ser

/-- `MappingStorage.loadSerial`: `self._data[oid][serial]` -/
def loadSerialMapping : Hist → Oid → Tid → Option Record
  | [], _, _ => none
  | t :: older, o, ser =>
    if t.tid = ser then
      (match t.data o with
       | some d => some d
       | none => loadSerialMapping older o ser)
    else loadSerialMapping older o ser

def loadSerialS : Simple → Hist → Oid → Tid → Option Record
  | .file => loadSerialFile
  | .mapping => loadSerialMapping

/-- `loadSerial` of the whole storage (DemoStorage: changes, on POSKeyError base) -/
def loadSerialK (k : Kind) (hist base : Hist) (o : Oid) (ser : Tid) : Option Record :=
  match k with
  | .simple s => loadSerialS s hist o ser
  | .demo kc kb =>
    match loadSerialS kc hist o ser with
    | some d => some d
    | none => loadSerialS kb base o ser

/-- committed tid of `o` as the whole storage reports it (`getTid`, `load_current(self, oid)[1]`);
    DemoStorage: changes, on POSKeyError base -/
def curK (k : Kind) (hist base : Hist) (o : Oid) : Option Tid :=
  match k with
  | .simple s => curS s hist o
  | .demo kc kb =>
    match curS kc hist o with
    | some t => some t
    | none => curS kb base o

/-- the history a reader of the storage sees, newest first -/
def viewOf (k : Kind) (hist base : Hist) : Hist :=
  match k with
  | .simple _ => hist
  | .demo _ _ => hist ++ base

structure Sys where
  kind : Kind
  base : Hist                    -- DemoStorage.base (never written through the demo storage)
  hist : Hist                    -- committed transactions (of `changes` for a DemoStorage)
  lock : Option TxnId            -- `_commit_lock` holder = `_transaction`
  tid : Tid                      -- `_tid`
  staged : List Rev              -- `_tfile` / `_tdata`, newest first
  checked : List (Oid × Tid)     -- ghost, see `Txn.checked`
  resolved : List Oid            -- `_resolved` (of the DemoStorage itself for kind demo)
  innerResolved : List Oid       -- `changes._resolved` of a DemoStorage (unused for simple kinds)
  voted : Bool
  cache : List ClassId           -- `ConflictResolution._unresolvable` (process-wide)
deriving DecidableEq, Repr

def init (k : Kind) (base : Hist) : Sys :=
  { kind := k, base := base, hist := [], lock := none, tid := 0, staged := [], checked := [],
    resolved := [], innerResolved := [], voted := false, cache := [] }

def Sys.view (s : Sys) : Hist := viewOf s.kind s.hist s.base

inductive Op where
  | begin  (t : TxnId) (tid : Tid)
  | store  (t : TxnId) (oid : Oid) (serial : Tid) (data : Record)
  | check  (t : TxnId) (oid : Oid) (serial : Tid)      -- checkCurrentSerialInTransaction
  | delete (t : TxnId) (oid : Oid) (serial : Tid)      -- FileStorage.deleteObject (IExternalGC)
  | vote   (t : TxnId)
  | finish (t : TxnId)
  | abort  (t : TxnId)
deriving DecidableEq, Repr

def Op.actor : Op → TxnId
  | .begin t _ | .store t _ _ _ | .check t _ _ | .delete t _ _ | .vote t | .finish t | .abort t => t

inductive Out where
  | ok
  | blocked                      -- `_commit_lock.acquire()` does not return (step not enabled)
  | resolvedStore                -- store succeeded through conflict resolution
  | conflict                     -- ConflictError
  | readConflict                 -- ReadConflictError
  | keyError                     -- POSKeyError (getTid of an unknown oid)
  | txnError                     -- StorageTransactionError
  | unsupported                  -- the storage has no such method (deleteObject: FileStorage only)
  | voted (resolved : List Oid)  -- return value of tpc_vote
  | finished (tid : Tid)         -- return value of tpc_finish
deriving DecidableEq, Repr

/-- outcome of the store decision of a simple storage -/
structure SimpleRes where
  out : Option (Record × Bool)   -- `none` = ConflictError; else (record to write, resolved?)
  cache : List ClassId
  calls : List Call              -- resolver invocations (observable of C10)

/-- `FileStorage.store` / `MappingStorage.store` decision against committed history `h` -/
def storeSimple (E : Env) (k : Simple) (h : Hist) (cache : List ClassId)
    (oid : Oid) (serial : Tid) (data : Record) : SimpleRes :=
  match curS k h oid with
  | none => { out := some (data, false), cache := cache, calls := [] }
  | some ct =>
    if serial = ct then { out := some (data, false), cache := cache, calls := [] }
    else
      match k with
      | .mapping => { out := none, cache := cache, calls := [] }
      | .file =>
        let r := tryToResolve E (loadSerialFile h) cache oid ct serial data none
        match r.out with
        | .ok d => { out := some (d, true), cache := r.cache, calls := r.call.toList }
        | .error _ => { out := none, cache := r.cache, calls := r.call.toList }

structure StepRes where
  sys : Sys
  out : Out
  calls : List Call

def stage (s : Sys) (r : Rev) : Sys := { s with staged := r :: s.staged }

/-- `store` of the whole storage, called by the lock holder -/
def storeK (E : Env) (s : Sys) (oid : Oid) (serial : Tid) (data : Record) : StepRes :=
  match s.kind with
  | .simple k =>
    let r := storeSimple E k s.hist s.cache oid serial data
    match r.out with
    | none => { sys := { s with cache := r.cache }, out := .conflict, calls := r.calls }
    | some (d, res) =>
      { sys := { s with cache := r.cache,
                        staged := { oid := oid, base := serial, data := d, wanted := data,
                                    resolved := res } :: s.staged,
                        resolved := if res then oid :: s.resolved else s.resolved },
        out := if res then .resolvedStore else .ok, calls := r.calls }
  | .demo kc kb =>
    -- try: old = load_current(self, oid)[1]   except POSKeyError: old = serial
    let old := (curK (.demo kc kb) s.hist s.base oid).getD serial
    if old = serial then
      -- self.changes.store(oid, serial, data, '', transaction)
      let r := storeSimple E kc s.hist s.cache oid serial data
      match r.out with
      | none => { sys := { s with cache := r.cache }, out := .conflict, calls := r.calls }
      | some (d, res) =>
        { sys := { s with cache := r.cache,
                          staged := { oid := oid, base := serial, data := d, wanted := data,
                                      resolved := res } :: s.staged,
                          innerResolved := if res then oid :: s.innerResolved else s.innerResolved },
          out := if res then .resolvedStore else .ok, calls := r.calls }
    else
      -- rdata = self.tryToResolveConflict(oid, old, serial, data)
      let t := tryToResolve E (loadSerialK (.demo kc kb) s.hist s.base) s.cache oid old serial data none
      match t.out with
      | .error _ => { sys := { s with cache := t.cache }, out := .conflict, calls := t.call.toList }
      | .ok rdata =>
        -- self.changes.store(oid, old, rdata, '', transaction); self._resolved.append(oid)
        let r := storeSimple E kc s.hist t.cache oid old rdata
        match r.out with
        | none => { sys := { s with cache := r.cache }, out := .conflict,
                    calls := t.call.toList ++ r.calls }
        | some (d, res) =>
          { sys := { s with cache := r.cache,
                            staged := { oid := oid, base := serial, data := d, wanted := data,
                                        resolved := true } :: s.staged,
                            resolved := oid :: s.resolved,
                            innerResolved := if res then oid :: s.innerResolved else s.innerResolved },
            out := .resolvedStore, calls := t.call.toList ++ r.calls }

/-- placeholder carried by an un-creation record (it has no data; `recData` never returns it) -/
def tomb : Record := { hdr := { cls := 0, args := 0 }, state := .atom 0 }

/-- `FileStorage.getTid` raises POSKeyError when the current record is an un-creation record -/
def checkDeleted (s : Sys) (oid : Oid) : Bool :=
  match s.kind with
  | .simple .file => currentDeleted s.hist oid
  | _ => false

def release (s : Sys) : Sys :=
  { s with lock := none, staged := [], checked := [], resolved := [], innerResolved := [],
           voted := false }

/-- one call of the storage API by transaction `op.actor`.  `blocked` models a `tpc_begin` that
    waits for the commit lock: the step is not enabled and nothing changes. -/
def step (E : Env) (s : Sys) : Op → StepRes
  | .begin t tid =>
    match s.lock with
    | some t' =>
      if t' = t then { sys := s, out := .txnError, calls := [] }     -- "Duplicate tpc_begin calls"
      else { sys := s, out := .blocked, calls := [] }
    | none =>
      { sys := { s with lock := some t, tid := tid, staged := [], checked := [], resolved := [],
                        innerResolved := [], voted := false },
        out := .ok, calls := [] }
  | .store t oid serial data =>
    if s.lock = some t then storeK E s oid serial data
    else { sys := s, out := .txnError, calls := [] }
  | .check t oid serial =>
    if s.lock = some t then
      if checkDeleted s oid then { sys := s, out := .keyError, calls := [] } else
      match curK s.kind s.hist s.base oid with
      | none => { sys := s, out := .keyError, calls := [] }
      | some ct =>
        if ct = serial then
          { sys := { s with checked := (oid, serial) :: s.checked }, out := .ok, calls := [] }
        else { sys := s, out := .readConflict, calls := [] }
    else { sys := s, out := .txnError, calls := [] }
  | .delete t oid serial =>
    -- `old = self._index_get(oid, 0); if not old: raise POSKeyError;
    --  if oldserial != committed_tid: raise ConflictError` — no resolution; then an un-creation
    --  record is written
    if s.lock = some t then
      (match s.kind with
       | .simple .file =>
         (match currentTid s.hist oid with
          | none => { sys := s, out := .keyError, calls := [] }
          | some ct =>
            if serial = ct then
              { sys := { s with staged := { oid := oid, base := serial, data := tomb, wanted := tomb,
                                            resolved := false, deleted := true } :: s.staged },
                out := .ok, calls := [] }
            else { sys := s, out := .conflict, calls := [] })
       | _ => { sys := s, out := .unsupported, calls := [] })
    else { sys := s, out := .txnError, calls := [] }
  | .vote t =>
    if s.lock = some t then
      (match s.kind with
       | .simple _ => { sys := { s with voted := true }, out := .voted s.resolved, calls := [] }
       | .demo _ _ =>
         -- if self.changes.tpc_vote(...): raise StorageTransactionError("Unexpected resolved conflicts")
         if s.innerResolved = [] then
           { sys := { s with voted := true }, out := .voted s.resolved, calls := [] }
         else { sys := { s with voted := true }, out := .txnError, calls := [] })
    else { sys := s, out := .txnError, calls := [] }
  | .finish t =>
    if s.lock = some t then
      { sys := release { s with hist := { tid := s.tid, recs := s.staged, checked := s.checked } :: s.hist },
        out := .finished s.tid, calls := [] }
    else { sys := s, out := .txnError, calls := [] }
  | .abort t =>
    if s.lock = some t then { sys := release s, out := .ok, calls := [] }
    else { sys := s, out := .ok, calls := [] }           -- `if transaction is not self._transaction: return`

/-- tids come from `tpc_begin`: `newTid(last)` / `TimeStamp.laterThan(self._ts)`, later than
    everything committed (for a DemoStorage also later than the base: hypothesis TidOrdered of C16,
    open finding #10) -/
def OpOK (s : Sys) : Op → Prop
  | .begin _ tid => ∀ t ∈ s.view, t.tid < tid
  | _ => True

/-- histories with strictly decreasing tids (newest first) -/
def Sorted (h : Hist) : Prop := h.Pairwise (fun a b => b.tid < a.tid)

/-- every state the machine can reach from an empty storage (DemoStorage: over any sorted base)
    by ANY sequence of API calls of any number of transactions -/
inductive Reachable (E : Env) (k : Kind) (base : Hist) : Sys → Prop
  | init : Reachable E k base (init k base)
  | step {s : Sys} (op : Op) : Reachable E k base s → OpOK s op → Reachable E k base (step E s op).sys

/-- run a list of ops (driver, examples) -/
def run (E : Env) (s : Sys) : List Op → Sys
  | [] => s
  | op :: ops => run E (step E s op).sys ops

/-! ### the undo record of one object (`FileStorage._transactionalUndoRecord`)

    Only what C10 needs: which data ends up in the undo record and when the resolver runs.
    `pre` = the revision before the one being undone, `ct` = the current revision.
    * current revision IS the one being undone (`tipos == pos`), or its data is the undone data
      (`cdataptr == pos` / `data_to_be_undone == current_data`): copy `pre` (a back pointer);
    * otherwise no `pre`: UndoError ("Can't undo an add transaction followed by conflicting …");
    * otherwise `tryToResolveConflict(oid, ctid, tid, pre_data, current_data)`; a ConflictError
      becomes UndoError. -/

/-- data of the revision of `o` immediately before the (newest) one with tid `undone` -/
def prevRecord : Hist → Oid → Tid → Option Record
  | [], _, _ => none
  | t :: older, o, undone =>
    if t.tid = undone ∧ t.has o then
      (match currentTid older o with
       | some p => loadSerialMapping older o p
       | none => none)
    else prevRecord older o undone

inductive UndoOut where
  | copy (data : Record)            -- back pointer to `pre`, no resolver
  | uncreate                        -- the object's creation is undone
  | merged (data : Record)          -- resolver output
  | undoError
deriving DecidableEq, Repr

structure UndoRecRes where
  out : UndoOut
  cache : List ClassId
  call : Option Call

def undoRecord (E : Env) (k : Kind) (hist base : Hist) (cache : List ClassId) (oid : Oid)
    (undone : Tid) : UndoRecRes :=
  let v := viewOf k hist base
  match currentTid v oid, loadSerialMapping v oid undone with
  | some ct, some undoneData =>
    let pre := prevRecord v oid undone
    let cur := loadSerialMapping v oid ct
    if ct = undone ∨ cur = some undoneData then
      match pre with
      | some d => { out := .copy d, cache := cache, call := none }
      | none => { out := .uncreate, cache := cache, call := none }
    else
      match pre, cur with
      | some preData, some curData =>
        let r := undoResolve E (loadSerialK k hist base) cache oid ct undone preData curData
        { out := (match r.out with | .ok d => .merged d | .error _ => .undoError),
          cache := r.cache, call := r.call }
      | _, _ => { out := .undoError, cache := cache, call := none }
  | _, _ => { out := .undoError, cache := cache, call := none }

/-! ### specification predicates (C03 / C10 are stated with these) -/

/-- `r.data` is the class's three-way merge: the resolver's result on (state at the writer's base
    serial, state at the committed serial `ct`, state the writer wants), re-pickled after the
    writer's class meta data -/
def Merged (E : Env) (ls : Oid → Tid → Option Record) (ct : Tid) (r : Rev) : Prop :=
  ∃ old committed m, ls r.oid r.base = some old ∧ ls r.oid ct = some committed ∧
    E.resolver r.wanted.hdr.cls (loadState E.ci old.state) (loadState E.ci committed.state)
      (loadState E.ci r.wanted.state) = .ok m ∧
    r.data = { hdr := r.wanted.hdr, state := dumpState m }

/-- revision `r`, written on top of the committed history `hist` (over `base`), is not a lost
    update: there is no earlier revision of the object, or the writer started from the immediately
    preceding revision and its bytes were stored unchanged, or the stored bytes are the merge -/
def RevOK (E : Env) (k : Kind) (hist base : Hist) (r : Rev) : Prop :=
  match currentTid (viewOf k hist base) r.oid with
  | none => r.data = r.wanted ∧ r.resolved = false
  | some ct =>
    (r.base = ct ∧ r.data = r.wanted ∧ r.resolved = false) ∨
    (r.base ≠ ct ∧ r.resolved = true ∧ Merged E (loadSerialK k hist base) ct r)

/-- every committed revision is `RevOK` with respect to the transactions committed before it -/
def NLU (E : Env) (k : Kind) (base : Hist) : Hist → Prop
  | [] => True
  | t :: older => (∀ r ∈ t.recs, RevOK E k older base r) ∧ NLU E k base older

/-- every committed transaction's readCurrent declarations were current when it committed -/
def RC (k : Kind) (base : Hist) : Hist → Prop
  | [] => True
  | t :: older => (∀ p ∈ t.checked, currentTid (viewOf k older base) p.1 = some p.2) ∧ RC k base older

/-- does the kind attempt conflict resolution at all -/
def Kind.resolves : Kind → Bool
  | .simple .mapping => false
  | _ => true

/-! ### a connection's view of one object it wrote (C10: "discards its own copy") -/

/-- `Connection.tpc_vote`: `del obj._p_changed` for every oid the vote reported;
    `Connection.tpc_finish`: otherwise `_p_changed = 0; _p_serial = tid`. -/
inductive Cached where
  | ghost
  | upToDate (state : Record) (serial : Tid)
deriving DecidableEq, Repr

def afterCommit (votedOids : List Oid) (oid : Oid) (wanted : Record) (tid : Tid) : Cached :=
  if oid ∈ votedOids then .ghost else .upToDate wanted tid

/-- what the connection reads next (a ghost is loaded from the storage) -/
def connRead (stored : Option Record) : Cached → Option Record
  | .ghost => stored
  | .upToDate st _ => some st

end ZodbModel.StoreRules
