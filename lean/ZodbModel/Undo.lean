/-
  Record-level model of transactional undo in `ZODB.FileStorage.FileStorage`
  (src/ZODB/FileStorage/FileStorage.py: `undo`, `_txn_find`, `_txn_undo_write`,
  `_transactionalUndoRecord`, `_undoDataInfo`; format.py: `_loadBack_impl`; the call into
  ConflictResolution.tryToResolveConflict; DB.TransactionalUndo / mvccadapter.UndoAdapterInstance for the
  begin / undo… / vote / finish-or-abort sequencing).

  Representation (DESIGN 3.3, Appendix A.1).  The committed file is a list of transactions kept
  NEWEST FIRST, each with its data records NEWEST FIRST; `flat` concatenates them, and the *position*
  of the head of `r :: older` is `older.length + 1` (0 = "no record", the code's zero pointer).  Real
  file offsets are in order-preserving bijection with these ordinals and the code only ever compares
  offsets for (in)equality and zero-ness, so every decision of the code is a decision on ordinals.
  `prev`, back pointers, the index (`lastPos`) and `tindex` (positions inside the staged records, which
  sit in front of the committed ones) are such positions; pointer chasing is structural recursion.

  The resolver (`_p_resolveConflict` through `tryToResolveConflict`) is a parameter
  `resolve oid old committed new`, called with exactly the three states the code passes:
  old = `loadSerial(oid, undone tid)`, committed = current data, new = data before the undone txn.

  Core Lean only.
-/
import ZodbModel.Basic
namespace ZodbModel.Undo

/- oids, tids and positions are plain `Nat`s (`omega` does not look through type abbreviations);
   variable names `oid`, `tid`/`utid`/`b`/`s`, `pos`/`p` tell them apart -/

/-- what follows the 42-byte data header: a pickle (`plen > 0`) or an 8-byte back pointer
    (`plen = 0`; pointer 0 = the object is un-created) -/
inductive Payload where
  | data (d : Bytes)
  | back (p : Nat)
deriving DecidableEq, Repr

structure Rec where
  oid : Nat
  tid : Nat
  prev : Nat
  pl : Payload
deriving DecidableEq, Repr

structure Txn where
  tid : Nat
  packed : Bool          -- status 'p' (else ' ')
  recs : List Rec        -- newest first
deriving DecidableEq, Repr

/-- committed transactions, newest first -/
abbrev Log := List Txn

def flat : Log → List Rec
  | [] => []
  | t :: older => t.recs ++ flat older

/-! ### positions, the index, pointer chasing -/

/-- the index: position of the newest record of `oid` (0 = not in the index) -/
def lastPos (oid : Nat) : List Rec → Nat
  | [] => 0
  | r :: older => if r.oid = oid then older.length + 1 else lastPos oid older

/-- `_read_data_header(pos)` -/
def recAt : List Rec → Nat → Option Rec
  | [], _ => none
  | r :: older, p => if p = older.length + 1 then some r else recAt older p

/-- `_loadBack_impl(oid, back)[:2]`: follow back pointers down to a record that holds data;
    `none` = KeyError (pointer 0 reached: the object does not exist there) -/
def loadBack : List Rec → Nat → Option (Bytes × Nat)
  | [], _ => none
  | r :: older, p =>
    if p = older.length + 1 then
      match r.pl with
      | .data d => some (d, r.tid)
      | .back b => loadBack older b
    else loadBack older p

/-- data held by record `r` whose older records are `older` (`plen` ⇒ the pickle, else `_loadBack_impl`) -/
def recData (older : List Rec) (r : Rec) : Option Bytes :=
  match r.pl with
  | .data d => some d
  | .back b => (loadBack older b).map (·.1)

/-- `load`'s body for the record at `p`: its pickle, or the data its back pointer leads to, with the
    record's own tid; `none` = POSKeyError (no record / un-created) -/
def loadAt : List Rec → Nat → Option (Bytes × Nat)
  | [], _ => none
  | r :: older, p =>
    if p = older.length + 1 then (recData older r).map fun d => (d, r.tid)
    else loadAt older p

/-- `load(oid)`: data and serial of the current revision; `none` = POSKeyError -/
def load (F : List Rec) (oid : Nat) : Option (Bytes × Nat) := loadAt F (lastPos oid F)

/-- the state (pickle) `load` answers, `none` when the object does not exist -/
def dataOf (F : List Rec) (oid : Nat) : Option Bytes := (load F oid).map (·.1)

inductive LB where
  | keyError                                   -- POSKeyError
  | noRev                                      -- `return None`
  | found (d : Bytes) (tid : Nat) (endTid : Option Nat)
deriving DecidableEq, Repr

/-- the loop of `loadBefore`: follow `prev` from `p` until a record with `tid < b` -/
def chaseBefore (b : Nat) : List Rec → Nat → Option Nat → LB
  | [], _, _ => .noRev
  | r :: older, p, e =>
    if p = older.length + 1 then
      if r.tid < b then
        match r.pl with
        | .data d => .found d r.tid e
        | .back bp =>
          match loadBack older bp with
          | some (d, _) => .found d r.tid e
          | none => .keyError
      else chaseBefore b older r.prev (some r.tid)
    else chaseBefore b older p e

def loadBefore (F : List Rec) (oid : Nat) (b : Nat) : LB :=
  if lastPos oid F = 0 then .keyError else chaseBefore b F (lastPos oid F) none

/-- forget the `end_tid` component (which legitimately changes when a newer revision appears) -/
def LB.rev : LB → LB
  | .found d t _ => .found d t none
  | x => x

/-- the loop of `loadSerial`: follow `prev` from `p` until `tid = s`; `none` = POSKeyError -/
def chaseSerial (s : Nat) : List Rec → Nat → Option Bytes
  | [], _ => none
  | r :: older, p =>
    if p = older.length + 1 then
      if r.tid = s then recData older r
      else if r.tid < s then none
      else chaseSerial s older r.prev
    else chaseSerial s older p

def loadSerial (F : List Rec) (oid : Nat) (s : Nat) : Option Bytes :=
  chaseSerial s F (lastPos oid F)

/-- the iterator's `data_txn` of a record: tid of the record the back pointer designates (one hop) -/
def dataTxn (older : List Rec) (r : Rec) : Option Nat :=
  match r.pl with
  | .data _ => none
  | .back b => if b = 0 then none else (recAt older b).map (·.tid)

/-! ### undo -/

/-- `resolve oid old committed new` -/
abbrev Resolver := Nat → Bytes → Bytes → Bytes → Option Bytes

inductive UErr where
  | invalidTid                      -- UndoError("Invalid transaction id")
  | nonUndoable                     -- UndoError('non-undoable transaction')  (status 'p')
  | failures (oids : List Nat)      -- MultipleUndoErrors
deriving DecidableEq, Repr

/-- `_undoDataInfo(oid, ipos, tpos)`: (tid, data pointer, data-or-empty) of the record at `tipos`
    of the view (staged records first, then the file) -/
def undoDataInfo (V : List Rec) (tipos : Nat) : Option (Nat × Nat × Option Bytes) :=
  match recAt V tipos with
  | none => none
  | some c =>
    match c.pl with
    | .data d => some (c.tid, tipos, some d)
    | .back b => some (c.tid, b, none)

/-- `tpos or ipos`: position of the current record of `oid`, staged (`_tindex`) before committed (`_index`) -/
def tipos (S F : List Rec) (oid : Nat) : Nat :=
  let tpos := if lastPos oid S = 0 then 0 else lastPos oid S + F.length
  let ipos := lastPos oid F
  if tpos ≠ 0 then tpos else ipos

/-- first half of `_transactionalUndoRecord`: can the record at `pos` be undone by copying a pointer?
    `none` = UndoError, `some none` = copy, `some (some cur)` = no copy, `cur` is the current data -/
def undoCheck (S F : List Rec) (r : Rec) (pos : Nat) : Option (Option Bytes) :=
  if tipos S F r.oid = pos then some none
  else
    match undoDataInfo (S ++ F) (tipos S F r.oid) with
    | none => none
    | some (_, cdataptr, cdata) =>
      if cdataptr = pos then some none
      else
        match loadBack F pos with
        | none => none                                   -- "_loadBack() failed"
        | some (undone, _) =>
          match (match cdata with
                 | some d => some d
                 | none => (loadBack F cdataptr).map (·.1)) with
          | none => none                                 -- "_loadBack() failed"
          | some cur =>
            if undone = cur then some none
            else if r.prev = 0 then none                 -- "Can't undo an add transaction followed by …"
            else some (some cur)

/-- `_transactionalUndoRecord(oid, pos, tid, pre)` for the committed record `r` at `pos`:
    the payload of the undo record to write; `none` = UndoError -/
def undoRecord (resolve : Resolver) (S F : List Rec) (r : Rec) (pos : Nat) : Option Payload :=
  match undoCheck S F r pos with
  | none => none
  | some none =>
    if r.prev = 0 then some (.back 0)         -- undoing object addition
    else some (.back r.prev)                  -- copy the previous-record pointer forward
  | some (some cur) =>
    if r.prev = 0 then some (.back 0)
    else
      match loadBack F r.prev with
      | none => none                          -- "_loadBack() failed for %s"
      | some (preData, _) =>
        -- tryToResolveConflict(oid, ctid, tid, pre_data, current_data): oldData = loadSerial(oid, tid)
        match loadSerial F r.oid r.tid with
        | none => none
        | some old =>
          match resolve r.oid old cur preData with
          | none => none                      -- "Some data were modified by a later transaction"
          | some m => if m = [] then some (.back 0) else some (.data m)

/-- the record loop of `_txn_undo_write` over the records of the undone transaction.  `recs` is newest
    first, so the recursion processes them in file order; the result is the list of records written to
    the temporary file (newest first) and the `failures` map (as its key list).  A later record of the
    same oid clears an earlier failure ("second chance").  `base` = number of records older than the
    undone transaction, so the record in front of `olderRecs` sits at `base + olderRecs.length + 1`. -/
def undoLoop (resolve : Resolver) (S F : List Rec) (utid : Nat) (base : Nat) :
    List Rec → List Rec × List Nat
  | [] => ([], [])
  | r :: olderRecs =>
    let res := undoLoop resolve S F utid base olderRecs
    let fl := res.2.filter (· ≠ r.oid)
    match undoRecord resolve S F r (base + olderRecs.length + 1) with
    | none => (res.1, r.oid :: fl)
    | some pl => ({ oid := r.oid, tid := utid, prev := lastPos r.oid F, pl := pl } :: res.1, fl)

/-- `_txn_find(tid, stop_at_pack)`: walk back from the end of the file.  (The status test in that loop
    compares an int with a bytes object and never stops the walk; packed transactions are refused by
    `_txn_undo_write`.) -/
def txnFind (tid : Nat) : Log → Option (Txn × Log)
  | [] => none
  | t :: older => if t.tid = tid then some (t, older) else txnFind tid older

/-- one `storage.undo(tid, txn)` call inside the open transaction `utid` whose staged records are `S`:
    new staged records and the oids reported for invalidation (`tindex.keys()`) -/
def undoCall (resolve : Resolver) (L : Log) (S : List Rec) (utid tid : Nat) :
    Except UErr (List Rec × List Nat) :=
  match txnFind tid L with
  | none => .error .invalidTid
  | some (t, older) =>
    if t.packed then .error .nonUndoable
    else
      let res := undoLoop resolve S (flat L) utid (flat older).length t.recs
      if res.2 = [] then .ok (res.1 ++ S, res.1.map (·.oid)) else .error (.failures res.2)

/-- `TransactionalUndo.commit`: `for tid in tids: storage.undo(tid, txn)`; the first error propagates -/
def undoAll (resolve : Resolver) (L : Log) (utid : Nat) : List Nat → List Rec → Except UErr (List Rec)
  | [], S => .ok S
  | tid :: rest, S =>
    match undoCall resolve L S utid tid with
    | .error e => .error e
    | .ok (S', _) => undoAll resolve L utid rest S'

/-- a whole undo transaction: tpc_begin(utid); undo each id; on error tpc_abort (nothing reaches the
    file), else tpc_vote + tpc_finish append the staged records as one ordinary transaction -/
def undoTxn (resolve : Resolver) (L : Log) (utid : Nat) (ids : List Nat) : Log × Option UErr :=
  match undoAll resolve L utid ids [] with
  | .error e => (L, some e)
  | .ok S => ({ tid := utid, packed := false, recs := S } :: L, none)

/-- an ordinary commit: `store(oid, serial-of-current, data)` for each pair, then vote + finish;
    `stores` newest first -/
def commitTxn (L : Log) (tid : Nat) (stores : List (Nat × Bytes)) : Log :=
  { tid := tid, packed := false,
    recs := stores.map fun s => { oid := s.1, tid := tid, prev := lastPos s.1 (flat L), pl := .data s.2 } } :: L

/-! ### step-level storage state (what the driver executes) -/

structure Staging where
  tid : Nat
  recs : List Rec := []      -- `_tfile` (newest first); `_tindex` = `lastPos · recs`
  failed : Bool := false     -- an `undo` call raised: the caller must abort
deriving Repr

structure FS where
  log : Log := []
  txn : Option Staging := none
deriving Repr

def FS.tpcBegin (fs : FS) (tid : Nat) : FS := { fs with txn := some { tid := tid } }

def FS.store (fs : FS) (oid : Nat) (d : Bytes) : FS :=
  match fs.txn with
  | none => fs
  | some st =>
    { fs with txn := some { st with recs :=
        { oid := oid, tid := st.tid, prev := lastPos oid (flat fs.log), pl := .data d } :: st.recs } }

/-- `deleteObject` (payload `.back 0`) and `restore` (a back pointer found by `_data_find`, or
    `.back 0` for `data=None`): a record with an arbitrary payload, `prev` = index entry as in `store` -/
def FS.storePayload (fs : FS) (oid : Nat) (pl : Payload) : FS :=
  match fs.txn with
  | none => fs
  | some st =>
    { fs with txn := some { st with recs :=
        { oid := oid, tid := st.tid, prev := lastPos oid (flat fs.log), pl := pl } :: st.recs } }

def FS.undo (resolve : Resolver) (fs : FS) (tid : Nat) : FS × Except UErr (List Nat) :=
  match fs.txn with
  | none => (fs, .error .invalidTid)
  | some st =>
    match undoCall resolve fs.log st.recs st.tid tid with
    | .error e => ({ fs with txn := some { st with failed := true } }, .error e)
    | .ok (S', oids) => ({ fs with txn := some { st with recs := S' } }, .ok oids)

/-- `for tid in tids: storage.undo(tid, txn)`, stopping at the first UndoError -/
def FS.undoSeq (resolve : Resolver) : FS → List Nat → FS × Option UErr
  | fs, [] => (fs, none)
  | fs, tid :: rest =>
    match fs.undo resolve tid with
    | (fs', .error e) => (fs', some e)
    | (fs', .ok _) => FS.undoSeq resolve fs' rest

/-- tpc_vote + tpc_finish (refused by the model after a failed undo call: the real caller aborts) -/
def FS.finish (fs : FS) : FS :=
  match fs.txn with
  | none => fs
  | some st =>
    if st.failed then fs
    else { log := { tid := st.tid, packed := false, recs := st.recs } :: fs.log, txn := none }

def FS.abort (fs : FS) : FS := { fs with txn := none }

/-! ### well-formedness of a committed file (kept by `store`/`undo`/`finish` and by `pack`) -/

def PayloadOK (n : Nat) : Payload → Prop
  | .data d => d ≠ []
  | .back b => b ≤ n

/-- record `r` of transaction `tid` with status `packed`, `older` = all records of older transactions:
    the record carries the transaction's tid; in a not-packed transaction `prev` is the index entry at
    the time of writing (pack writes `prev = 0` into every record it copies below the pack time —
    `fspack.writePackedDataRecord` — even when several revisions of the object survive there as
    back-pointer targets, so nothing is assumed about `prev` in packed transactions); a pickle is never
    empty and a back pointer designates a record of an older transaction (or is 0) -/
def RecOK (tid : Nat) (packed : Bool) (older : List Rec) (r : Rec) : Prop :=
  r.tid = tid ∧ (packed = false → r.prev = lastPos r.oid older) ∧ PayloadOK older.length r.pl

/-- tids grow, and the packed transactions are the oldest ones -/
def Inv : Log → Prop
  | [] => True
  | t :: older =>
    (∀ r ∈ t.recs, RecOK t.tid t.packed (flat older) r) ∧ (∀ t' ∈ older, t'.tid < t.tid) ∧
    (t.packed = true → ∀ t' ∈ older, t'.packed = true) ∧ Inv older

def payloadOKb (n : Nat) : Payload → Bool
  | .data d => !d.isEmpty
  | .back b => decide (b ≤ n)

def recOKb (tid : Nat) (packed : Bool) (older : List Rec) (r : Rec) : Bool :=
  decide (r.tid = tid) && (packed || decide (r.prev = lastPos r.oid older)) &&
    payloadOKb older.length r.pl

/-- executable form of `Inv` (used by the driver on files read back from the real storage) -/
def invB : Log → Bool
  | [] => true
  | t :: older =>
    t.recs.all (recOKb t.tid t.packed (flat older)) && older.all (fun t' => decide (t'.tid < t.tid)) &&
      (!t.packed || older.all (fun t' => t'.packed)) && invB older

/-- oids written by a transaction -/
def Txn.oids (t : Txn) : List Nat := t.recs.map (·.oid)

/-! ### the property's reading, per object (specification side; no pointers except `sameRev`) -/

inductive Verdict where
  | restore            -- the object gets back the state it had immediately before the undone transaction
  | merge (m : Bytes)  -- a later change is kept: the resolver's output is stored
  | refuse             -- UndoError
deriving DecidableEq, Repr

/-- the current revision of `oid` in the view `V` *is* the revision at `pos`, or is a pointer copy of it
    (a back-pointer record designating it, as written by an earlier undo) -/
def sameRev (V : List Rec) (oid : Nat) (pos : Nat) : Bool :=
  lastPos oid V == pos ||
    (match recAt V (lastPos oid V) with
     | some c => c.pl == .back pos
     | none => false)

/-- `same` as above; `u` = state written by the undone transaction, `c` = current state, `p` = state
    immediately before the undone transaction (`none` = the object does not exist) -/
def specVerdict (resolve : Resolver) (oid : Nat) (same : Bool) (u c p : Option Bytes) : Verdict :=
  if same then .restore
  else
    match u, c with
    | some ud, some cd =>
      if ud = cd then .restore                        -- later changes are equal in effect
      else
        match p with
        | some pd =>
          (match resolve oid ud cd pd with
           | some m => .merge m                         -- mergeable later change
           | none => .refuse)
        | none => .refuse
    | _, _ => .refuse

/-- what `_transactionalUndoRecord` returns for a verdict on record `r` -/
def verdictPayload (r : Rec) : Verdict → Option Payload
  | .restore => some (.back r.prev)
  | .merge m => some (if m = [] then .back 0 else .data m)
  | .refuse => none

/-- the property's decision for object `oid` when transaction `T` (the transactions before it being
    `older`) is undone while the current state is the view `V` (staged records of the open undo
    transaction in front of the committed file): three `load` answers — right after `T`, now, and
    right before `T` — and the resolver -/
def verdictFor (resolve : Resolver) (V : List Rec) (T : Txn) (older : Log) (oid : Nat) : Verdict :=
  specVerdict resolve oid (sameRev V oid (lastPos oid (flat (T :: older))))
    (dataOf (flat (T :: older)) oid) (dataOf V oid) (dataOf (flat older) oid)

/-- staged records of the open transaction `utid` are well formed relative to the committed file `F` -/
def StagedOK (utid : Nat) (F S : List Rec) : Prop := ∀ s ∈ S, RecOK utid false F s

/-! ### histories: every log the storage can reach by ordinary commits and undo transactions -/

inductive Op where
  | commit (tid : Nat) (stores : List (Nat × Bytes))    -- stores newest first
  | undo (utid : Nat) (ids : List Nat)

def applyOp (resolve : Resolver) (L : Log) : Op → Log
  | .commit tid stores => commitTxn L tid stores
  | .undo utid ids => (undoTxn resolve L utid ids).1

def opTid : Op → Nat
  | .commit tid _ => tid
  | .undo utid _ => utid

/-- tids grow (`tpc_begin` guarantees it) and pickles are not empty -/
def OpOK (L : Log) (o : Op) : Prop :=
  (∀ t ∈ L, t.tid < opTid o) ∧
  match o with
  | .commit _ stores => ∀ s ∈ stores, s.2 ≠ []
  | .undo _ _ => True

def run (resolve : Resolver) : Log → List Op → Log
  | L, [] => L
  | L, o :: ops => run resolve (applyOp resolve L o) ops

def OpsOK (resolve : Resolver) : Log → List Op → Prop
  | _, [] => True
  | L, o :: ops => OpOK L o ∧ OpsOK resolve (applyOp resolve L o) ops

end ZodbModel.Undo
