/-
  Model of `ZODB.scripts.repozo` (src/ZODB/scripts/repozo.py): the backup repository, the
  `do_backup` decision tree, `find_files`, `scandat`, `delete_old_backups`, `concat`, `do_recover`
  and `do_verify`, at the level of file *contents* and *names*.

  Idealisations (trusted, probed by the correspondence check `harness/c18.py`):
  * bytes are abstract (`Bytes = List Nat`); an MD5 checksum is modelled by the checksummed bytes
    themselves (collision freedom), gzip by the identity (`content` is the uncompressed content);
  * a data file name `YYYY-MM-DD-HH-MM-SS.<ext>` is a `Name`: the six date fields packed into one
    `Nat` (any encoding monotone in the string order of the fixed-width date, the driver uses the 14
    decimal digits) plus the extension `.fs | .fsz | .deltafs | .deltafsz`; `nameKey` is the position of
    the name in Python's string order (`.deltafs < .deltafsz < .fs < .fsz` for equal dates);
  * the source `Data.fs` is `committed ++ tail`: `committed` = the bytes up to the end of the last
    complete transaction (what a read-only `FileStorage` open reports as `getSize()`), `tail` = the
    bytes of a transaction in progress (status `c`), possibly empty;
  * a `.index` file is represented by the committed bytes it was computed from (the saved index is a
    function of that prefix; `pos` is its length).
  Core Lean only.
-/
import ZodbModel.Basic
namespace ZodbModel.Repozo

/-! ### names, files, repository -/

structure Name where
  date : Nat
  full : Bool      -- `.fs[z]` (full backup) vs `.deltafs[z]` (incremental)
  gz : Bool        -- trailing `z`
deriving DecidableEq, Repr

def extRank (n : Name) : Nat := (if n.full then 2 else 0) + (if n.gz then 1 else 0)

/-- position of the file name in Python's string order -/
def nameKey (n : Name) : Nat := n.date * 4 + extRank n

structure DFile where
  name : Name
  content : Bytes
deriving DecidableEq, Repr

/-- one line of a `.dat` file: `filename startpos endpos md5` -/
structure DatLine where
  fn : Name
  startpos : Nat
  endpos : Nat
  sum : Bytes
deriving DecidableEq, Repr

structure Repo where
  files : List DFile                    -- the data files of the directory (any order)
  dats : List (Nat × List DatLine)      -- `<date>.dat`
  idxs : List (Nat × Bytes)             -- `<date>.index`
deriving DecidableEq, Repr

def Repo.empty : Repo := ⟨[], [], []⟩

/-! association lists keyed by date (one file per name in a directory) -/

def getK {α} (k : Nat) : List (Nat × α) → Option α
  | [] => none
  | (k', v) :: t => if k' = k then some v else getK k t

def delK {α} (k : Nat) (l : List (Nat × α)) : List (Nat × α) := l.filter (fun p => p.1 ≠ k)

def setK {α} (k : Nat) (v : α) (l : List (Nat × α)) : List (Nat × α) := (k, v) :: delK k l

/-! ### the source file -/

structure Src where
  committed : Bytes
  tail : Bytes
deriving DecidableEq, Repr

def Src.raw (s : Src) : Bytes := s.committed ++ s.tail

/-- `fp.seek(start); read n bytes` (fewer at end of file) -/
def copyRange (b : Bytes) (start n : Nat) : Bytes := (b.drop start).take n

/-! ### find_files -/

def insertDesc (f : DFile) : List DFile → List DFile
  | [] => [f]
  | g :: t => if nameKey g.name ≤ nameKey f.name then f :: g :: t else g :: insertDesc f t

/-- `sorted(names, reverse=True)` -/
def sortDesc (l : List DFile) : List DFile := l.foldr insertDesc []

/-- the `for fname in all:` loop of `find_files`: keep names whose date part is `<= when`,
    stop after the first full backup -/
def scanNeeded (when : Nat) : List DFile → List DFile
  | [] => []
  | f :: t =>
    if f.name.date ≤ when then
      (if f.name.full then [f] else f :: scanNeeded when t)
    else scanNeeded when t

/-- `find_files`: newest full backup not after `when` and the incrementals after it up to `when`,
    in chronological order -/
def findFiles (r : Repo) (when : Nat) : List DFile := (scanNeeded when (sortDesc r.files)).reverse

/-- `concat(files)`: the concatenated (uncompressed) contents -/
def concat : List DFile → Bytes
  | [] => []
  | f :: t => f.content ++ concat t

/-- `scandat`: last line of the `.dat` file next to `repofiles[0]` -/
def scandat (r : Repo) (repofiles : List DFile) : Option DatLine :=
  match repofiles with
  | [] => none
  | f :: _ =>
    match getK f.name.date r.dats with
    | none => none
    | some ls => ls.getLast?

/-! ### backup -/

structure BOpts where
  full : Bool      -- -F
  quick : Bool     -- -Q
  gz : Bool        -- -z
  killold : Bool   -- -k
deriving DecidableEq, Repr

inductive Err where
  | noFiles | wouldOverwrite | assertion | osError | keyError
  | verifyMissing | verifySize | verifySum
deriving DecidableEq, Repr

inductive Outcome where
  | full | incr | noop | err (e : Err)
deriving DecidableEq, Repr

/-- `delete_old_backups`: keep only the most recent full backup file (in name order) and the
    `.dat`/`.index` whose root is not the root of a deleted file -/
def deleteOldBackups (r : Repo) : Repo :=
  match (sortDesc r.files).find? (fun f => f.name.full) with
  | none => r
  | some recent =>
    let deletable := r.files.filter (fun f => f.name ≠ recent.name)
    { files := r.files.filter (fun f => f.name = recent.name),
      dats := r.dats.filter (fun p => !deletable.any (fun f => f.name.date == p.1)),
      idxs := r.idxs.filter (fun p => !deletable.any (fun f => f.name.date == p.1)) }

/-- `do_full_backup` -/
def doFullBackup (r : Repo) (src : Src) (o : BOpts) (now : Nat) : Repo × Outcome :=
  let nm : Name := ⟨now, true, o.gz⟩
  if r.files.any (fun f => f.name = nm) then (r, .err .wouldOverwrite)
  else
    let pos := src.committed.length                 -- fs.getSize() of the read-only open
    let idxs := setK now src.committed r.idxs       -- fs._index.save(pos, <now>.index)
    let data := copyRange src.raw 0 pos             -- copyfile(options, dest, 0, pos)
    let r' : Repo := { files := ⟨nm, data⟩ :: r.files,
                       dats := setK now [⟨nm, 0, pos, data⟩] r.dats,
                       idxs := idxs }
    (if o.killold then deleteOldBackups r' else r', .full)

/-- `do_incremental_backup(options, reposz, repofiles)` -/
def doIncrementalBackup (r : Repo) (src : Src) (o : BOpts) (now reposz : Nat)
    (repofiles : List DFile) : Repo × Outcome :=
  let nm : Name := ⟨now, false, o.gz⟩
  if r.files.any (fun f => f.name = nm) then (r, .err .wouldOverwrite)
  else
    let pos := src.committed.length
    let idxs := setK now src.committed r.idxs
    if pos < reposz then
      -- copyfile(.., reposz, pos - reposz) with a negative count: `assert ndone == n` fails after
      -- the index file was written
      ({ r with idxs := idxs }, .err .assertion)
    else
      let data := copyRange src.raw reposz (pos - reposz)
      match repofiles with
      | [] => (r, .err .assertion)                  -- not reachable: callers pass a non-empty list
      | f0 :: _ =>
        let d0 := f0.name.date
        let line : DatLine := ⟨nm, reposz, pos, data⟩
        let old := match getK d0 r.dats with | some ls => ls | none => []   -- open(datfile, 'a')
        ({ files := ⟨nm, data⟩ :: r.files, dats := setK d0 (old ++ [line]) r.dats, idxs := idxs },
         .incr)

/-- `do_backup`, the decision tree exactly as coded -/
def doBackup (r : Repo) (src : Src) (o : BOpts) (now : Nat) : Repo × Outcome :=
  let repofiles := findFiles r now
  if o.full || repofiles.isEmpty then doFullBackup r src o now
  else
    let srcsz := src.raw.length                      -- os.path.getsize(options.file)
    if o.quick then
      match scandat r repofiles with
      | none => doFullBackup r src o now             -- missing or empty .dat
      | some l =>
        if srcsz < l.endpos then doFullBackup r src o now          -- file shrunk
        else
          let srcsum := copyRange src.raw l.startpos (l.endpos - l.startpos)
          if l.sum = srcsum then
            (if srcsz = l.endpos then (r, .noop)
             else doIncrementalBackup r src o now l.endpos repofiles)
          else doFullBackup r src o now
    else
      let reposum := concat repofiles
      let reposz := reposum.length
      let srcsum := src.raw.take srcsz
      let srcsumBackedup := src.raw.take reposz
      if srcsz = reposz ∧ srcsum = reposum then (r, .noop)
      else if srcsz < reposz then doFullBackup r src o now
      else if reposum = srcsumBackedup then doIncrementalBackup r src o now reposz repofiles
      else doFullBackup r src o now

/-- The hypothesis under which the quick mode's comparison (size and checksum of the range of the
    LAST chunk only) is as good as the slow mode's: the file shrank below the recorded end, or a
    byte inside the last chunk's range differs, or the whole backed-up prefix is still there. -/
def QuickDetectable (r : Repo) (src : Src) (now : Nat) : Prop :=
  match scandat r (findFiles r now) with
  | none => True
  | some l =>
    src.raw.length < l.endpos ∨
    copyRange src.raw l.startpos (l.endpos - l.startpos) ≠ l.sum ∨
    src.raw.take l.endpos = concat (findFiles r now)

instance (r : Repo) (src : Src) (now : Nat) : Decidable (QuickDetectable r src now) := by
  unfold QuickDetectable; split <;> infer_instance

/-! ### recover -/

/-- the output location: `<output>`, `<output>.part`, `<output>.index` -/
structure Out where
  file : Option Bytes
  part : Option Bytes
  index : Option Bytes
deriving DecidableEq, Repr

/-- `truth_dict[filename]` (a later line for the same name overwrites an earlier one) -/
def truthLookup (nm : Name) (lines : List DatLine) : Option DatLine :=
  lines.foldl (fun acc l => if l.fn = nm then some l else acc) none

/-- the `for repofile in repofiles:` loop of `--with-verify`; each chunk is written before it is
    checked.  Returns the bytes written and the error, if any. -/
def recoverVerifyLoop (truth : List DatLine) : List DFile → Bytes → Bytes × Option Err
  | [], acc => (acc, none)
  | f :: t, acc =>
    let acc' := acc ++ f.content
    match truthLookup f.name truth with
    | none => (acc', some .keyError)
    | some l =>
      if f.content.length + l.startpos ≠ l.endpos then (acc', some .verifySize)
      else if f.content ≠ l.sum then (acc', some .verifySum)
      else recoverVerifyLoop truth t acc'

/-- bytes written to the output stream and the error raised while doing so -/
def recoverStream (r : Repo) (repofiles : List DFile) (withVerify : Bool) : Bytes × Option Err :=
  if withVerify then
    match repofiles with
    | [] => ([], none)
    | f0 :: _ =>
      match getK f0.name.date r.dats with
      | none => ([], some .osError)                  -- open(datfile) fails
      | some truth => recoverVerifyLoop truth repofiles []
  else (concat repofiles, none)

/-- `do_recover` with `-o output` -/
def doRecover (r : Repo) (when : Nat) (withVerify : Bool) (o : Out) : Out × Option Err :=
  let repofiles := findFiles r when
  match repofiles.getLast? with
  | none => (o, some .noFiles)
  | some lastf =>
    -- existing output unlinked, `.part` opened for writing
    let (written, e) := recoverStream r repofiles withVerify
    match e with
    | some err => ({ file := none, part := some written, index := o.index }, some err)
    | none =>
      let index := match getK lastf.name.date r.idxs with
                   | some ix => some ix             -- shutil.copyfile(source_index, target_index)
                   | none => o.index                -- "No index file to restore": left as it was
      ({ file := some written, part := none, index := index }, none)   -- rename(.part, output)

/-- `do_recover` to stdout -/
def doRecoverStdout (r : Repo) (when : Nat) (withVerify : Bool) : Bytes × Option Err :=
  let repofiles := findFiles r when
  if repofiles.isEmpty then ([], some .noFiles) else recoverStream r repofiles withVerify

/-! ### verify -/

/-- the `for line in fp:` loop of `do_verify` -/
def verifyLoop (files : List DFile) (quick : Bool) : List DatLine → Option Err
  | [] => none
  | l :: t =>
    match files.find? (fun f => f.name = l.fn) with
    | none => some .verifyMissing
    | some f =>
      if f.content.length + l.startpos ≠ l.endpos then some .verifySize
      else if !quick && f.content ≠ l.sum then some .verifySum
      else verifyLoop files quick t

def insertAscK {α} (p : Nat × α) : List (Nat × α) → List (Nat × α)
  | [] => [p]
  | q :: t => if p.1 ≤ q.1 then p :: q :: t else q :: insertAscK p t

/-- `sorted(...)` of the `.dat` file names (by date) -/
def sortAscK {α} (l : List (Nat × α)) : List (Nat × α) := l.foldr insertAscK []

/-- the lines `do_verify` reads: first the `.dat` next to `repofiles[0]`, then every other `.dat`
    of the repository in name order (`fileinput.input([datfile] + sorted(others))`) -/
def verifyLines (r : Repo) (d0 : Nat) (first : List DatLine) : List DatLine :=
  first ++ (sortAscK (r.dats.filter (fun p => p.1 ≠ d0))).flatMap (fun p => p.2)

/-- `do_verify` (`now` = the current time: `--date` is ignored in verify mode) -/
def doVerify (r : Repo) (quick : Bool) (now : Nat) : Option Err :=
  match findFiles r now with
  | [] => some .noFiles
  | f0 :: _ =>
    match getK f0.name.date r.dats with
    | none => some .osError
    | some lines => verifyLoop r.files quick (verifyLines r f0.name.date lines)

/-! ### single-file damages of the repository -/

def delFile (nm : Name) (r : Repo) : Repo := { r with files := r.files.filter (fun f => f.name ≠ nm) }

def setContent (nm : Name) (c : Bytes) (r : Repo) : Repo :=
  { r with files := r.files.map (fun f => if f.name = nm then { f with content := c } else f) }

/-- not "backup files recorded" in the sense of the property, but used by the correspondence check -/
def delDat (d : Nat) (r : Repo) : Repo := { r with dats := delK d r.dats }
def delIdx (d : Nat) (r : Repo) : Repo := { r with idxs := delK d r.idxs }

/-! ### the system: a live source and its repository -/

/-- `hist`: ghost record of every backup run that wrote a file — its date and the committed bytes of
    the source at that moment — newest first, never pruned.  `last`: date of the last backup run. -/
structure St where
  repo : Repo
  src : Src
  hist : List (Nat × Bytes)
  last : Nat
deriving Repr

def St.init (src : Src) : St := ⟨Repo.empty, src, [], 0⟩

def wroteFile : Outcome → Bool
  | .full => true
  | .incr => true
  | _ => false

def backupStep (s : St) (o : BOpts) (now : Nat) : St :=
  let (r', out) := doBackup s.repo s.src o now
  { repo := r', src := s.src,
    hist := if wroteFile out then (now, s.src.committed) :: s.hist else s.hist,
    last := now }

/-- does the repository still hold the backup file of that date? -/
def holds (r : Repo) (d : Nat) : Bool := r.files.any (fun f => f.name.date == d)

end ZodbModel.Repozo
