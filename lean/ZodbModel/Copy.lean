/-
  C17 (copy part) — model of `ZODB.BaseStorage.copy` / `copyTransactionsFrom`,
  `ZODB.blob.copyTransactionsFromTo`, `FileStorage.restore` (with `_txn_find`, `_data_find`) and of
  the record iteration of `FileIterator` / `TransactionRecordIterator`.

  Level: records.  A FileStorage is a list of transactions kept NEWEST FIRST; a data record holds
  either a pickle (`full`), a back pointer to a record of an OLDER transaction (`back lvl idx`:
  record number `idx` of the transaction that has exactly `lvl` older transactions — the abstract
  counterpart of the file offset; `Recover.lean` translates it to the byte offset), or the zero
  back pointer of an un-creation (`uncreate`).  With the newest-first list, chasing a back pointer
  is structural recursion on the list (DESIGN 3.3).

  The source of a copy is whatever `source.iterator()` yields: a list of `ITxn` (oldest first)
  whose records carry the resolved data (`none` = un-creation) and the one-hop `data_txn` hint.
  That covers every source kind (MappingStorage / DemoStorage records never carry a hint).
  Core Lean only.
-/
import ZodbModel.Basic
namespace ZodbModel.Copy

/-! ### record-level store -/

inductive Body where
  | full (d : Bytes)            -- plen = |d| > 0, pickle follows the header
  | back (lvl idx : Nat)        -- plen = 0, non-zero back pointer
  | uncreate                    -- plen = 0, back pointer 0
deriving Repr, DecidableEq

structure Rec where
  oid : Nat
  serial : Nat                     -- the tid field of the data header
  prev : Option (Nat × Nat)        -- `prev` field: previous committed record of the oid (none = 0)
  body : Body
deriving Repr, DecidableEq

structure Txn where
  tid : Nat
  status : Nat                     -- the status byte (32 = ' ', 112 = 'p')
  user : Bytes
  desc : Bytes
  ext : Bytes
  recs : List Rec
deriving Repr, DecidableEq

/-- committed transactions, NEWEST FIRST -/
abbrev Store := List Txn

/-! ### what an iterator yields -/

structure IRec where
  oid : Nat
  tid : Nat
  data : Option Bytes              -- none = un-creation ("George Bailey")
  dataTxn : Option Nat             -- `data_txn`: tid of the record the back pointer points to
deriving Repr, DecidableEq

structure ITxn where
  tid : Nat
  status : Nat
  user : Bytes
  desc : Bytes
  ext : Bytes
  recs : List IRec
deriving Repr, DecidableEq

/-- the record a pointer designates, together with the transactions older than its transaction -/
def recAt : Store → Nat → Nat → Option (Rec × Store)
  | [], _, _ => none
  | t :: older, lvl, idx =>
    if lvl = older.length then (t.recs[idx]?).map (fun r => (r, older))
    else recAt older lvl idx

/-- `_loadBack_impl(oid, back, fail=False)`: follow back pointers until a pickle (`some (some d)`)
    or a zero back pointer (`some none`) is found; `none` = the pointer designates no record
    (the real code raises `CorruptedDataError`). -/
def loadBack : Store → Nat → Nat → Option (Option Bytes)
  | [], _, _ => none
  | t :: older, lvl, idx =>
    if lvl = older.length then
      match t.recs[idx]? with
      | none => none
      | some r =>
        match r.body with
        | .full d => some (some d)
        | .uncreate => some none
        | .back l i => loadBack older l i
    else loadBack older lvl idx

/-- `TransactionRecordIterator.__next__` for one record of a transaction whose older transactions
    are `older`: the pickle, `None` for a zero back pointer, else the data at the end of the
    back-pointer chain and — one hop only — the tid of the record pointed to (`getTxnFromData`,
    which insists on the same oid). -/
def iterRec (older : Store) (r : Rec) : Option IRec :=
  match r.body with
  | .full d => some ⟨r.oid, r.serial, some d, none⟩
  | .uncreate => some ⟨r.oid, r.serial, none, none⟩
  | .back l i =>
    match loadBack older l i, recAt older l i with
    | some d, some (r', _) =>
      if r'.oid = r.oid then some ⟨r.oid, r.serial, d, some r'.serial⟩ else none
    | _, _ => none

def iterRecs (older : Store) : List Rec → Option (List IRec)
  | [] => some []
  | r :: rs =>
    match iterRec older r, iterRecs older rs with
    | some x, some xs => some (x :: xs)
    | _, _ => none

def iterTxn (older : Store) (t : Txn) : Option ITxn :=
  match iterRecs older t.recs with
  | some rs => some ⟨t.tid, t.status, t.user, t.desc, t.ext, rs⟩
  | none => none

/-- `FileStorage.iterator()`: all transactions, oldest first (`none` = a dangling pointer) -/
def iterate : Store → Option (List ITxn)
  | [] => some []
  | t :: older =>
    match iterate older, iterTxn older t with
    | some ts, some x => some (ts ++ [x])
    | _, _ => none

/-- `iterator(start, stop)`: `_skip_to_start` positions on the first transaction with
    `tid ≥ start`; `__next__` stops at the first transaction with `tid > stop`. -/
def iterRange (src : List ITxn) (start stop : Option Nat) : List ITxn :=
  let s := match start with
    | none => src
    | some a => src.dropWhile (fun t => t.tid < a)
  match stop with
  | none => s
  | some b => s.takeWhile (fun t => t.tid ≤ b)

/-! ### `FileStorage.restore` -/

inductive Err where
  | typeError      -- `_data_find`: `len(None)` (a pickle is found where the source had none)
deriving Repr, DecidableEq

/-- index (from 0) of the LAST occurrence of `oid` in a list of oids -/
def lastIdx (oid : Nat) : List Nat → Option Nat
  | [] => none
  | o :: rest =>
    match lastIdx oid rest with
    | some i => some (i + 1)
    | none => if o = oid then some 0 else none

def oids (t : Txn) : List Nat := t.recs.map (·.oid)

/-- `_txn_find(tid, stop_at_pack=0)`: walk the committed file backwards from its end; the first
    transaction with that tid, and the transactions older than it. -/
def txnFind : Store → Nat → Option (Txn × Store)
  | [], _ => none
  | t :: older, tid => if t.tid = tid then some (t, older) else txnFind older tid

/-- `self._index_get(oid, 0)`: the newest committed record of `oid` -/
def indexGet : Store → Nat → Option (Nat × Nat)
  | [], _ => none
  | t :: older, oid =>
    match lastIdx oid (oids t) with
    | some i => some (older.length, i)
    | none => indexGet older oid

/-- `_data_find(tpos, oid, data)` on the transaction `t` that has `lvl` older transactions:
    the LAST record of `oid` in `t`; a record without pickle is trusted; a pickle of another
    length or other bytes gives 0 (here `none`); `len(None)` raises. -/
def dataFind (t : Txn) (lvl oid : Nat) (data : Option Bytes) : Except Err (Option (Nat × Nat)) :=
  match lastIdx oid (oids t) with
  | none => .ok none
  | some i =>
    match t.recs[i]? with
    | none => .ok none
    | some q =>
      match q.body with
      | .full d =>
        match data with
        | none => .error .typeError
        | some d' =>
          if d.length ≠ d'.length then .ok none
          else if d' = d then .ok (some (lvl, i)) else .ok none
      | _ => .ok (some (lvl, i))

/-- the back pointer `restore` derives from the `prev_txn` hint; the hint is ignored when the
    destination has no such transaction (`UndoError` of `_txn_find` caught — the repaired code) -/
def prevPos (D : Store) (r : IRec) : Except Err (Option (Nat × Nat)) :=
  match r.dataTxn with
  | none => .ok none
  | some h =>
    match txnFind D h with
    | none => .ok none
    | some (t, older) => dataFind t older.length r.oid r.data

/-- `restore(oid, serial, data, '', prev_txn, txn)` against the committed transactions `D`:
    the data record appended to the transaction in progress. -/
def restoreRec (D : Store) (r : IRec) : Except Err Rec :=
  match prevPos D r with
  | .error e => .error e
  | .ok (some (l, i)) => .ok ⟨r.oid, r.tid, indexGet D r.oid, .back l i⟩
  | .ok none =>
    match r.data with
    | some d => .ok ⟨r.oid, r.tid, indexGet D r.oid, .full d⟩
    | none => .ok ⟨r.oid, r.tid, indexGet D r.oid, .uncreate⟩

def restoreRecs (D : Store) : List IRec → Except Err (List Rec)
  | [] => .ok []
  | r :: rs =>
    match restoreRec D r, restoreRecs D rs with
    | .ok x, .ok xs => .ok (x :: xs)
    | .error e, _ => .error e
    | _, .error e => .error e

/-- `tpc_begin(txn, tid, status)`; `restore` for every record; `tpc_vote`; `tpc_finish` -/
def restoreTxn (D : Store) (t : ITxn) (tid : Nat) : Except Err Store :=
  match restoreRecs D t.recs with
  | .ok rs => .ok (⟨tid, t.status, t.user, t.desc, t.ext, rs⟩ :: D)
  | .error e => .error e

/-! ### the copy loops -/

/-- the time-stamp fix-up of `BaseStorage.copy` / `fsrecover.recover`
    (`TimeStamp.laterThan` idealised as `+ 1`): the tid to use and the new `_ts` -/
def fixTid (ts : Option Nat) (tid : Nat) : Nat × Option Nat :=
  match ts with
  | none => (tid, some tid)
  | some s => if tid ≤ s then (s + 1, some (s + 1)) else (tid, some tid)

/-- `BaseStorage.copy(source, dest)` with a destination that has `restore` -/
def copyLoop : List ITxn → Option Nat → Store → Except Err Store
  | [], _, D => .ok D
  | t :: rest, ts, D =>
    match restoreTxn D t (fixTid ts t.tid).1 with
    | .ok D' => copyLoop rest (fixTid ts t.tid).2 D'
    | .error e => .error e

def copy (src : List ITxn) (dst₀ : Store) : Except Err Store := copyLoop src none dst₀

/-- `blob.copyTransactionsFromTo(source, destination)`: no time-stamp fix-up -/
def copyBlobLoop : List ITxn → Store → Except Err Store
  | [], D => .ok D
  | t :: rest, D =>
    match restoreTxn D t t.tid with
    | .ok D' => copyBlobLoop rest D'
    | .error e => .error e

/-- committed blob files: `(oid, tid) ↦ content` -/
abbrev Blobs := List ((Nat × Nat) × Bytes)

def loadBlob (b : Blobs) (oid tid : Nat) : Option Bytes :=
  match b.find? (fun e => e.1 = (oid, tid)) with
  | some e => some e.2
  | none => none

/-- the blob files `copyTransactionsFromTo` creates in the destination: one per record whose
    data is a blob record (`isBlob`, the uninterpreted `is_blob_record`) and whose file the
    source has (`loadBlob` not raising POSKeyError) -/
def copyBlobs (isBlob : Bytes → Bool) (srcBlobs : Blobs) (src : List ITxn) : Blobs :=
  src.flatMap fun t => t.recs.filterMap fun r =>
    match r.data with
    | some d =>
      if isBlob d then
        match loadBlob srcBlobs r.oid r.tid with
        | some c => some ((r.oid, r.tid), c)
        | none => none
      else none
    | none => none

/-! ### the abstract history both sides are compared on -/

structure HRec where
  oid : Nat
  tid : Nat
  data : Option Bytes
deriving Repr, DecidableEq

structure HTxn where
  tid : Nat
  status : Nat
  user : Bytes
  desc : Bytes
  ext : Bytes
  recs : List HRec
deriving Repr, DecidableEq

def absRec (r : IRec) : HRec := ⟨r.oid, r.tid, r.data⟩
def absTxn (t : ITxn) : HTxn := ⟨t.tid, t.status, t.user, t.desc, t.ext, t.recs.map absRec⟩
/-- the history an iteration denotes (hints dropped) -/
def absH (l : List ITxn) : List HTxn := l.map absTxn

end ZodbModel.Copy
