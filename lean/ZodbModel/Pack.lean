/-
  Record-level model of packing (C07).  Core Lean only.

  Follows, function by function,
    src/ZODB/FileStorage/fspack.py   GC.buildPackIndex / findReachableAtPacktime /
                                     findReachableFromFuture / findrefs / isReachable,
                                     FileStoragePacker.copyToPacktime / copyDataRecords / copyRest /
                                     copyOne, PackCopier.copy / _txn_find / _data_find
    src/ZODB/FileStorage/FileStorage.py  pack (empty-storage guard, RedundantPackWarning, "nothing
                                     freed" no-op)
    src/ZODB/MappingStorage.py       pack (already-packed guard, step 1, step 2)
  at the level of *records*: a history is the list of committed transactions in commit order, a
  record is identified by (tid, oid), a back pointer is the tid of the transaction holding the
  record it points to (what the storage iterator reports as `data_txn`).  File offsets, `prev`
  pointers and byte layout are not modelled (C04/C01 do that); sizes are, as far as the packer's
  own decisions depend on them (`ipos == opos`).
-/
import ZodbModel.Basic
import ZodbModel.Reach
namespace ZodbModel.Pack
open ZodbModel

/-- object ids and transaction ids are natural numbers (< 2^64 in the storage).  Notations, not
    `abbrev`s, so that `omega` sees `Nat`. -/
scoped notation "Oid" => Nat
scoped notation "Tid" => Nat

/-- One data record.  `data` is the record's pickle *resolved through its back pointer*
    (`none` = un-creation / deletion: `plen = 0 ∧ back = 0`, or a back pointer that ultimately
    resolves to such a record); `refs = referencesf data`; `dlen = len data`;
    `back = some bt` when the record is stored as a back pointer to the record of the same oid
    in transaction `bt` (written by undo). -/
structure Rec where
  oid  : Oid
  data : Option Bytes
  dlen : Nat
  refs : List Oid
  back : Option Tid
deriving DecidableEq, Repr, Inhabited

/-- One transaction: `packed` = status `'p'`; `mlen` = |user|+|description|+|extension|;
    `mdata` an opaque digest of the three. -/
structure Txn where
  tid    : Tid
  packed : Bool
  mlen   : Nat
  mdata  : Bytes
  recs   : List Rec
deriving DecidableEq, Repr, Inhabited

/-- commit order, oldest first -/
abbrev History := List Txn

/-! ### queries (the specification side: C04's `History` restricted to what C07 needs) -/

/-- A transaction may hold several records of one oid (two `store` calls, or two `undo` calls of
    one transaction hitting the same object — `DB.undoMultiple`).  The storage's index keeps the
    LAST one (`self._tindex[oid] = here`, `oid2curpos[dh.oid] = pos` overwrite); the earlier ones are
    never loaded.  `dedupLast` drops every record that is followed by a record of the same oid. -/
def dedupLast : List Rec → List Rec
  | [] => []
  | r :: rest => if rest.any (fun x => x.oid == r.oid) then dedupLast rest else r :: dedupLast rest

/-- the record of `o` in `t` that the storage sees: the last one -/
def Txn.recOf (t : Txn) (o : Oid) : Option Rec := (dedupLast t.recs).find? (fun r => r.oid == o)

/-- all records of `o`, in commit order, tagged with their tid -/
def recsOf (h : History) (o : Oid) : List (Tid × Rec) :=
  h.filterMap (fun t => (t.recOf o).map (fun r => (t.tid, r)))

/-- newest record of `o` with tid < b -/
def lastBefore (h : History) (o : Oid) (b : Tid) : Option (Tid × Rec) :=
  (recsOf h o).reverse.find? (fun x => decide (x.1 < b))

/-- tid of the oldest record of `o` with tid ≥ b (the `end_tid` of loadBefore) -/
def firstFrom (h : History) (o : Oid) (b : Tid) : Option Tid :=
  ((recsOf h o).find? (fun x => decide (b ≤ x.1))).map (·.1)

inductive Load where
  | keyError
  | none
  | some (data : Bytes) (serial : Tid) (endTid : Option Tid)
deriving DecidableEq, Repr

/-- `loadBefore(oid, b)`: unknown oid → POSKeyError; no revision before `b` → None; newest such
    revision is an un-creation → POSKeyError; else (data, serial, end_tid). -/
def loadBefore (h : History) (o : Oid) (b : Tid) : Load :=
  if (recsOf h o).isEmpty then .keyError
  else match lastBefore h o b with
    | Option.none => .none
    | Option.some (t, r) =>
      match r.data with
      | Option.none => .keyError
      | Option.some d => .some d t (firstFrom h o b)

/-- references of `o` in the snapshot "before b" (nothing for an absent / un-created object) -/
def refsAt (h : History) (b : Tid) (o : Oid) : List Oid :=
  match lastBefore h o b with
  | some (_, r) => if r.data.isSome then r.refs else []
  | none => []

/-- `o` is reachable from the root (oid 0) in the snapshot "before b" -/
def ReachableAt (h : History) (b : Tid) (o : Oid) : Prop :=
  Reach.Reachable (refsAt h b) [0] o

/-- the record `(t, o)` is superseded at `T`: a later record of `o` exists with tid ≤ T -/
def supersededAt (h : History) (T : Tid) (t : Tid) (o : Oid) : Bool :=
  h.any (fun t' => decide (t < t'.tid) && decide (t'.tid ≤ T) && (t'.recOf o).isSome)

/-- `o` has a record after `T` -/
def writtenAfter (h : History) (T : Tid) (o : Oid) : Bool :=
  h.any (fun t' => decide (T < t'.tid) && (t'.recOf o).isSome)

/-- the record `(t, o)` is present in `h` -/
def hasRec (h : History) (t : Tid) (o : Oid) : Bool :=
  h.any (fun t' => t'.tid == t && (t'.recOf o).isSome)

/-! ### sizes (only what the packer's decisions depend on) -/

def Rec.size (r : Rec) : Nat := 42 + (if r.back.isSome || r.data.isNone then 8 else r.dlen)
def Txn.size (t : Txn) : Nat := 23 + t.mlen + (t.recs.map Rec.size).sum + 8
def histSize (h : History) : Nat := (h.map Txn.size).sum

/-! ### FileStorage: GC -/

inductive PackErr where
  | keyError      -- dangling reference met by findReachableAtPacktime
  | valueError    -- MappingStorage: "Already packed to a later time"
  | fuel          -- never (see `Proofs.Pack.mark_ne_fuel`)
deriving DecidableEq, Repr

/-- `buildPackIndex`: `if dh.plen or dh.back: oid2curpos[oid] = pos  else: del oid2curpos[oid]` -/
def inIndex (r : Rec) : Bool := r.back.isSome || r.data.isSome

def lastRec (pre : History) (o : Oid) : Option (Tid × Rec) := (recsOf pre o).getLast?

/-- `oid2curpos` after scanning the transactions up to the pack time -/
def curAt (pre : History) (o : Oid) : Option (Tid × Rec) :=
  match lastRec pre o with
  | some (t, r) => if inIndex r then some (t, r) else none
  | none => none

/-- `findrefs(oid2curpos[o])`: references of the (resolved) pickle current at the pack time -/
def refsAtT (pre : History) (o : Oid) : List Oid :=
  match curAt pre o with
  | some (_, r) => if r.data.isSome then r.refs else []
  | none => []

/-- every oid that occurs anywhere (search universe, only used for the fuel) -/
def allOids (h : History) : List Oid :=
  0 :: h.flatMap (fun t => t.recs.flatMap (fun r => r.oid :: r.refs))

/-- `len(oid2curpos) == 0` -/
def indexEmpty (pre : History) : Bool :=
  pre.all (fun t => t.recs.all (fun r => (curAt pre r.oid).isNone))

/-- `reachable[oid] = oid2curpos[oid]` for the freshly marked oids; KeyError for a marked oid
    that is not in the index (except the root of a storage that is empty at the pack time) -/
def addMarks (pre : History) (reach : List (Oid × Tid)) : List Oid → Except PackErr (List (Oid × Tid))
  | [] => .ok reach
  | o :: rest =>
    match curAt pre o with
    | some (t, _) => addMarks pre (reach ++ [(o, t)]) rest
    | none => if o == 0 && indexEmpty pre then addMarks pre reach rest else .error .keyError

/-- `findReachableAtPacktime(roots)` on top of the marks `reach` -/
def mark (pre : History) (U : List Oid) (reach : List (Oid × Tid)) (roots : List Oid) :
    Except PackErr (List (Oid × Tid)) :=
  let keys := reach.map (·.1)
  match Reach.closure (refsAtT pre) (Reach.fuelFor (refsAtT pre) roots U) keys roots with
  | none => .error .fuel
  | some S => addMarks pre reach ((S.filter (fun o => !keys.contains o)).reverse)

/-- back pointers of post-pack-time records that cross the pack time (`dh.back < packpos`),
    in file order -/
def crossing (post : History) (T : Tid) : List (Oid × Tid) :=
  post.flatMap (fun t => t.recs.filterMap (fun r =>
    match r.back with
    | some bt => if bt ≤ T then some (r.oid, bt) else none
    | none => none))

structure GC where
  reach : List (Oid × Tid)     -- `reachable`: oid ↦ the kept record (first entry wins)
  ex    : List (Oid × Tid)     -- `reach_ex` (= `extra_roots`)
deriving Repr

/-- loop body of `findReachableFromFuture` -/
def scanStep (g : GC) (c : Oid × Tid) : GC :=
  if (g.reach.lookup c.1).isSome then
    (if g.ex.contains c then g else { g with ex := g.ex ++ [c] })
  else { g with reach := g.reach ++ [c] }

def scan (g : GC) (cs : List (Oid × Tid)) : GC := cs.foldl scanStep g

def recAt (h : History) (t : Tid) (o : Oid) : Option Rec :=
  (h.find? (fun t' => t'.tid == t)).bind (fun t' => t'.recOf o)

/-- `for pos in extra_roots: self.findReachableAtPacktime(self.findrefs(pos))` -/
def markAll (pre : History) (U : List Oid) (reach : List (Oid × Tid)) :
    List (Oid × Tid) → Except PackErr (List (Oid × Tid))
  | [] => .ok reach
  | (o, bt) :: rest =>
    let refs := match recAt pre bt o with
      | some r => if r.data.isSome then r.refs else []
      | none => []
    match mark pre U reach refs with
    | .error e => .error e
    | .ok reach' => markAll pre U reach' rest

/-- gc off: `self.reachable = self.oid2curpos` -/
def indexList (pre : History) : List (Oid × Tid) :=
  pre.flatMap (fun t => t.recs.filterMap (fun r =>
    match curAt pre r.oid with
    | some (t', _) => some (r.oid, t')
    | none => none))

/-- `GC.findReachable` (after `buildPackIndex`) -/
def findReachable (pre post : History) (T : Tid) (gc : Bool) (U : List Oid) : Except PackErr GC :=
  if gc then
    match mark pre U [] [0] with
    | .error e => .error e
    | .ok r1 =>
      let g := scan ⟨r1, []⟩ (crossing post T)
      match markAll pre U g.reach g.ex with
      | .error e => .error e
      | .ok r3 => .ok ⟨r3, g.ex⟩
  else .ok ⟨indexList pre, []⟩

/-- `GC.isReachable(oid, pos)` -/
def GC.isReachable (g : GC) (t : Tid) (o : Oid) : Bool :=
  match g.reach.lookup o with
  | none => false
  | some t' => t' == t || g.ex.contains (o, t)

/-! ### FileStorage: copying -/

/-- `writePackedDataRecord`: back pointer resolved to data (`prev = 0`, `back = 0`) -/
def packRec (r : Rec) : Rec := { r with back := none }

/-- `copyDataRecords` for one transaction: only reachable records, status `'p'`; a transaction
    without a kept record is not copied at all.  `isReachable(oid, pos)` compares positions and the
    marks are positions of index entries / back-pointer targets, i.e. of LAST records: an earlier
    record of the same oid in the same transaction is never copied. -/
def copyPreTxn (keep : Tid → Oid → Bool) (t : Txn) : Option Txn :=
  let rs := (dedupLast t.recs).filter (fun r => keep t.tid r.oid)
  if rs.isEmpty then none else some { t with packed := true, recs := rs.map packRec }

/-- `copyToPacktime` -/
def copyPre (keep : Tid → Oid → Bool) (pre : History) : History := pre.filterMap (copyPreTxn keep)

/-- `PackCopier.copy` for one record of a transaction after the pack time: the back pointer is
    re-derived by looking the transaction id up in the *output* (`_txn_find`) and the oid in that
    transaction (`_data_find`); when either fails the data is written in full. -/
def copyRec (out : History) (r : Rec) : Except PackErr Rec :=
  match r.back with
  | none => .ok r
  | some bt =>
    match out.find? (fun t' => t'.tid == bt) with
    | none => .ok { r with back := none }      -- `except PackError: prev_txn_pos = 0` (whole txn packed away)
    | some t' =>
      match t'.recOf r.oid with
      | none => .ok { r with back := none }
      | some r' =>
        if r'.back.isSome || r'.data.isNone then .ok r            -- "also a backpointer. Gotta trust it"
        else if r'.dlen != r.dlen then .ok { r with back := none }
        else if r'.data != r.data then .ok { r with back := none }
        else .ok r

def copyRecs (out : History) : List Rec → Except PackErr (List Rec)
  | [] => .ok []
  | r :: rest =>
    match copyRec out r with
    | .error e => .error e
    | .ok r' =>
      match copyRecs out rest with
      | .error e => .error e
      | .ok rest' => .ok (r' :: rest')

/-- `copyOne` (a transaction whose length changed because a back pointer was replaced by the data
    gets its header length patched — no failure) -/
def copyTxn (out : History) (t : Txn) : Except PackErr Txn :=
  match copyRecs out t.recs with
  | .error e => .error e
  | .ok rs => .ok { t with recs := rs }

/-- `copyRest` -/
def copyRest (out : History) : History → Except PackErr History
  | [] => .ok out
  | t :: rest =>
    match copyTxn out t with
    | .error e => .error e
    | .ok t' => copyRest (out ++ [t']) rest

/-! ### FileStorage.pack -/

inductive PackOut where
  | ok (h : History)      -- the file was replaced
  | noop                  -- empty storage, or the pack would not free anything
  | redundant             -- RedundantPackWarning (logged; nothing changes)
  | error (e : PackErr)   -- an exception left pack; nothing changes
deriving Repr, DecidableEq

/-- the history after the call -/
def PackOut.hist (h : History) : PackOut → History
  | .ok h' => h'
  | _ => h

/-- `buildPackIndex`'s redundant-pack test: no unpacked transaction up to the pack time and the
    transaction header read last (the first one after the pack time, or — at end of file — the last
    one before it) has status `'p'` -/
def redundant (pre post : History) : Bool :=
  !(pre.any (fun t => !t.packed)) &&
    (match post.head? with
     | some t => t.packed
     | none => match pre.getLast? with
       | some t => t.packed
       | none => false)

def packFS (h : History) (T : Tid) (gc : Bool) : PackOut :=
  if h.all (fun t => t.recs.isEmpty) then .noop               -- `if not self._index: return`
  else
    let pre := h.takeWhile (fun t => decide (t.tid ≤ T))       -- `if th.tid > self.packtime: break`
    let post := h.dropWhile (fun t => decide (t.tid ≤ T))
    if redundant pre post then .redundant
    else
      match findReachable pre post T gc (allOids h) with
      | .error e => .error e
      | .ok g =>
        let pre' := copyPre g.isReachable pre
        if histSize pre' == histSize pre then .noop             -- `if ipos == opos`
        else
          match copyRest pre' post with
          | .error e => .error e
          | .ok h' => .ok h'

/-! ### MappingStorage.pack -/

structure MState where
  h : History
  lastPack : Option Tid
deriving Repr, DecidableEq

/-- remove the records not selected by `keep`; a transaction that lost a record gets status
    `'p'` and disappears when it lost its last one (`TransactionRecord.pack`) -/
def pruneTxn (keep : Tid → Oid → Bool) (t : Txn) : Option Txn :=
  let rs := t.recs.filter (fun r => keep t.tid r.oid)
  if rs.length == t.recs.length then some t
  else if rs.isEmpty then none
  else some { t with packed := true, recs := rs }

def prune (keep : Tid → Oid → Bool) (h : History) : History := h.filterMap (pruneTxn keep)

/-- all references of all revisions of `o` -/
def refsAll (h : History) (o : Oid) : List Oid := (recsOf h o).flatMap (fun x => x.2.refs)

/-- step 2: sweep from the root and the objects written after the pack time -/
def mappingSweep (h1 : History) (T : Tid) : Except PackErr History :=
  let seeds := 0 :: (h1.flatMap (fun t => t.recs.map (·.oid))).filter (fun o => writtenAfter h1 T o)
  match Reach.closure (refsAll h1) (Reach.fuelFor (refsAll h1) seeds (allOids h1)) [] seeds with
  | none => .error .fuel
  | some S =>
    if S.all (fun o => !(recsOf h1 o).isEmpty) then .ok (prune (fun _ o => S.contains o) h1)
    else .error .keyError      -- `self._data[oid]` KeyError: the step-1 state stays (nothing popped)

def packMapping (s : MState) (T : Tid) (gc : Bool) : MState × PackOut :=
  if s.h.all (fun t => t.recs.isEmpty) then (s, .noop)          -- `if not self._data: return`
  else if s.lastPack.any (fun lp => lp == T) then (s, .noop)
  else if s.lastPack.any (fun lp => decide (T < lp)) then (s, .error .valueError)
  else
    let h1 := prune (fun t o => !supersededAt s.h T t o) s.h    -- step 1
    if gc then
      match mappingSweep h1 T with
      | .error e => (⟨h1, some T⟩, .error e)
      | .ok h2 => (⟨h2, some T⟩, .ok h2)
    else (⟨h1, some T⟩, .ok h1)

/-! ### well-formedness and the carve-out of sentence 1 -/

/-- tids strictly increase (FileStorage: `checkTxn` "time-stamp reduction") -/
def Sorted (h : History) : Prop := h.Pairwise (fun a b => a.tid < b.tid)

/-- one-hop consistency of back pointers: the target exists, is older, is a record of the same
    oid and resolves to the same data (so `data` *is* the pickle the storage returns) -/
def BackOK (h : History) : Prop :=
  ∀ t ∈ h, ∀ r ∈ t.recs, ∀ bt, r.back = some bt →
    bt < t.tid ∧ ∃ t' ∈ h, t'.tid = bt ∧ ∃ r', t'.recOf r.oid = some r' ∧
      r'.data = r.data ∧ r'.dlen = r.dlen

/-- reachable from the root at the pack time `T` = in the snapshot "before T+1" -/
def ReachableAtT (h : History) (T : Tid) (o : Oid) : Prop := ReachableAt h (T + 1) o

/-- **NoResurrection** (strengthened, see Props/C07.lean): a record written after `T` references
    an oid that is unreachable at `T` only if that oid has a record with `T < tid ≤` the
    referencing transaction's tid. -/
def NoResurrection (h : History) (T : Tid) : Prop :=
  ∀ t ∈ h, T < t.tid → ∀ r ∈ t.recs, r.data.isSome → ∀ o ∈ r.refs,
    ReachableAtT h T o ∨ ∃ t' ∈ h, T < t'.tid ∧ t'.tid ≤ t.tid ∧ (t'.recOf o).isSome

/-- DESIGN's original (weaker) hypothesis: the referenced oid has *some* record after `T`. -/
def NoResurrectionWeak (h : History) (T : Tid) : Prop :=
  ∀ t ∈ h, T < t.tid → ∀ r ∈ t.recs, r.data.isSome → ∀ o ∈ r.refs,
    ReachableAtT h T o ∨ writtenAfter h T o = true

/-! ### executable versions of the predicates (for the driver and for `decide`) -/

/-- list of oids reachable from the root at the pack time (`none`: out of fuel — never) -/
def reachListAt (h : History) (b : Tid) : Option (List Oid) :=
  Reach.closure (refsAt h b) (Reach.fuelFor (refsAt h b) [0] (allOids h)) [] [0]

def reachListAtT (h : History) (T : Tid) : Option (List Oid) := reachListAt h (T + 1)

def noResurrectionB (h : History) (T : Tid) (strong : Bool) : Bool :=
  match reachListAtT h T with
  | none => false
  | some L =>
    h.all (fun t => !decide (T < t.tid) || t.recs.all (fun r => !r.data.isSome || r.refs.all (fun o =>
      L.contains o ||
        (if strong then h.any (fun t' => decide (T < t'.tid) && decide (t'.tid ≤ t.tid) && (t'.recOf o).isSome)
         else writtenAfter h T o))))

end ZodbModel.Pack
