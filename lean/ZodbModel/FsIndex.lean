/-
  Model of `ZODB.fsIndex.fsIndex` (src/ZODB/fsIndex.py).

  The OOBTree `_data : 6-byte prefix ↦ fsBucket` and every `fsBucket : 2-byte suffix ↦ 6-byte value`
  are idealised as association lists kept strictly sorted by key (trusted: BTrees behaves as a
  sorted map; probed by the correspondence check).  Keys are 8-byte oids as `Nat < 2^64`,
  `pre k = k / 2^16`, `suf k = k % 2^16` is the `key[:6]` / `key[6:]` split of the code.
-/
import ZodbModel.Basic
namespace ZodbModel.FsIndex

abbrev AL (α : Type) := List (Nat × α)

/-! ### the sorted-map primitives BTrees provides -/

def alGet {α} (k : Nat) : AL α → Option α
  | [] => none
  | (k', v) :: t => if k = k' then some v else alGet k t

def alSet {α} (k : Nat) (v : α) : AL α → AL α
  | [] => [(k, v)]
  | (k', v') :: t =>
    if k < k' then (k, v) :: (k', v') :: t
    else if k = k' then (k, v) :: t
    else (k', v') :: alSet k v t

def alDel {α} (k : Nat) : AL α → AL α
  | [] => []
  | (k', v') :: t => if k = k' then t else (k', v') :: alDel k t

/-- `BTree.minKey(k)`: smallest key `≥ k` (`none` ⇒ ValueError) -/
def alMinGE {α} (k : Nat) : AL α → Option Nat
  | [] => none
  | (k', _) :: t => if k ≤ k' then some k' else alMinGE k t

/-- `BTree.maxKey(k)`: largest key `≤ k` (`none` ⇒ ValueError) -/
def alMaxLE {α} (k : Nat) : AL α → Option Nat
  | [] => none
  | (k', _) :: t =>
    if k' ≤ k then (match alMaxLE k t with
                    | some m => some m
                    | none => some k')
    else none

def alMin {α} : AL α → Option Nat
  | [] => none
  | (k, _) :: _ => some k

def alMax {α} : AL α → Option Nat
  | [] => none
  | [(k, _)] => some k
  | _ :: t => alMax t

/-! ### fsIndex -/

inductive Err where
  | keyError      -- KeyError
  | valueError    -- ValueError ("empty tree" / "no key satisfies the conditions")
  | structError   -- struct.error (value does not fit 64 bits)
deriving Repr, DecidableEq

abbrev Idx := AL (AL Nat)

def pre (k : Nat) : Nat := k / 65536
def suf (k : Nat) : Nat := k % 65536
def mk (p s : Nat) : Nat := p * 65536 + s

def maxPrefix : Nat := 2 ^ 48 - 1

/-- `__getitem__` / `get` -/
def get (ix : Idx) (k : Nat) : Option Nat :=
  match alGet (pre k) ix with
  | none => none
  | some b => alGet (suf k) b

/-- `__contains__` / `has_key` -/
def contains (ix : Idx) (k : Nat) : Bool := (get ix k).isSome

/-- `__setitem__`: `num2str` keeps the low 48 bits of a 64-bit value and raises beyond 64 bits. -/
def set (ix : Idx) (k v : Nat) : Except Err Idx :=
  if v ≥ 2 ^ 64 then .error .structError
  else
    let v' := v % 2 ^ 48
    match alGet (pre k) ix with
    | none => .ok (alSet (pre k) [(suf k, v')] ix)
    | some b => .ok (alSet (pre k) (alSet (suf k) v' b) ix)

/-- `__delitem__` -/
def del (ix : Idx) (k : Nat) : Except Err Idx :=
  match alGet (pre k) ix with
  | none => .error .keyError
  | some b =>
    match alGet (suf k) b with
    | none => .error .keyError
    | some _ =>
      let b' := alDel (suf k) b
      if b'.isEmpty then .ok (alDel (pre k) ix) else .ok (alSet (pre k) b' ix)

def len (ix : Idx) : Nat := (ix.map fun pb => pb.2.length).sum

def items (ix : Idx) : List (Nat × Nat) :=
  ix.flatMap fun pb => pb.2.map fun sv => (mk pb.1 sv.1, sv.2)

def keys (ix : Idx) : List Nat := (items ix).map (·.1)
def values (ix : Idx) : List Nat := (items ix).map (·.2)

def clear (_ : Idx) : Idx := []

/-- `update(mapping)` / `fsIndex(data)`: `for k, v in mapping.items(): self[k] = v`.  The source's
    items are copied one by one — the two indexes share nothing afterwards (the model has value
    semantics; the harness probes the real code for aliasing). -/
def update (ix : Idx) : List (Nat × Nat) → Except Err Idx
  | [] => .ok ix
  | (k, v) :: t =>
    match set ix k v with
    | .ok ix' => update ix' t
    | .error e => .error e

/-- what a dictionary holds for `k` after `update(kvs)`: the last pair for `k`, else the old entry -/
def updSpec (old : Option Nat) (k : Nat) : List (Nat × Nat) → Option Nat
  | [] => old
  | (k', v) :: t => updSpec (if k = k' then some v else old) k t

/-- `minKey(key=None)` exactly as coded (after the repair of the absent-prefix defect). -/
def minKey (ix : Idx) : Option Nat → Except Err Nat
  | none =>
    match ix with
    | [] => .error .valueError
    | (p, b) :: _ =>
      match alMin b with
      | some s => .ok (mk p s)
      | none => .error .valueError
  | some key =>
    match alMinGE (pre key) ix with
    | none => .error .valueError
    | some p =>
      match alGet p ix with
      | none => .error .keyError
      | some b =>
        if p ≠ pre key then
          match alMin b with
          | some s => .ok (mk p s)
          | none => .error .valueError
        else
          match alMinGE (suf key) b with
          | some s => .ok (mk p s)
          | none =>
            if p = maxPrefix then .error .valueError
            else
              match alMinGE (p + 1) ix with
              | none => .error .valueError
              | some p' =>
                match alGet p' ix with
                | none => .error .keyError
                | some b' =>
                  match alMin b' with
                  | some s => .ok (mk p' s)
                  | none => .error .valueError

/-- `maxKey(key=None)` exactly as coded (after the repair). -/
def maxKey (ix : Idx) : Option Nat → Except Err Nat
  | none =>
    match alMax ix with
    | none => .error .valueError
    | some p =>
      match alGet p ix with
      | none => .error .keyError
      | some b =>
        match alMax b with
        | some s => .ok (mk p s)
        | none => .error .valueError
  | some key =>
    match alMaxLE (pre key) ix with
    | none => .error .valueError
    | some p =>
      match alGet p ix with
      | none => .error .keyError
      | some b =>
        if p ≠ pre key then
          match alMax b with
          | some s => .ok (mk p s)
          | none => .error .valueError
        else
          match alMaxLE (suf key) b with
          | some s => .ok (mk p s)
          | none =>
            if p = 0 then .error .valueError
            else
              match alMaxLE (p - 1) ix with
              | none => .error .valueError
              | some p' =>
                match alGet p' ix with
                | none => .error .keyError
                | some b' =>
                  match alMax b' with
                  | some s => .ok (mk p' s)
                  | none => .error .valueError

/-! ### save / load: bucket strings

`fsBucket.toString()` is all 2-byte keys followed by all 6-byte values; `fromString` splits the
string at `len / 8 * 2`.  `save` dumps `pos`, then one `(prefix, string)` frame per bucket, then
`None`; the pickle framing itself is runtime (trusted prefix-free, probed on real files). -/

def bucketToString (b : AL Nat) : Bytes :=
  (b.flatMap fun sv => be 2 sv.1) ++ (b.flatMap fun sv => be 6 sv.2)

def chunks (n : Nat) : Nat → Bytes → List Bytes
  | 0, _ => []
  | c+1, bs => bs.take n :: chunks n c (bs.drop n)

def bucketFromString (s : Bytes) : AL Nat :=
  let n := s.length / 8
  let ks := chunks 2 n (s.take (2 * n))
  let vs := chunks 6 n (s.drop (2 * n))
  (ks.zip vs).map fun kv => (beVal kv.1, beVal kv.2)

structure Saved where
  pos : Nat
  frames : List (Nat × Bytes)

def save (ix : Idx) (pos : Nat) : Saved :=
  { pos := pos, frames := ix.map fun pb => (pb.1, bucketToString pb.2) }

def load (s : Saved) : Nat × Idx :=
  (s.pos, s.frames.foldl (fun acc f => alSet f.1 (bucketFromString f.2) acc) [])

/-! ### invariant of every index reachable through the API, and API op sequences -/

def BucketInv (b : AL Nat) : Prop :=
  b ≠ [] ∧ b.Pairwise (fun x y => x.1 < y.1) ∧ ∀ sv ∈ b, sv.1 < 65536 ∧ sv.2 < 2 ^ 48

def Inv (ix : Idx) : Prop :=
  ix.Pairwise (fun x y => x.1 < y.1) ∧ ∀ pb ∈ ix, pb.1 < 2 ^ 48 ∧ BucketInv pb.2

instance (b : AL Nat) : Decidable (BucketInv b) := by unfold BucketInv; infer_instance
instance (ix : Idx) : Decidable (Inv ix) := by unfold Inv; infer_instance

inductive Op where
  | set (k v : Nat) | del (k : Nat) | clear

def applyOp (ix : Idx) : Op → Idx
  | .set k v => match set ix k v with | .ok ix' => ix' | .error _ => ix
  | .del k => match del ix k with | .ok ix' => ix' | .error _ => ix
  | .clear => clear ix

def OpWF : Op → Prop
  | .set k v => k < 2 ^ 64 ∧ v < 2 ^ 48
  | .del k => k < 2 ^ 64
  | .clear => True

/-- The index part of `FileStorage.record_iternext(next)` exactly as coded (after the repair of the
    `struct.error` at the largest oid): `oid = index.minKey(next)` (its error propagates); no id follows
    2^64-1; otherwise `index.minKey(pack(">Q", oid + 1))` where only `ValueError` means "no further
    record" (`None`).  Returns the oid whose record is loaded and the key handed back for the next call. -/
def recordIterNext (ix : Idx) (next : Option Nat) : Except Err (Nat × Option Nat) :=
  match minKey ix next with
  | .error e => .error e
  | .ok oid =>
    if oid + 1 < 2 ^ 64 then
      match minKey ix (some (oid + 1)) with
      | .ok n => .ok (oid, some n)
      | .error .valueError => .ok (oid, none)
      | .error e => .error e
    else .ok (oid, none)

end ZodbModel.FsIndex
