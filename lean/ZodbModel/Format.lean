/-
  Byte layout of a FileStorage data file and the open-time scanner
  (src/ZODB/FileStorage/format.py: TRANS_HDR ">8sQcHHH", DATA_HDR ">8s8sQQHQ", TxnHeader.asString,
   DataHeader.asString/recordlen; src/ZODB/FileStorage/FileStorage.py: tpc_vote (layout of a written
   transaction), read_index (the scanner), FileStorageFormatter._read_data_header).

      file        = "FS30" ++ transaction*
      transaction = tid(8) tlen(8) status(1) ulen(2) dlen(2) elen(2) user desc ext record* tlen(8)
      record      = oid(8) tid(8) prev(8) tloc(8) vlen(2)=0 plen(8) (data[plen] | back(8) if plen = 0)

  `parseTxn` is ONE iteration of the `while 1:` loop of `read_index`, with the checks in the order of
  the code; `scan` is the loop; `readIndex` adds the prologue (empty file, magic).  The scanner works
  on `rest = file[pos:]` — every test of the code that mentions `file_size` is a test on
  `file_size - pos = rest.length`, and the "last 8 bytes of the file" are the last 8 bytes of `rest`
  in the only branch that reads them (there `pos + tl + 8 ≤ file_size`).

  Not modelled: the `stop=` argument (time travel, read-only only): `stop` is the default
  `b'\377' * 8`; the `recover=1` mode of fsrecover; log messages (`time-stamp reduction`, `invalid
  status`, `incorrect previous pointer` only log and do not influence the control flow).
  Core Lean only.
-/
import ZodbModel.Basic
namespace ZodbModel.Format
open ZodbModel

/-! ### constants (tied to format.py by `Props.C01.tie_*`) -/

def transHdrLen : Nat := 23          -- TRANS_HDR_LEN
def dataHdrLen : Nat := 42           -- DATA_HDR_LEN
def metadataSize : Nat := 4          -- FileStorageFormatter._metadata_size = len(packed_version)
def magic : Bytes := [70, 83, 51, 48]   -- FILESTORAGE_MAGIC = b"FS30" (ZODB._compat, Python 3)
def stCheckpoint : Nat := 99         -- 'c'
def stUndone : Nat := 117            -- 'u'
def stNormal : Nat := 32             -- ' '
def stPacked : Nat := 112            -- 'p'
def stopDefault : Nat := 2 ^ 64 - 1  -- b'\377' * 8

/-! ### records and transactions -/

inductive Body where
  | data (d : Bytes)       -- plen = len d > 0
  | back (p : Nat)         -- plen = 0: 8-byte back pointer (0: the object does not exist)
deriving Repr, DecidableEq

def Body.plen : Body → Nat
  | .data d => d.length
  | .back _ => 0

def Body.bytes : Body → Bytes
  | .data d => d
  | .back p => be 8 p

structure FRec where
  oid : Nat
  tid : Nat                -- the transaction's tid, or the explicit serial of `restore`
  prev : Nat               -- offset of the previous record of the oid (0: none)
  tloc : Nat               -- offset of the owning transaction header
  body : Body
deriving Repr, DecidableEq

/-- `DataHeader.recordlen()` = DATA_HDR_LEN + (plen or 8) -/
def FRec.len (r : FRec) : Nat := 42 + (if r.body.plen = 0 then 8 else r.body.plen)

/-- `DataHeader.asString()` followed by the data / the back pointer (store, deleteObject, restore,
    _transactionalUndoRecord all write exactly this into the temporary file) -/
def encodeRec (r : FRec) : Bytes :=
  be 8 r.oid ++ be 8 r.tid ++ be 8 r.prev ++ be 8 r.tloc ++ be 2 0 ++ be 8 r.body.plen ++ r.body.bytes

structure FTxn where
  tid : Nat
  status : Nat             -- ' ' or 'p' once finished
  user : Bytes
  desc : Bytes
  ext : Bytes
  recs : List FRec
deriving Repr, DecidableEq

def recsLen (rs : List FRec) : Nat := (rs.map FRec.len).sum

/-- `TxnHeader.headerlen()` -/
def FTxn.hdrLen (t : FTxn) : Nat := 23 + t.user.length + t.desc.length + t.ext.length

/-- `tl = self._thl + dlen` of tpc_vote -/
def FTxn.tlen (t : FTxn) : Nat := t.hdrLen + recsLen t.recs

def encodeRecs (rs : List FRec) : Bytes := rs.flatMap encodeRec

/-- the fixed 23 bytes of `TxnHeader.asString()` -/
def encodeHdr (tid tl st ul dl el : Nat) : Bytes :=
  be 8 tid ++ be 8 tl ++ be 1 st ++ be 2 ul ++ be 2 dl ++ be 2 el

/-- what tpc_vote writes at `_pos`, with status byte `st`:
    `h.asString()`, the temporary file, `p64(tl)` -/
def encodeTxnSt (st : Nat) (t : FTxn) : Bytes :=
  encodeHdr t.tid t.tlen st t.user.length t.desc.length t.ext.length
    ++ t.user ++ t.desc ++ t.ext ++ encodeRecs t.recs ++ be 8 t.tlen

def encodeTxn (t : FTxn) : Bytes := encodeTxnSt t.status t

def encodeTxns (ts : List FTxn) : Bytes := ts.flatMap encodeTxn

def encodeFile (ts : List FTxn) : Bytes := magic ++ encodeTxns ts

/-! ### the in-memory index: oid ↦ offset, kept as an association list sorted by oid
    (fsIndex is proved to be a sorted map in C19) -/

abbrev Index := List (Nat × Nat)

def idxGet (k : Nat) : Index → Option Nat
  | [] => none
  | (k', v) :: t => if k = k' then some v else idxGet k t

def idxSet (k v : Nat) : Index → Index
  | [] => [(k, v)]
  | (k', v') :: t =>
    if k < k' then (k, v) :: (k', v') :: t
    else if k = k' then (k, v) :: t
    else (k', v') :: idxSet k v t

/-- `index.maxKey()` (z64 when empty) -/
def idxMaxKey : Index → Nat
  | [] => 0
  | [(k, _)] => k
  | _ :: t => idxMaxKey t

/-! ### reading -/

/-- read an `n`-byte big-endian field: value and remaining bytes -/
def rd (n : Nat) (bs : Bytes) : Nat × Bytes := (beVal (bs.take n), bs.drop n)

structure Hdr where
  tid : Nat
  tl : Nat
  st : Nat
  ul : Nat
  dl : Nat
  el : Nat
deriving Repr, DecidableEq

/-- `unpack(TRANS_HDR, h)` -/
def parseHdr (h : Bytes) : Hdr :=
  let r1 := rd 8 h
  let r2 := rd 8 r1.2
  let r3 := rd 1 r2.2
  let r4 := rd 2 r3.2
  let r5 := rd 2 r4.2
  let r6 := rd 2 r5.2
  ⟨r1.1, r2.1, r3.1, r4.1, r5.1, r6.1⟩

inductive Err where
  | format           -- FileStorageFormatError (bad magic, file shorter than the start offset)
  | corruptedTxn     -- CorruptedTransactionError raised by `panic`
  | corruptedData    -- CorruptedDataError (short data header)
  | value            -- ValueError (non-zero version length)
  | struct           -- struct.error (short back pointer)
  | os               -- OSError (negative seek offset, missing file)
  | unicode          -- UnicodeDecodeError (status byte ≥ 128: `as_text(status)`, `TxnHeaderFromString`)
deriving Repr, DecidableEq

/-- `_read_data_header(pos)` on `rest = file[pos:]`, plus the data bytes (which read_index skips):
    the record and `h.recordlen()` -/
def parseRec (rest : Bytes) : Except Err (FRec × Nat) :=
  if (rest.take 42).length ≠ 42 then .error .corruptedData
  else
    let r1 := rd 8 rest
    let r2 := rd 8 r1.2
    let r3 := rd 8 r2.2
    let r4 := rd 8 r3.2
    let r5 := rd 2 r4.2
    let r6 := rd 8 r5.2
    if r5.1 ≠ 0 then .error .value
    else if r6.1 = 0 then
      if (r6.2.take 8).length ≠ 8 then .error .struct
      else .ok (⟨r1.1, r2.1, r3.1, r4.1, .back (beVal (r6.2.take 8))⟩, 50)
    else .ok (⟨r1.1, r2.1, r3.1, r4.1, .data (r6.2.take r6.1)⟩, 42 + r6.1)

/-- the inner `while pos < tend:` loop of read_index; returns the records with their offsets
    (= the `tindex[h.oid] = pos` assignments, in order) -/
def walkRecs : Nat → Bytes → Nat → Nat → Nat → Except Err (List (Nat × FRec))
  | 0, _, _, _, _ => .error .corruptedTxn                 -- unreachable (fuel = tl + 1)
  | f+1, rest, pos, tpos, tend =>
    if pos < tend then
      match parseRec rest with
      | .error e => .error e
      | .ok (r, dlen) =>
        if pos + dlen > tend ∨ r.tloc ≠ tpos then .error .corruptedTxn   -- "data record exceeds …"
        else
          match walkRecs f (rest.drop dlen) (pos + dlen) tpos tend with
          | .error e => .error e
          | .ok l => .ok ((pos, r) :: l)
    else if pos ≠ tend then .error .corruptedTxn                          -- "don't add up"
    else .ok []

inductive ParseResult where
  | eof                                   -- `if not h: break`
  | truncate (save : Bool)                -- the tail starting here is dropped (writable open);
                                          -- `false`: short header (plain `file.truncate()`),
                                          -- `true`: a full header was read (`_truncate`: the tail
                                          -- is copied to `.trN` first).  `ltid` is NOT advanced
                                          -- (repaired code: `ltid = tid` follows both branches).
  | stop (tid : Nat)                      -- `tid >= stop`
  | skip (tid : Nat) (len : Nat)          -- status 'u'
  | ok (t : FTxn) (precs : List (Nat × FRec)) (len : Nat)
  | err (e : Err)
deriving Repr, DecidableEq

/-- one iteration of the `while 1:` loop of read_index at offset `pos`, `rest = file[pos:]` -/
def parseTxn (rest : Bytes) (pos : Nat) : ParseResult :=
  let h := rest.take 23
  if h.length = 0 then .eof
  else if h.length ≠ 23 then .truncate false
  else
    let hd := parseHdr h
    if hd.st ≥ 128 then .err .unicode                    -- `status = as_text(status)` (ascii)
    else if hd.tl + 8 > rest.length ∨ hd.st = stCheckpoint then .truncate true
    else if hd.tl < 23 + hd.ul + hd.dl + hd.el then
      let rtl := beVal (rest.drop (rest.length - 8))
      if rest.length < rtl ∨ rtl < 23 then .truncate true else .err .corruptedTxn
    else if hd.tid ≥ stopDefault then .stop hd.tid
    else if hd.st = stUndone then
      if beVal ((rest.drop hd.tl).take 8) ≠ hd.tl then .err .corruptedTxn
      else .skip hd.tid (hd.tl + 8)
    else
      let hl := 23 + hd.ul + hd.dl + hd.el
      match walkRecs (hd.tl + 1) (rest.drop hl) (pos + hl) pos (pos + hd.tl) with
      | .error e => .err e
      | .ok precs =>
        if beVal ((rest.drop hd.tl).take 8) ≠ hd.tl then .err .corruptedTxn
        else .ok { tid := hd.tid, status := hd.st
                   user := (rest.drop 23).take hd.ul
                   desc := (rest.drop (23 + hd.ul)).take hd.dl
                   ext := (rest.drop (23 + hd.ul + hd.dl)).take hd.el
                   recs := precs.map (·.2) } precs (hd.tl + 8)

structure ScanState where
  index : Index
  ltid : Nat
  txns : List FTxn          -- accepted transactions, in file order
deriving Repr, DecidableEq

/-- `index.update(tindex)` after a transaction passed all checks -/
def applyRecs (ix : Index) (precs : List (Nat × FRec)) : Index :=
  precs.foldl (fun ix pr => idxSet pr.2.oid pr.1 ix) ix

def ScanState.accept (st : ScanState) (t : FTxn) (precs : List (Nat × FRec)) : ScanState :=
  { index := applyRecs st.index precs, ltid := t.tid, txns := st.txns ++ [t] }

inductive EndKind where
  | eof          -- clean end
  | truncShort   -- fewer than 23 bytes left: `file.truncate()` at pos
  | truncSave    -- `_truncate(file, name, pos)`: tail copied to `.trN`, then truncated
  | stop
deriving Repr, DecidableEq

structure ScanResult where
  pos : Nat
  index : Index
  ltid : Nat
  txns : List FTxn
  how : EndKind
deriving Repr, DecidableEq

/-- the `while 1:` loop (fuel = number of remaining bytes + 1; every iteration that continues
    consumes `tl + 8 ≥ 8` bytes) -/
def scan : Nat → Bytes → Nat → ScanState → Except Err ScanResult
  | 0, _, pos, st => .ok ⟨pos, st.index, st.ltid, st.txns, .eof⟩      -- unreachable
  | f+1, rest, pos, st =>
    match parseTxn rest pos with
    | .eof => .ok ⟨pos, st.index, st.ltid, st.txns, .eof⟩
    | .truncate false => .ok ⟨pos, st.index, st.ltid, st.txns, .truncShort⟩
    | .truncate true => .ok ⟨pos, st.index, st.ltid, st.txns, .truncSave⟩
    | .stop tid => .ok ⟨pos, st.index, tid, st.txns, .stop⟩
    | .skip tid len => scan f (rest.drop len) (pos + len) { st with ltid := tid }
    | .ok t precs len => scan f (rest.drop len) (pos + len) (st.accept t precs)
    | .err e => .error e

/-- `read_index(file, name, index, tindex, stop, ltid, start)` up to the final `maxKey()`;
    an empty file yields `pos = 4` (and gets the magic written when not read-only). -/
def readIndex (file : Bytes) (start : Nat) (index : Index) (ltid : Nat) : Except Err ScanResult :=
  if file.length = 0 then .ok ⟨4, index, ltid, [], .eof⟩
  else if file.length < start then .error .format
  else if file.take 4 ≠ magic then .error .format
  else scan (file.length + 1) (file.drop start) start ⟨index, ltid, []⟩

/-! ### well-formedness (the size guards under which `struct.pack` does not overflow) -/

def BodyWF : Body → Prop
  | .data d => 0 < d.length ∧ d.length < 2 ^ 64
  | .back p => p < 2 ^ 64

instance (b : Body) : Decidable (BodyWF b) := by
  cases b <;> (simp only [BodyWF]; infer_instance)

def RecWF (tloc : Nat) (r : FRec) : Prop :=
  r.oid < 2 ^ 64 ∧ r.tid < 2 ^ 64 ∧ r.prev < 2 ^ 64 ∧ r.tloc = tloc ∧ BodyWF r.body

instance (p : Nat) (r : FRec) : Decidable (RecWF p r) := by unfold RecWF; infer_instance

/-- a transaction that `tpc_vote`/`tpc_finish` can have written at offset `pos` -/
def TxnWF (pos : Nat) (t : FTxn) : Prop :=
  t.tid < 2 ^ 64 - 1 ∧ t.status < 128 ∧ t.status ≠ stCheckpoint ∧ t.status ≠ stUndone ∧
  t.user.length < 2 ^ 16 ∧ t.desc.length < 2 ^ 16 ∧ t.ext.length < 2 ^ 16 ∧
  pos + t.tlen < 2 ^ 64 ∧ ∀ r ∈ t.recs, RecWF pos r

instance (p : Nat) (t : FTxn) : Decidable (TxnWF p t) := by unfold TxnWF; infer_instance

/-- a sequence of transactions laid out from offset `pos` -/
def TxnsWF : Nat → List FTxn → Prop
  | _, [] => True
  | pos, t :: ts => TxnWF pos t ∧ TxnsWF (pos + (t.tlen + 8)) ts

instance : (p : Nat) → (ts : List FTxn) → Decidable (TxnsWF p ts)
  | _, [] => isTrue trivial
  | p, t :: ts => by
    unfold TxnsWF
    have := instDecidableTxnsWF (p + (t.tlen + 8)) ts
    infer_instance

def FileWF (ts : List FTxn) : Prop := TxnsWF 4 ts

instance (ts : List FTxn) : Decidable (FileWF ts) := by unfold FileWF; infer_instance

/-! ### what a clean scan of `encodeFile ts` yields (the specification side) -/

/-- records of a transaction at `tpos` paired with their offsets -/
def withPos : Nat → List FRec → List (Nat × FRec)
  | _, [] => []
  | p, r :: rs => (p, r) :: withPos (p + r.len) rs

def txnPrecs (tpos : Nat) (t : FTxn) : List (Nat × FRec) := withPos (tpos + t.hdrLen) t.recs

/-- index after the transactions `ts` laid out from `pos` -/
def indexFrom : Index → Nat → List FTxn → Index
  | ix, _, [] => ix
  | ix, pos, t :: ts => indexFrom (applyRecs ix (txnPrecs pos t)) (pos + (t.tlen + 8)) ts

def indexOf (ts : List FTxn) : Index := indexFrom [] 4 ts

def lastTid (dflt : Nat) : List FTxn → Nat
  | [] => dflt
  | t :: ts => lastTid t.tid ts

end ZodbModel.Format
