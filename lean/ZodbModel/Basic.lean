/-
  Basic vocabulary shared by all models: bytes, big-endian codec, hex, association lists.
  Core Lean only.
-/
namespace ZodbModel

abbrev Bytes := List Nat          -- every element < 256 (well-formedness predicate `BytesWF`)

def BytesWF (b : Bytes) : Prop := ∀ x ∈ b, x < 256

/-- big-endian encoding of `v` in exactly `n` bytes (`struct.pack` with `>Q`, `>H`, … truncating
    silently is *not* what Python does; callers guard `v < 256^n`). -/
def be : Nat → Nat → Bytes
  | 0, _ => []
  | n+1, v => be n (v / 256) ++ [v % 256]

def beVal : Bytes → Nat
  | b => b.foldl (fun acc x => acc * 256 + x) 0

theorem be_length (n v : Nat) : (be n v).length = n := by
  induction n generalizing v with
  | zero => simp [be]
  | succ n ih => simp [be, ih]

theorem be_wf (n v : Nat) : BytesWF (be n v) := by
  induction n generalizing v with
  | zero => simp [be, BytesWF]
  | succ n ih =>
    intro x hx
    simp only [be, List.mem_append, List.mem_singleton] at hx
    rcases hx with hx | hx
    · exact ih _ x hx
    · subst hx; omega

theorem beVal_append (a : Bytes) (x : Nat) : beVal (a ++ [x]) = beVal a * 256 + x := by
  simp [beVal, List.foldl_append]

theorem beVal_be (n v : Nat) (h : v < 256 ^ n) : beVal (be n v) = v := by
  induction n generalizing v with
  | zero => simp [be, beVal] at *; omega
  | succ n ih =>
    simp only [be, beVal_append]
    have : v / 256 < 256 ^ n := by
      rw [Nat.pow_succ] at h
      exact Nat.div_lt_of_lt_mul (by omega)
    rw [ih _ this]; omega

/-! hex helpers for the line protocol -/

def hexDigit (n : Nat) : Char :=
  if n < 10 then Char.ofNat (48 + n) else Char.ofNat (87 + n)

def hexOfBytes (b : Bytes) : String :=
  String.ofList (b.flatMap fun x => [hexDigit (x / 16), hexDigit (x % 16)])

def hexVal (c : Char) : Option Nat :=
  if '0' ≤ c ∧ c ≤ '9' then some (c.toNat - 48)
  else if 'a' ≤ c ∧ c ≤ 'f' then some (c.toNat - 87)
  else if 'A' ≤ c ∧ c ≤ 'F' then some (c.toNat - 55)
  else none

def bytesOfHexAux : List Char → Option Bytes
  | [] => some []
  | [_] => none
  | a :: b :: t => do
    let x ← hexVal a
    let y ← hexVal b
    let r ← bytesOfHexAux t
    pure ((x * 16 + y) :: r)

def bytesOfHex (s : String) : Option Bytes := bytesOfHexAux s.toList

/-- hex of a Nat as `n` big-endian bytes -/
def hexN (n v : Nat) : String := hexOfBytes (be n v)

def natOfHex (s : String) : Option Nat := (bytesOfHex s).map beVal

end ZodbModel
