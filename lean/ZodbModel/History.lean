/-
  History — the abstract specification every storage must behave as (DESIGN 3.1).

  A storage *is* the ordered list of the transactions committed to it.  Every query of the
  storage API is defined here as a plain list function over that list: no file offsets, no
  pointers, no index, no caches.  `FileStore.lean` (pointer structure of FileStorage) and the
  MappingStorage / DemoStorage oracles are compared against these definitions.

  Conventions: oids and tids are naturals (`< 2^64`), `History` is in commit order (oldest
  first), a record's `data = none` means "the object does not exist in this revision"
  (deleted, or its creation was undone), `dataTxn = some t` means "this record shares its bytes
  with the record transaction `t` wrote for the same object" (an undo or a restore with a valid
  `prev_txn` hint; the iterator reports it as `data_txn`).
-/
import ZodbModel.Basic
namespace ZodbModel.History

inductive Err where
  | keyError          -- POSKeyError
  | valueError        -- ValueError (record_iternext on an empty storage)
  | corrupted         -- CorruptedDataError: never an answer of the spec; a model of a storage returns it
                      -- when a pointer does not lead to a record (unreachable under its invariant)
deriving Repr, DecidableEq

instance instDecidableEqExcept {ε α : Type} [DecidableEq ε] [DecidableEq α] :
    DecidableEq (Except ε α) := fun a b =>
  match a, b with
  | .ok x, .ok y =>
    if h : x = y then isTrue (by rw [h]) else isFalse (fun e => h (by injection e))
  | .error x, .error y =>
    if h : x = y then isTrue (by rw [h]) else isFalse (fun e => h (by injection e))
  | .ok _, .error _ => isFalse (fun e => by cases e)
  | .error _, .ok _ => isFalse (fun e => by cases e)

/-- transaction status byte: `' '` normal, `'p'` packed -/
def stNormal : Nat := 32
def stPacked : Nat := 112

structure Rec where
  oid : Nat
  data : Option Bytes
  dataTxn : Option Nat
deriving Repr, DecidableEq

structure Txn where
  tid : Nat
  status : Nat
  user : Bytes
  desc : Bytes
  ext : Bytes
  recs : List Rec          -- in the order they were stored
deriving Repr, DecidableEq

abbrev History := List Txn   -- commit order

/-- transaction ids strictly increase in commit order -/
def WF (h : History) : Prop := h.Pairwise (fun a b => a.tid < b.tid)

/-- The record that counts for `oid` in a transaction: the last one stored. -/
def Txn.recOf (t : Txn) (oid : Nat) : Option Rec := (t.recs.filter (fun r => r.oid == oid)).getLast?

/-- One revision of an object: the transaction's id and metadata, and the record. -/
structure Rev where
  tid : Nat
  user : Bytes
  desc : Bytes
  ext : Bytes
  record : Rec
deriving Repr, DecidableEq

/-- all revisions of `oid`, in commit order -/
def revs (h : History) (oid : Nat) : List Rev :=
  h.filterMap fun t => (t.recOf oid).map fun r => ⟨t.tid, t.user, t.desc, t.ext, r⟩

/-- `loadBefore(oid, b)`: unknown oid → KeyError; no revision below `b` → `None`; the newest
    revision below `b` does not exist → KeyError; else its bytes, its tid and the tid of the next
    revision (the oldest one at or above `b`), if any. -/
def loadBefore (h : History) (oid b : Nat) : Except Err (Option (Bytes × Nat × Option Nat)) :=
  let rs := revs h oid
  if rs.isEmpty then .error .keyError
  else match (rs.filter fun (r : Rev) => r.tid < b).getLast? with
    | none => .ok none
    | some r =>
      match r.record.data with
      | none => .error .keyError
      | some d => .ok (some (d, r.tid, ((rs.filter fun (r : Rev) => b ≤ r.tid).head?).map Rev.tid))

/-- `load(oid)`: bytes and tid of the newest revision -/
def load (h : History) (oid : Nat) : Except Err (Bytes × Nat) :=
  match (revs h oid).getLast? with
  | none => .error .keyError
  | some r =>
    match r.record.data with
    | none => .error .keyError
    | some d => .ok (d, r.tid)

/-- `loadSerial(oid, serial)`: bytes of exactly the revision written by transaction `serial` -/
def loadSerial (h : History) (oid serial : Nat) : Except Err Bytes :=
  match (revs h oid).find? (fun (r : Rev) => r.tid == serial) with
  | none => .error .keyError
  | some r =>
    match r.record.data with
    | none => .error .keyError
    | some d => .ok d

/-- `getTid(oid)`: tid of the newest revision; KeyError if there is none or if that record is
    itself an un-creation / deletion marker (no bytes and no `dataTxn`). -/
def getTid (h : History) (oid : Nat) : Except Err Nat :=
  match (revs h oid).getLast? with
  | none => .error .keyError
  | some r => if r.record.data.isNone && r.record.dataTxn.isNone then .error .keyError else .ok r.tid

/-- `lastTransaction()`; `z64` for an empty storage -/
def lastTransaction (h : History) : Nat := (h.getLast?.map Txn.tid).getD 0

/-- bytes a record occupies after its header: 0 is reported (`size`) when the record carries no bytes
    of its own -/
def Rec.storedSize (r : Rec) : Nat :=
  match r.dataTxn, r.data with
  | none, some d => d.length
  | _, _ => 0

structure HistEntry where
  tid : Nat
  user : Bytes
  desc : Bytes
  ext : Bytes
  size : Nat
deriving Repr, DecidableEq

def Rev.entry (r : Rev) : HistEntry := ⟨r.tid, r.user, r.desc, r.ext, r.record.storedSize⟩

/-- `history(oid, size=n)`: the newest `n` revisions, newest first -/
def history (h : History) (oid n : Nat) : Except Err (List HistEntry) :=
  let rs := revs h oid
  if rs.isEmpty then .error .keyError else .ok ((rs.reverse.take n).map Rev.entry)

/-- `iterator(start, stop)`: the transactions with `start ≤ tid ≤ stop`, in commit order, with
    all their records -/
def iterator (h : History) (start stop : Option Nat) : List Txn :=
  h.filter fun t =>
    (match start with | none => true | some a => decide (a ≤ t.tid)) &&
    (match stop with | none => true | some b => decide (t.tid ≤ b))

/-- length of a transaction on disk (`size` in the undo log): header + metadata + records -/
def Rec.recLen (r : Rec) : Nat :=
  42 + (match r.dataTxn, r.data with
        | none, some d => d.length
        | _, _ => 8)

def Txn.tlen (t : Txn) : Nat :=
  23 + t.user.length + t.desc.length + t.ext.length + (t.recs.map Rec.recLen).sum

structure UndoEntry where
  tid : Nat
  user : Bytes
  desc : Bytes
  ext : Bytes
  size : Nat
deriving Repr, DecidableEq

def Txn.undoEntry (t : Txn) : UndoEntry := ⟨t.tid, t.user, t.desc, t.ext, t.tlen⟩

/-- `undoLog(first, last, filter)` (`last ≥ 0`): the undoable transactions, newest first — those
    after the newest packed one, with normal status — that the filter accepts; of these the entries
    number `first` … `last - 1` (the window counts the SELECTED transactions). -/
def undoLogF (h : History) (p : UndoEntry → Bool) (first last : Nat) : List UndoEntry :=
  ((((h.reverse.takeWhile fun t => t.status != stPacked).filter fun t =>
      t.status == stNormal && p t.undoEntry).drop first).take (last - first)).map Txn.undoEntry

/-- `undoLog(first, last)` without a filter -/
def undoLog (h : History) (first last : Nat) : List UndoEntry := undoLogF h (fun _ => true) first last

/-- `lastInvalidations(n)`: tid and oids of the newest `n` transactions, in commit order -/
def lastInvalidations (h : History) (n : Nat) : List (Nat × List Nat) :=
  ((h.reverse.take n).reverse).map fun t => (t.tid, t.recs.map (·.oid))

/-- every oid some committed record mentions -/
def oids (h : History) : List Nat := h.flatMap fun t => t.recs.map (·.oid)

/-- smallest known oid `≥ k` (`index.minKey(k)`) -/
def nextOid (h : History) (k : Nat) : Option Nat := ((oids h).filter fun o => k ≤ o).min?

/-- smallest oid `≥ k` of an object that currently EXISTS (its newest revision has bytes) -/
def nextExisting (h : History) (k : Nat) : Option Nat :=
  ((oids h).filter fun o => decide (k ≤ o) && (match load h o with | .ok _ => true | .error _ => false)).min?

/-- `record_iternext(next)` (IStorageCurrentRecordIteration: "iterate over the CURRENT records"): the
    smallest oid `≥ next` of an object that currently exists, its current bytes and tid, and the next
    such oid.  An object whose newest revision is a deletion / an undone creation has no current
    record and is skipped. -/
def recordIterNext (h : History) (next : Nat) : Except Err (Nat × Nat × Bytes × Option Nat) :=
  match nextExisting h next with
  | none => .error .valueError
  | some oid =>
    match load h oid with
    | .error e => .error e
    | .ok (d, tid) => .ok (oid, tid, d, nextExisting h (oid + 1))

/-- the snapshot "before b": what `loadBefore(·, b)` shows of each object -/
def stateAt (h : History) (b oid : Nat) : Option (Bytes × Nat) :=
  match loadBefore h oid b with
  | .ok (some (d, t, _)) => some (d, t)
  | _ => none

end ZodbModel.History
