/-
  The file-system side of a FileStorage pack (C08, crash part).

  A directory maps the five file names a pack touches to abstract contents; the pack's raw
  file-system operations (as recorded by harness/vfs.py under the real code) are events on it:

      FileStorage.pack        [remove Data.fs.old]                       (leftover of a previous pack)
      FileStoragePacker.pack  create Data.fs.pack; writes to Data.fs.pack …  (copyToPacktime, copyRest)
                              flush, close
      FileStorage.pack        remove Data.fs.index            (`_clear_index`: the saved index describes the
                                                              unpacked file)
                              link Data.fs → Data.fs.old      (os.link; os.rename when links are unsupported)
                              replace Data.fs.pack → Data.fs  (os.replace)
                              [remove Data.fs.old]            (pack_keep_old = False)
      _save_index             create Data.fs.index.index_tmp; writes; remove Data.fs.index;
                              rename Data.fs.index.index_tmp → Data.fs.index

  interleaved with the raw operations of concurrent committers on Data.fs (vote: append an
  unfinished transaction; finish: the one-byte status flip that makes it complete; abort: truncate
  back), and `ret t` markers where `tpc_finish` returned.  A crash image is the directory after a
  prefix (`cut`) of the event list; a write cut at a byte is a `put` of some other content, so
  "every byte cut of every write" is "every event list with arbitrary `put` contents".

  Contents are abstract: a file in Data.fs format is its list of complete transactions (ids, oldest
  first) plus a flag for an unfinished / torn tail — `read_index` recovers exactly the complete
  transactions and truncates the tail (C01's subject, an assumption here).  `openDir` is what
  `FileStorage.__init__` does with what it finds: Data.fs present ⇒ scan it; MISSING ⇒ create an
  empty database; leftover .pack / .old are ignored; a saved index is only a cache (C09's subject:
  the answer does not depend on it).  Core Lean only.
-/
namespace ZodbModel.PackDisk

abbrev Tid := Nat

inductive FName where
  | data | pack | old | index | indexTmp
deriving DecidableEq, Repr

inductive Content where
  /-- a file in Data.fs format: complete transactions, then possibly an unfinished / torn tail -/
  | db (txns : List Tid) (torn : Bool)
  /-- a complete saved index describing these transactions -/
  | idx (covers : List Tid)
  /-- anything else: a file being written (partial .pack, partial index) -/
  | junk
deriving DecidableEq, Repr

structure Dir where
  data : Option Content := none
  pack : Option Content := none
  old : Option Content := none
  index : Option Content := none
  indexTmp : Option Content := none
deriving DecidableEq, Repr

def Dir.get (d : Dir) : FName → Option Content
  | .data => d.data | .pack => d.pack | .old => d.old | .index => d.index | .indexTmp => d.indexTmp

def Dir.set (d : Dir) (n : FName) (c : Option Content) : Dir :=
  match n with
  | .data => { d with data := c } | .pack => { d with pack := c } | .old => { d with old := c }
  | .index => { d with index := c } | .indexTmp => { d with indexTmp := c }

inductive Ev where
  /-- create / write / truncate leaving file `n` with content `c` (every byte cut is some content) -/
  | put (n : FName) (c : Content)
  | remove (n : FName)
  /-- os.rename / os.replace: `b` gets `a`'s content, `a` disappears -/
  | rename (a b : FName)
  /-- os.link: `b` names `a`'s content too (fails, changing nothing, if `b` exists) -/
  | link (a b : FName)
  /-- a raw write of a committer's vote: Data.fs gets an unfinished tail -/
  | vote
  /-- the status-byte write of `tpc_finish`: the tail becomes the complete transaction `t` -/
  | finish (t : Tid)
  /-- `tpc_abort` after vote: truncate back to the committed end -/
  | abort
  /-- marker: `tpc_finish` of `t` returned to its caller (no effect on the directory) -/
  | ret (t : Tid)
deriving DecidableEq, Repr

/-- effect of a committer's raw operation on the content of the data file -/
def commitStep (c : Option Content) : Ev → Option Content
  | .vote => match c with
    | some (.db u _) => some (.db u true)
    | x => x
  | .finish t => match c with
    | some (.db u _) => some (.db (u ++ [t]) false)
    | x => x
  | .abort => match c with
    | some (.db u _) => some (.db u false)
    | x => x
  | _ => c

def apply (d : Dir) : Ev → Dir
  | .put n c => d.set n (some c)
  | .remove n => d.set n none
  | .rename a b =>
    match d.get a with
    | some c => if a = b then d else (d.set b (some c)).set a none
    | none => d
  | .link a b =>
    match d.get a, d.get b with
    | some c, none => d.set b (some c)
    | _, _ => d
  | .ret _ => d
  | e => { d with data := commitStep d.data e }

def applyAll (d : Dir) (es : List Ev) : Dir := es.foldl apply d

/-- the crash image after the first `cut` events -/
def image (d : Dir) (es : List Ev) (cut : Nat) : Dir := applyAll d (es.take cut)

structure Opened where
  /-- the transactions of the opened database -/
  txns : List Tid
  /-- Data.fs was missing and a new, empty one was created -/
  created : Bool
  /-- the saved index was usable (it describes a prefix of the file) -/
  usedIndex : Bool
  /-- the directory after the open -/
  after : Dir
deriving DecidableEq, Repr

/-- `FileStorage(path)` (writable) on a directory.  `none`: Data.fs exists but is not a database
    file (the real code raises); never the case for a pack's crash images. -/
def openDir (d : Dir) : Option Opened :=
  match d.data with
  | none =>
    some { txns := [], created := true, usedIndex := false,
           after := { d with data := some (.db [] false), index := some (.idx []) } }
  | some (.db u _) =>
    let used := match d.index with
      | some (.idx cov) => cov.isPrefixOf u && !cov.isEmpty
      | _ => false
    some { txns := u, created := false, usedIndex := used,
           after := { d with data := some (.db u false),
                             index := if used then d.index else some (.idx u) } }
  | some _ => none

/-! ### the event list of a pack -/

/-- an event that does not touch Data.fs except as a committer does -/
def Safe : Ev → Bool
  | .put n _ => n != .data
  | .remove n => n != .data
  | .rename a b => a != .data && b != .data
  | .link _ b => b != .data
  | _ => true

/-- the two directory operations of the swap; `links = false` is the fallback taken when
    `os.link` is unsupported or fails -/
def swapEvs (links : Bool) : List Ev :=
  if links then [.link .data .old, .rename .pack .data]
  else [.rename .data .old, .rename .pack .data]

/-- the transactions whose status byte was written in an event list -/
def finishes : List Ev → List Tid
  | [] => []
  | .finish t :: es => t :: finishes es
  | _ :: es => finishes es

/-- the commits that returned in an event list -/
def rets : List Ev → List Tid
  | [] => []
  | .ret t :: es => t :: rets es
  | _ :: es => rets es

/-- One pack seen from the file system. -/
structure Run where
  /-- the directory when the pack starts -/
  d0 : Dir
  /-- everything before the swap: the packer's removal of the old .old, its creates / writes of
      .pack, the removal of the saved index, and the committers' operations on Data.fs, in any
      interleaving and at any byte cut -/
  preA : List Ev
  /-- does `os.link` work -/
  links : Bool
  /-- everything after the swap: committers on the new Data.fs, removal of .old, the index save -/
  postB : List Ev
deriving Repr

def Run.trace (r : Run) : List Ev := r.preA ++ swapEvs r.links ++ r.postB

/-- the `os.link` call of the swap succeeded (hard links supported, no Data.fs.old in the way);
    otherwise the code falls back to the two renames -/
def LinksSupported (r : Run) : Prop := r.links = true

/-- the cut between the two directory operations of the swap -/
def Run.midSwapCut (r : Run) : Nat := r.preA.length + 1

end ZodbModel.PackDisk
