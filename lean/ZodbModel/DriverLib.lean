/-
  Shared line-protocol loop: one op per stdin line (space separated tokens), one observation
  per stdout line.  Used by every `Drivers/*.lean`.
-/
import ZodbModel.Basic
namespace ZodbModel

def tokens (line : String) : List String :=
  (line.trimAscii.toString.splitOn " ").filter (· ≠ "")

partial def driverLoop {σ : Type} (step : σ → List String → σ × String) (s : σ) : IO Unit := do
  let stdin ← IO.getStdin
  let stdout ← IO.getStdout
  let rec go (s : σ) : IO Unit := do
    let line ← stdin.getLine
    if line.isEmpty then
      stdout.flush
      return ()
    let toks := tokens line
    if toks.isEmpty then go s
    else
      let (s', out) := step s toks
      stdout.putStrLn out
      go s'
  go s

def joinWith (sep : String) (l : List String) : String := sep.intercalate l

end ZodbModel
