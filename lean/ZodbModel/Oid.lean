/-
  Model of object-id allocation in the counter-based storages:

  * `BaseStorage.new_oid` / `set_max_oid` (src/ZODB/BaseStorage.py) — the 8-byte counter `_oid`,
    incremented under the storage lock: fast path on the last byte, carry path through
    `struct.pack(">Q", n + 1)`, which raises at `2^64 - 1` (no wrap-around);
  * its use by FileStorage: `store` / `restore` raise the counter to a larger oid
    (`if oid > self._oid: self.set_max_oid(oid)`), open / reopen set it to the largest key of the
    index (`read_index`: `maxoid = index.maxKey()`), abort / finish / pack leave it alone;
  * `MappingStorage.new_oid` — a Python int `_oid += 1; p64(_oid)` — and (repaired code)
    `store` raising it: `_oid = max(_oid, u64(oid))`.

  An un-creation record (`deleteObject`, undone creation) is a record like any other: its oid stays in
  `index` — also in the index rebuilt by scanning the file on open — so the counter covers it.

  A storage state keeps the counter, the oids with a committed record (`index`), the oids written by
  the transaction in progress (`tindex`) and, as ghost state, the ids handed out since the storage
  was opened (`issued`).  Every operation is one critical section of the storage lock, so a thread
  schedule of concurrent allocators is a sequence of these operations: "for all schedules" is "for
  all operation lists".  DemoStorage's draw loop is `ZodbModel/Demo.lean` (`drawLoop`).
  Core Lean only.
-/
import ZodbModel.Basic
namespace ZodbModel.Oid

/-- the largest oid, ff ff ff ff ff ff ff ff -/
def top : Nat := 2 ^ 64 - 1

inductive Kind where
  | file        -- BaseStorage-derived FileStorage
  | mapping     -- MappingStorage
deriving Repr, DecidableEq

inductive Err where
  | overflow      -- struct.error: the id does not fit 8 bytes
  | unsupported   -- the storage kind has no such method
deriving Repr, DecidableEq

/-! ### `BaseStorage.new_oid` on the 8-byte string, as coded -/

/-- `last = self._oid; d = last[-1]; if d < 255: last[:-1] + chr(d+1) else: pack(">Q", unpack(last) + 1)` -/
def newOidBytes (last : Bytes) : Except Err Bytes :=
  match last.getLast? with
  | none => .error .overflow                       -- not reached: `_oid` always has 8 bytes
  | some d =>
    if d < 255 then .ok (last.dropLast ++ [d + 1])
    else
      let v := beVal last + 1
      if v < 2 ^ 64 then .ok (be 8 v) else .error .overflow

/-- the same on the value of the counter -/
def newOidNat (c : Nat) : Except Err Nat :=
  if c % 256 < 255 then .ok (c + 1)
  else if c + 1 < 2 ^ 64 then .ok (c + 1) else .error .overflow

/-! ### the allocation machine -/

structure St where
  kind : Kind
  counter : Nat            -- `_oid`
  index : List Nat         -- oids with a committed record
  tindex : List Nat        -- oids written by the transaction in progress
  issued : List Nat        -- ghost: ids returned by `new_oid` since the storage was opened
deriving Repr, DecidableEq

def St.init (k : Kind) : St := ⟨k, 0, [], [], []⟩

inductive Op where
  | newOid
  | store (o : Nat)
  | restore (o : Nat)
  | setMax (o : Nat)
  | abort
  | finish
  | pack (keep : List Nat)       -- the oids that survive the pack (chosen by the garbage collector)
  | reopen                       -- close, open again
deriving Repr

inductive Out where
  | ok
  | oid (o : Nat)
  | err (e : Err)
deriving Repr, DecidableEq

def maxOid (l : List Nat) : Nat := l.foldl max 0

def step (s : St) : Op → St × Out
  | .newOid =>
    (match s.kind with
     | .file =>
       (match newOidNat s.counter with
        | .ok c => ({ s with counter := c, issued := c :: s.issued }, .oid c)
        | .error e => (s, .err e))
     | .mapping =>
       -- `self._oid += 1` happens before `p64` raises
       if s.counter + 1 < 2 ^ 64 then
         ({ s with counter := s.counter + 1, issued := (s.counter + 1) :: s.issued }, .oid (s.counter + 1))
       else ({ s with counter := s.counter + 1 }, .err .overflow))
  | .store o => ({ s with counter := max s.counter o, tindex := o :: s.tindex }, .ok)
  | .restore o =>
    (match s.kind with
     | .file => ({ s with counter := max s.counter o, tindex := o :: s.tindex }, .ok)
     | .mapping => (s, .err .unsupported))
  | .setMax o =>
    (match s.kind with
     | .file => ({ s with counter := max s.counter o }, .ok)
     | .mapping => (s, .err .unsupported))
  | .abort => ({ s with tindex := [] }, .ok)
  | .finish => ({ s with index := s.tindex ++ s.index, tindex := [] }, .ok)
  | .pack keep => ({ s with index := s.index.filter fun o => keep.contains o }, .ok)
  | .reopen =>
    (match s.kind with
     | .file => ({ s with counter := maxOid s.index, tindex := [], issued := [] }, .ok)
     | .mapping => (s, .err .unsupported))

def run (s : St) (ops : List Op) : St := ops.foldl (fun s op => (step s op).1) s

/-- all observations of a history -/
def outs : St → List Op → List Out
  | _, [] => []
  | s, op :: ops => (step s op).2 :: outs (step s op).1 ops

end ZodbModel.Oid
