/-
  Transaction-id generation (src/ZODB/BaseStorage.py `tpc_begin`, src/ZODB/utils.py `newTid`,
  persistent `TimeStamp.laterThan`).  Tids are 8-byte big-endian strings compared bytewise, i.e.
  natural numbers `< 2^64`; the wall clock enters only as the integer `now` = raw value of
  `TimeStamp(*gmtime(t)[:5], t % 60)` (the float → TimeStamp conversion is runtime, DESIGN 6.2).

      t = TimeStamp(now); self._ts = t = t.laterThan(self._ts); self._tid = t.raw()

  `a.laterThan(b)` returns `a` if `a > b`, else `b` advanced by one tick: `b + 1` on the raw value
  (the C implementation differs only when the low 32 bits of `b` are all ones, where it carries into
  the calendar part; still strictly later — idealised here, DESIGN 6.3).
-/
namespace ZodbModel.Tid

/-- `TimeStamp(t).laterThan(TimeStamp(o))` on raw values -/
def later (t o : Nat) : Nat := if o < t then t else o + 1

/-- the tid `tpc_begin` issues when the clock reads `now` and the previous timestamp is `prev` -/
def newTid (prev now : Nat) : Nat := later now prev

/-- tids issued by consecutive `tpc_begin`s for the clock readings `clock`, starting from `_ts = ts` -/
def issue (ts : Nat) : List Nat → List Nat
  | [] => []
  | now :: rest => newTid ts now :: issue (newTid ts now) rest

end ZodbModel.Tid
