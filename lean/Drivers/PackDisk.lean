/-
  Line protocol for `ZodbModel/PackDisk.lean` (C08, crash part).

    reset                                  forget directory and events
    file <name> none|junk|db <tids> <0|1>|idx <tids>     initial content of a file
    ev put <name> junk|db <tids> <0|1>|idx <tids> | ev remove <name> | ev rename <a> <b>
       | ev link <a> <b> | ev vote | ev finish <t> | ev abort | ev ret <t>          → ok
    open <cut>                             → txns=<tids> created=<0|1> | fail
    ls <cut>                               → names present in the image, e.g. data,index,pack
    committed <cut> / returned <cut>       → tids (relative to the initial Data.fs: only the finishes)
  names: data pack old index indexTmp; <tids>: comma separated decimal, `-` for none.
-/
import ZodbModel.DriverLib
import ZodbModel.PackDisk
open ZodbModel ZodbModel.PackDisk

structure DS where
  d0 : Dir := {}
  evs : List Ev := []

def parseName : String → Option FName
  | "data" => some .data | "pack" => some .pack | "old" => some .old
  | "index" => some .index | "indexTmp" => some .indexTmp | _ => none

def parseTids (s : String) : Option (List Nat) :=
  if s = "-" then some [] else (s.splitOn ",").mapM (·.toNat?)

def parseContent : List String → Option (Option Content)
  | ["none"] => some none
  | ["junk"] => some (some .junk)
  | ["db", ts, torn] => (parseTids ts).map fun l => some (.db l (torn = "1"))
  | ["idx", ts] => (parseTids ts).map fun l => some (.idx l)
  | _ => none

def showTids (l : List Nat) : String :=
  if l.isEmpty then "-" else joinWith "," (l.map toString)

def pdStep (s : DS) (toks : List String) : DS × String :=
  match toks with
  | ["reset"] => ({}, "ok")
  | "file" :: n :: rest =>
    match parseName n, parseContent rest with
    | some n, some c => ({ s with d0 := s.d0.set n c }, "ok")
    | _, _ => (s, "bad-op")
  | "ev" :: "put" :: n :: rest =>
    match parseName n, parseContent rest with
    | some n, some (some c) => ({ s with evs := s.evs ++ [.put n c] }, "ok")
    | _, _ => (s, "bad-op")
  | ["ev", "remove", n] =>
    match parseName n with
    | some n => ({ s with evs := s.evs ++ [.remove n] }, "ok")
    | none => (s, "bad-op")
  | ["ev", "rename", a, b] =>
    match parseName a, parseName b with
    | some a, some b => ({ s with evs := s.evs ++ [.rename a b] }, "ok")
    | _, _ => (s, "bad-op")
  | ["ev", "link", a, b] =>
    match parseName a, parseName b with
    | some a, some b => ({ s with evs := s.evs ++ [.link a b] }, "ok")
    | _, _ => (s, "bad-op")
  | ["ev", "vote"] => ({ s with evs := s.evs ++ [.vote] }, "ok")
  | ["ev", "abort"] => ({ s with evs := s.evs ++ [.abort] }, "ok")
  | ["ev", "finish", t] =>
    match t.toNat? with
    | some t => ({ s with evs := s.evs ++ [.finish t] }, "ok")
    | none => (s, "bad-op")
  | ["ev", "ret", t] =>
    match t.toNat? with
    | some t => ({ s with evs := s.evs ++ [.ret t] }, "ok")
    | none => (s, "bad-op")
  | ["open", c] =>
    match c.toNat? with
    | some c =>
      (s, match openDir (image s.d0 s.evs c) with
          | some o => "txns=" ++ showTids o.txns ++ " created=" ++ (if o.created then "1" else "0")
          | none => "fail")
    | none => (s, "bad-op")
  | ["ls", c] =>
    match c.toNat? with
    | some c =>
      let d := image s.d0 s.evs c
      let names := [("data", d.data), ("index", d.index), ("indexTmp", d.indexTmp), ("old", d.old),
                    ("pack", d.pack)]
      (s, joinWith "," ((names.filter (·.2.isSome)).map (·.1)))
    | none => (s, "bad-op")
  | ["committed", c] =>
    match c.toNat? with
    | some c => (s, showTids (finishes (s.evs.take c)))
    | none => (s, "bad-op")
  | ["returned", c] =>
    match c.toNat? with
    | some c => (s, showTids (rets (s.evs.take c)))
    | none => (s, "bad-op")
  | _ => (s, "bad-op")

def main : IO Unit := driverLoop pdStep ({} : DS)
