/-
  Line protocol driver for the record-level FileStorage model (`ZodbModel/FileStore.lean`).

  bytes tokens:  `-` (empty) or `+`-joined segments, each plain hex or `<count>*<hex byte>`
  ops:   reset | begin t:<tid>|n:<now> <status> <u> <d> <e> | store <oid> <serial> <data>
         delete <oid> <serial> | restore <oid> <serial> <data|None> <prevtxn|None> | undo <tid>
         vote | finish | abort | reopen | state
         qall oids=a,b bounds=.. serials=.. hsizes=.. windows=f:l,.. fwindows=user:f:l,.. swindows=u:d:e:f:l,.. iters=s:e,.. linv=..
  The answer of `qall` is one line of ` | `-separated `query=answer` segments.
  The same process also drives the MappingStorage model (`ZodbModel/Mapping.lean`):
         m.reset | m.begin t:<tid>|n:<now> <u> <d> <e> | m.store <oid> <serial> <data> | m.finish | m.abort
         m.qall oids=.. bounds=.. serials=.. hsizes=.. iters=..
-/
import ZodbModel.DriverLib
import ZodbModel.FileStore
import ZodbModel.Mapping
open ZodbModel ZodbModel.FileStore
open ZodbModel.History (Err Rec Txn HistEntry UndoEntry)

def parseSeg (s : String) : Option Bytes :=
  match s.splitOn "*" with
  | [h] => bytesOfHex h
  | [n, b] =>
    match n.toNat?, bytesOfHex b with
    | some n, some [x] => some (List.replicate n x)
    | _, _ => none
  | _ => none

def parseBytes (s : String) : Option Bytes :=
  if s = "-" then some []
  else (s.splitOn "+").foldl (fun acc seg => match acc, parseSeg seg with
                                | some a, some b => some (a ++ b)
                                | _, _ => none) (some [])

def fnv32 (b : Bytes) : Nat :=
  b.foldl (fun h x => ((h ^^^ x) * 16777619) % 4294967296) 2166136261

def showBytes (b : Bytes) : String :=
  if b.length ≤ 24 then "B(" ++ hexOfBytes b ++ ")"
  else "B#" ++ toString b.length ++ ":" ++ hexN 4 (fnv32 b)

def showOBytes : Option Bytes → String
  | none => "None"
  | some b => showBytes b

def showONat : Option Nat → String
  | none => "None"
  | some n => hexN 8 n

def showErr : Err → String
  | .keyError => "err:KeyError"
  | .valueError => "err:ValueError"
  | .corrupted => "err:Corrupted"

def showOpErr : OpErr → String
  | .keyError => "err:KeyError"
  | .conflict => "err:Conflict"
  | .undoError => "err:Undo"
  | .storageTxn => "err:StorageTransaction"
  | .fileStorageError => "err:FileStorageError"
  | .typeError => "err:TypeError"
  | .busy => "err:Busy"
  | .notVoted => "err:NotVoted"

def showRes : Res → String
  | .ok _ => "ok"
  | .error e => showOpErr e

def showExcept {α} (f : α → String) : Except Err α → String
  | .ok a => f a
  | .error e => showErr e

def parseList (s : String) : List String := if s = "" then [] else s.splitOn ","

def hexList (s : String) : List Nat := (parseList s).filterMap natOfHex
def natList (s : String) : List Nat := (parseList s).filterMap String.toNat?

def parseONat (s : String) : Option (Option Nat) :=
  if s = "None" then some none else (natOfHex s).map some

def pairList (s : String) : List (String × String) :=
  (parseList s).filterMap fun p => match p.splitOn ":" with
    | [a, b] => some (a, b)
    | _ => none

def tripleList (s : String) : List (String × String × String) :=
  (parseList s).filterMap fun p => match p.splitOn ":" with
    | [a, b, c] => some (a, b, c)
    | _ => none

/-- `u:d:e:first:last`, `*` = key not in the specification -/
def specList (s : String) : List (String × String × String × String × String) :=
  (parseList s).filterMap fun p => match p.splitOn ":" with
    | [a, b, c, d, e] => some (a, b, c, d, e)
    | _ => none

def parseOpt (s : String) : Option (Option Bytes) :=
  if s = "*" then some none else (parseBytes s).map some

def specOk (o : Option Bytes) (b : Bytes) : Bool :=
  match o with
  | none => true
  | some x => b == x

def showOpt : Option Bytes → String
  | none => "*"
  | some b => showBytes b

def showHist (e : HistEntry) : String :=
  hexN 8 e.tid ++ "," ++ showBytes e.user ++ "," ++ showBytes e.desc ++ "," ++ showBytes e.ext ++ "," ++
    toString e.size

def showUndo (e : UndoEntry) : String :=
  hexN 8 e.tid ++ "," ++ showBytes e.user ++ "," ++ showBytes e.desc ++ "," ++ showBytes e.ext ++ "," ++
    toString e.size

def showRec (r : Rec) : String :=
  hexN 8 r.oid ++ ":" ++ showOBytes r.data ++ ":" ++ showONat r.dataTxn

def showTxn (t : Txn) : String :=
  hexN 8 t.tid ++ "," ++ toString t.status ++ "," ++ showBytes t.user ++ "," ++ showBytes t.desc ++ "," ++
    showBytes t.ext ++ "{" ++ joinWith "," (t.recs.map showRec) ++ "}"

/-- record tids as stored in the data headers (the iterator reports `h.tid`), per transaction -/
def recTids (s : FS) (start stop : Option Nat) : String :=
  let ts := iterTake stop (iterFrom start false (fileLog s))
  joinWith ";" (ts.map fun t => joinWith "," (t.recs.reverse.map fun r => hexN 8 r.tid))

def walkIter (s : FS) : Nat → Nat → List String → String
  | 0, _, acc => "[" ++ joinWith ";" acc.reverse ++ "]more"
  | fuel + 1, next, acc =>
    match recordIterNext s next with
    | .error .valueError =>
      "[" ++ joinWith ";" acc.reverse ++ "]" ++ (if acc.isEmpty then "err:ValueError" else "end")
    | .error e => "[" ++ joinWith ";" acc.reverse ++ "]" ++ showErr e
    | .ok (oid, tid, d, nx) =>
      let acc := (hexN 8 oid ++ ":" ++ hexN 8 tid ++ ":" ++ showBytes d) :: acc
      match nx with
      | none => "[" ++ joinWith ";" acc.reverse ++ "]end"
      | some n => walkIter s fuel n acc

def arg (toks : List String) (key : String) : String :=
  match toks.find? (fun t => t.startsWith (key ++ "=")) with
  | some t => (t.drop (key.length + 1)).toString
  | none => ""

def qall (s : FS) (toks : List String) : String :=
  let oids := hexList (arg toks "oids")
  let bounds := hexList (arg toks "bounds")
  let serials := hexList (arg toks "serials")
  let hsizes := natList (arg toks "hsizes")
  let windows := pairList (arg toks "windows")
  let iters := pairList (arg toks "iters")
  let fwindows := tripleList (arg toks "fwindows")
  let swindows := specList (arg toks "swindows")
  let linv := natList (arg toks "linv")
  let segs : List String :=
    ["lastTransaction=" ++ hexN 8 (lastTransaction s)] ++
    oids.map (fun o => "load(" ++ hexN 8 o ++ ")=" ++
      showExcept (fun (r : Bytes × Nat) => showBytes r.1 ++ "@" ++ hexN 8 r.2) (load s o)) ++
    oids.map (fun o => "getTid(" ++ hexN 8 o ++ ")=" ++ showExcept (hexN 8) (getTid s o)) ++
    oids.flatMap (fun o => serials.map fun t =>
      "loadSerial(" ++ hexN 8 o ++ "," ++ hexN 8 t ++ ")=" ++ showExcept showBytes (loadSerial s o t)) ++
    oids.flatMap (fun o => bounds.map fun b =>
      "loadBefore(" ++ hexN 8 o ++ "," ++ hexN 8 b ++ ")=" ++
        showExcept (fun (r : Option (Bytes × Nat × Option Nat)) => match r with
          | none => "None"
          | some (d, t, e) => showBytes d ++ "@" ++ hexN 8 t ++ ".." ++ showONat e) (loadBefore s o b)) ++
    oids.flatMap (fun o => hsizes.map fun n =>
      "history(" ++ hexN 8 o ++ "," ++ toString n ++ ")=" ++
        showExcept (fun l => "[" ++ joinWith ";" (l.map showHist) ++ "]") (history s o n)) ++
    windows.map (fun w =>
      "undoLog(" ++ w.1 ++ "," ++ w.2 ++ ")=" ++
        (match w.1.toNat?, w.2.toNat? with
         | some f, some l => "[" ++ joinWith ";" ((undoLog s f l).map showUndo) ++ "]"
         | _, _ => "bad-arg")) ++
    fwindows.map (fun w =>
      (match parseBytes w.1, w.2.1.toNat?, w.2.2.toNat? with
       | some u, some f, some l =>
         "undoLogF(" ++ showBytes u ++ "," ++ w.2.1 ++ "," ++ w.2.2 ++ ")=[" ++
           joinWith ";" ((undoLogF s (fun e => e.user == u) f l).map showUndo) ++ "]"
       | _, _, _ => "undoLogF=bad-arg")) ++
    swindows.map (fun w =>
      (match parseOpt w.1, parseOpt w.2.1, parseOpt w.2.2.1, w.2.2.2.1.toNat?, w.2.2.2.2.toNat? with
       | some u, some d, some x, some f, some l =>
         "undoInfoS(" ++ showOpt u ++ "," ++ showOpt d ++ "," ++ showOpt x ++ "," ++ w.2.2.2.1 ++ "," ++
           w.2.2.2.2 ++ ")=[" ++
           joinWith ";" ((undoLogF s (fun e => specOk u e.user && specOk d e.desc && specOk x e.ext) f l).map
             showUndo) ++ "]"
       | _, _, _, _, _ => "undoInfoS=bad-arg")) ++
    iters.map (fun w =>
      "iterator(" ++ w.1 ++ "," ++ w.2 ++ ")=" ++
        (match parseONat w.1, parseONat w.2 with
         | some a, some b =>
           let r := iterator s a b false
           "[" ++ joinWith ";" (r.map showTxn) ++ "]" ++ "tids[" ++ recTids s a b ++ "]" ++
             (if iterator s a b true = r then "" else "!scan-differ")
         | _, _ => "bad-arg")) ++
    linv.map (fun n =>
      "lastInvalidations(" ++ toString n ++ ")=[" ++
        joinWith ";" ((lastInvalidations s n).map fun p =>
          hexN 8 p.1 ++ "{" ++ joinWith "," (p.2.map (hexN 8)) ++ "}") ++ "]") ++
    ["recordIter=" ++ walkIter s 1000 0 []]
  joinWith " | " segs

def showIndex (ix : Index) : String :=
  let keys := (ix.map (·.1)).eraseDups
  let sorted := keys.toArray.qsort (· < ·) |>.toList
  "[" ++ joinWith "," (sorted.map fun k => hexN 8 k ++ ":" ++ toString (idxGet ix k)) ++ "]"

def fsStep (s : FS) (toks : List String) : FS × String :=
  match toks with
  | ["reset"] => (init, "ok")
  | ["begin", t, status, u, d, e] =>
    let tidArg : Option (Option Nat × Nat) :=
      if t.startsWith "t:" then (natOfHex (t.drop 2).toString).map fun x => (some x, 0)
      else if t.startsWith "n:" then (natOfHex (t.drop 2).toString).map fun x => (none, x)
      else none
    match tidArg, status.toNat?, parseBytes u, parseBytes d, parseBytes e with
    | some (tid?, now), some st, some u, some d, some e =>
      let (s', r) := begin s tid? now st u d e
      (s', showRes r ++ " tid=" ++ (match s'.txn with | some x => hexN 8 x.tid | none => "none"))
    | _, _, _, _, _ => (s, "bad-op")
  | ["store", oid, serial, data] =>
    match natOfHex oid, natOfHex serial, parseBytes data with
    | some o, some t, some d => let (s', r) := store s o t d; (s', showRes r)
    | _, _, _ => (s, "bad-op")
  | ["delete", oid, serial] =>
    match natOfHex oid, natOfHex serial with
    | some o, some t => let (s', r) := delete s o t; (s', showRes r)
    | _, _ => (s, "bad-op")
  | ["restore", oid, serial, data, prev] =>
    let data? : Option (Option Bytes) := if data = "None" then some none else (parseBytes data).map some
    match natOfHex oid, natOfHex serial, data?, parseONat prev with
    | some o, some t, some d, some p => let (s', r) := restore s o t d p; (s', showRes r)
    | _, _, _, _ => (s, "bad-op")
  | ["undo", tid] =>
    match natOfHex tid with
    | some t => let (s', r) := undo s t; (s', showRes r)
    | none => (s, "bad-op")
  | ["vote"] => let (s', r) := vote s; (s', showRes r)
  | ["finish"] =>
    let (s', r) := finish s
    (s', showRes r ++ (match r with | .ok _ => " tid=" ++ hexN 8 s'.ltid | .error _ => ""))
  | ["abort"] => let (s', r) := abort s; (s', showRes r)
  | ["reopen"] => (reopen s, "ok")
  | ["state"] =>
    (s, "pos=" ++ toString s.pos ++ " ltid=" ++ hexN 8 s.ltid ++ " index=" ++ showIndex s.index)
  | "qall" :: rest => (s, qall s rest)
  | _ => (s, "bad-op")

/-! ### MappingStorage -/

def showMRes : Mapping.Res → String
  | .ok _ => "ok"
  | .error .conflict => "err:Conflict"
  | .error .storageTxn => "err:StorageTransaction"
  | .error .busy => "err:Busy"

def mqall (m : Mapping.MS) (toks : List String) : String :=
  let oids := hexList (arg toks "oids")
  let bounds := hexList (arg toks "bounds")
  let serials := hexList (arg toks "serials")
  let hsizes := natList (arg toks "hsizes")
  let iters := pairList (arg toks "iters")
  let segs : List String :=
    ["lastTransaction=" ++ hexN 8 (Mapping.lastTransaction m)] ++
    oids.map (fun o => "load(" ++ hexN 8 o ++ ")=" ++
      showExcept (fun (r : Bytes × Nat) => showBytes r.1 ++ "@" ++ hexN 8 r.2) (Mapping.load m o)) ++
    oids.map (fun o => "getTid(" ++ hexN 8 o ++ ")=" ++ showExcept (hexN 8) (Mapping.getTid m o)) ++
    oids.flatMap (fun o => serials.map fun t =>
      "loadSerial(" ++ hexN 8 o ++ "," ++ hexN 8 t ++ ")=" ++ showExcept showBytes (Mapping.loadSerial m o t)) ++
    oids.flatMap (fun o => bounds.map fun b =>
      "loadBefore(" ++ hexN 8 o ++ "," ++ hexN 8 b ++ ")=" ++
        showExcept (fun (r : Option (Bytes × Nat × Option Nat)) => match r with
          | none => "None"
          | some (d, t, e) => showBytes d ++ "@" ++ hexN 8 t ++ ".." ++ showONat e) (Mapping.loadBefore m o b)) ++
    oids.flatMap (fun o => hsizes.map fun n =>
      "history(" ++ hexN 8 o ++ "," ++ toString n ++ ")=" ++
        showExcept (fun l => "[" ++ joinWith ";" (l.map showHist) ++ "]") (Mapping.history m o n)) ++
    iters.map (fun w =>
      "iterator(" ++ w.1 ++ "," ++ w.2 ++ ")=" ++
        (match parseONat w.1, parseONat w.2 with
         | some a, some b =>
           let r := Mapping.iterator m a b
           "[" ++ joinWith ";" (r.map showTxn) ++ "]" ++ "tids[" ++
             joinWith ";" (r.map fun t => joinWith "," (t.recs.map fun _ => hexN 8 t.tid)) ++ "]"
         | _, _ => "bad-arg"))
  joinWith " | " segs

def mStep (m : Mapping.MS) (toks : List String) : Mapping.MS × String :=
  match toks with
  | ["m.reset"] => (Mapping.init, "ok")
  | ["m.begin", t, u, d, e] =>
    let tidArg : Option (Option Nat × Nat) :=
      if t.startsWith "t:" then (natOfHex (t.drop 2).toString).map fun x => (some x, 0)
      else if t.startsWith "n:" then (natOfHex (t.drop 2).toString).map fun x => (none, x)
      else none
    match tidArg, parseBytes u, parseBytes d, parseBytes e with
    | some (tid?, now), some u, some d, some e =>
      let (m', r) := Mapping.begin m tid? now u d e
      (m', showMRes r ++ " tid=" ++ (match m'.txn with | some x => hexN 8 x.tid | none => "none"))
    | _, _, _, _ => (m, "bad-op")
  | ["m.store", oid, serial, data] =>
    match natOfHex oid, natOfHex serial, parseBytes data with
    | some o, some t, some d => let (m', r) := Mapping.store m o t d; (m', showMRes r)
    | _, _, _ => (m, "bad-op")
  | ["m.finish"] =>
    let (m', r) := Mapping.finish m
    (m', showMRes r ++ (match r with | .ok _ => " tid=" ++ hexN 8 m'.ltid | .error _ => ""))
  | ["m.abort"] => let (m', r) := Mapping.abort m; (m', showMRes r)
  | "m.qall" :: rest => (m, mqall m rest)
  | _ => (m, "bad-op")

def bothStep (s : FS × Mapping.MS) (toks : List String) : (FS × Mapping.MS) × String :=
  match toks with
  | t :: _ =>
    if t.startsWith "m." then let (m', o) := mStep s.2 toks; ((s.1, m'), o)
    else let (f', o) := fsStep s.1 toks; ((f', s.2), o)
  | [] => (s, "bad-op")

def main : IO Unit := driverLoop bothStep (init, Mapping.init)
