import ZodbModel.DriverLib
import ZodbModel.Oid
open ZodbModel ZodbModel.Oid

def outStr : Out → String
  | .ok => "ok"
  | .oid o => hexN 8 o
  | .err .overflow => "err:Overflow"
  | .err .unsupported => "err:Unsupported"

def hexList (s : String) : Option (List Nat) :=
  if s = "-" then some [] else (s.splitOn ",").mapM natOfHex

def doStep (s : St) (op : Op) : St × String :=
  let (s', o) := step s op
  (s', outStr o)

def oidStep (s : St) (toks : List String) : St × String :=
  match toks with
  | ["reset", "file"] => (St.init .file, "ok")
  | ["reset", "mapping"] => (St.init .mapping, "ok")
  | ["newoid"] => doStep s .newOid
  | ["store", o] => (match natOfHex o with | some o => doStep s (.store o) | none => (s, "bad-op"))
  | ["restore", o] => (match natOfHex o with | some o => doStep s (.restore o) | none => (s, "bad-op"))
  | ["setmax", o] => (match natOfHex o with | some o => doStep s (.setMax o) | none => (s, "bad-op"))
  | ["begin"] => (s, "ok")
  | ["abort"] => doStep s .abort
  | ["finish"] => doStep s .finish
  | ["pack", keep] => (match hexList keep with | some k => doStep s (.pack k) | none => (s, "bad-op"))
  | ["reopen"] => doStep s .reopen
  | ["counter"] => (s, toString s.counter)
  | ["newoidbytes", b] =>      -- BaseStorage.new_oid on an explicit 8-byte counter
    (match bytesOfHex b with
     | some b => (s, match newOidBytes b with
                     | .ok r => hexOfBytes r
                     | .error _ => "err:Overflow")
     | none => (s, "bad-op"))
  | _ => (s, "bad-op")

def main : IO Unit := driverLoop oidStep (St.init .file)
