import ZodbModel.DriverLib
import ZodbModel.Blob
open ZodbModel ZodbModel.Blob

/-! Line protocol of the blob model (C13).  Every op prints `out|events|files|blobrecs`:
    events  = canonical (sorted) list of raw operations on committed-named paths
    files   = sorted `oid:tid:hex` of every `<oid>/<tid>.blob`
    recs    = sorted `oid:tid` of every committed blob record -/

structure DSt where
  st : St
  objs : List (Nat × Obj)
  ts : TmpStore
  sps : List (Nat × SpState)

def errStr : Err → String
  | .conflict => "err:Conflict"
  | .os => "err:OS"
  | .txn => "err:Txn"
  | .misuse => "err:Misuse"
  | .undo => "err:Undo"
  | .keyError => "err:KeyError"
  | .busy => "err:Busy"
  | .unsupported => "err:Unsupported"
  | .value => "err:Value"

def outStr : Out → String
  | .ok => "ok"
  | .err e => errStr e

def keyStr (k : Key) : String := toString k.1 ++ ":" ++ toString k.2

def keyLe (a b : Key) : Bool := a.1 < b.1 || (a.1 == b.1 && a.2 ≤ b.2)

def hexOrDash (b : Bytes) : String := if b.isEmpty then "-" else hexOfBytes b

def evStr : Ev → Option String
  | .rename _ (.blob k) => some ("mv>" ++ keyStr k)
  | .rename (.blob k) (.old _) => some ("old:" ++ keyStr k)
  | .remove (.blob k) => some ("rm:" ++ keyStr k)
  | .link _ (.blob k) => some ("ln>" ++ keyStr k)
  | .create (.blob k) => some ("cr:" ++ keyStr k)
  | .write (.blob k) => some ("wr:" ++ keyStr k)
  | _ => none

def strLe (a b : String) : Bool := a ≤ b

def evsStr (evs : List Ev) : String :=
  joinWith "," ((evs.filterMap evStr).eraseDups.mergeSort strLe)

/-- first binding wins: drop shadowed duplicates before printing -/
def dedup (fs : Files) : Files :=
  fs.foldr (fun e acc => e :: acc.filter (fun x => x.1 ≠ e.1)) []

def filesStr (fs : Files) : String :=
  joinWith "," (((dedup fs).mergeSort fun a b => keyLe a.1 b.1).map fun e =>
    keyStr e.1 ++ ":" ++ hexOrDash e.2)

def recsStr (h : List Rec) : String :=
  joinWith "," (((blobRecs h).eraseDups.mergeSort keyLe).map keyStr)

def report (s : St) (evs : List Ev) (o : Out) : String :=
  outStr o ++ "|" ++ evsStr evs ++ "|" ++ filesStr s.files ++ "|" ++ recsStr s.hist

def parseBytes (s : String) : Option Bytes := if s = "-" then some [] else bytesOfHex s

def parseKey (s : String) : Option Key :=
  match s.splitOn ":" with
  | [a, b] => do
    let x ← a.toNat?
    let y ← b.toNat?
    pure (x, y)
  | _ => none

def parseKeys (s : String) : Option (List Key) :=
  if s = "-" then some [] else (s.splitOn ",").mapM parseKey

def parseMode : String → Option Mode
  | "w" => some .w
  | "a" => some .a
  | "r+" => some .rplus
  | _ => none

def objGet (l : List (Nat × Obj)) (i : Nat) : Obj :=
  match l.find? (fun e => e.1 = i) with
  | some e => e.2
  | none => { committed := none, working := none }

def objSet (l : List (Nat × Obj)) (i : Nat) (o : Obj) : List (Nat × Obj) :=
  (i, o) :: l.filter (fun e => e.1 ≠ i)

def doOp (d : DSt) (o : Op) : DSt × String :=
  let r := step d.st o
  ({ d with st := r.1 }, report r.1 r.2.1 r.2.2)

def bad (d : DSt) : DSt × String := (d, "bad-op")

def blobStep (d : DSt) (toks : List String) : DSt × String :=
  match toks with
  | ["reset", fl] =>
    let f := if fl = "wrap" then Flavor.wrap else Flavor.fs
    ({ st := init f, objs := [], ts := TmpStore.empty, sps := [] }, "ok")
  | ["mktemp", n, hex] =>
    match n.toNat?, parseBytes hex with
    | some n, some b => doOp d (.mkTemp n b)
    | _, _ => bad d
  | ["begin", t] =>
    match t.toNat? with
    | some t => doOp d (.begin t)
    | none => bad d
  | ["store", oid, v, base] =>
    match oid.toNat?, v.toNat?, base.toNat? with
    | some oid, some v, some base => doOp d (.store oid v base)
    | _, _, _ => bad d
  | ["storeblob", oid, n, base] =>
    match oid.toNat?, n.toNat?, base.toNat? with
    | some oid, some n, some base => doOp d (.storeBlob oid n base)
    | _, _, _ => bad d
  | ["restoreblob", oid, n] =>
    match oid.toNat?, n.toNat? with
    | some oid, some n => doOp d (.restoreBlob oid n)
    | _, _ => bad d
  | ["vote"] => doOp d .vote
  | ["finish"] => doOp d .finish
  | ["abort"] => doOp d .abort
  | ["fabort"] => doOp d .foreignAbort
  | ["undo", t] =>
    match t.toNat? with
    | some t => doOp d (.undo t)
    | none => bad d
  | ["pack", T, ko, ks] =>
    match T.toNat?, parseKeys ks with
    | some T, some ks => doOp d (.pack T ks (ko = "1"))
    | _, _ => bad d
  | ["nop"] => (d, report d.st [] .ok)     -- a call that raised before doing anything (failed pack)
  | ["packundoing"] =>     -- what _packUndoing would leave on the current state (query only)
    (d, filesStr (packUndoing d.st.files d.st.hist))
  -- Blob objects / savepoints ------------------------------------------------------------
  | ["obj.load", i, hex] =>      -- ghost loaded: committed data, no working copy
    match i.toNat?, parseBytes hex with
    | some i, some b => ({ d with objs := objSet d.objs i { committed := some b, working := none } }, "ok")
    | _, _ => bad d
  | ["obj.new", i] =>
    match i.toNat? with
    | some i => ({ d with objs := objSet d.objs i { committed := none, working := none } }, "ok")
    | none => bad d
  | ["obj.write", i, m, hex] =>
    match i.toNat?, parseMode m, parseBytes hex with
    | some i, some m, some b =>
      let o := (objGet d.objs i).write m b
      ({ d with objs := objSet d.objs i o }, hexOrDash o.read)
    | _, _, _ => bad d
  | ["obj.consume", i, hex] =>
    match i.toNat?, parseBytes hex with
    | some i, some b =>
      let o := (objGet d.objs i).consume b
      ({ d with objs := objSet d.objs i o }, hexOrDash o.read)
    | _, _ => bad d
  | ["obj.read", i] =>
    match i.toNat? with
    | some i => (d, hexOrDash (objGet d.objs i).read)
    | none => bad d
  | ["sp.store", i, len] =>       -- savepoint stores object i's working copy in the TmpStore
    match i.toNat?, len.toNat? with
    | some i, some len =>
      let o := objGet d.objs i
      match o.working with
      | none => (d, "clean")
      | some b =>
        let ts := d.ts.storeBlob i b len
        ({ d with ts := ts, objs := objSet d.objs i { committed := some b, working := none } }, "ok")
    | _, _ => bad d
  | ["sp.take", n] =>
    match n.toNat? with
    | some n => ({ d with sps := (n, d.ts.state) :: d.sps }, "ok")
    | none => bad d
  | ["sp.rollback", n] =>
    match n.toNat? with
    | some n =>
      match d.sps.find? (fun e => e.1 = n) with
      | some e => ({ d with ts := d.ts.reset e.2 }, "ok")
      | none => bad d
    | none => bad d
  | ["sp.load", i, hex] =>        -- after a rollback: reload object i (bytes in the base storage given)
    match i.toNat?, parseBytes hex with
    | some i, some base =>
      let c := match d.ts.loadBlob i with
        | some b => b
        | none => base
      ({ d with objs := objSet d.objs i { committed := some c, working := none } }, hexOrDash c)
    | _, _ => bad d
  | ["sp.reset"] => ({ d with ts := TmpStore.empty, sps := [] }, "ok")
  | _ => bad d

def main : IO Unit :=
  driverLoop blobStep { st := init .fs, objs := [], ts := TmpStore.empty, sps := [] }
