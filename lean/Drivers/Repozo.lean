/-
  Line-protocol driver for the repozo model (C18).  One op per line, one observation per line.

    reset                                  → ok
    app <hex|->                            → ok c=<committed len> r=<raw len>   (commit: append, tail cleared)
    pack <hex|->                           → ok c=.. r=..                       (pack: committed replaced)
    tail <hex|->                           → ok c=.. r=..                       (transaction in progress)
    qd <now>                               → 1 | 0                              (QuickDetectable)
    backup <now> <flags FQzk|->            → full <name> <len> <adler32> | incr … | noop | err:<E>
    ls                                     → files=… dats=… idxs=…
    recover <le:n|lt:n> <w 0|1> <o|s> <pre 0|1>
                                           → ok <len> <adler32> file=… part=… idx=… | err:<E> …
    verify <q 0|1> <now>                   → ok | err:<E>
    save / restore                         → ok                                 (around a damage)
    dmg del <name> | dmg set <name> <hex|-> | dmg trunc <name> <n> | dmg flip <name> <off> <xor> | dmg deldat <date> | dmg delidx <date> | dmg cpidx <from> <to> | dmg truncdat <date> <nlines>  → ok
-/
import ZodbModel.DriverLib
import ZodbModel.Repozo
open ZodbModel ZodbModel.Repozo

structure DState where
  repo : Repo
  src : Src
  saved : Repo

def DState.init : DState := ⟨Repo.empty, ⟨[], []⟩, Repo.empty⟩

/-- tail-recursive hex parser (inputs are a few KB) -/
def hexBytes (s : String) : Option Bytes :=
  if s = "-" then some [] else
  let rec go (cs : List Char) (acc : Array Nat) : Option Bytes :=
    match cs with
    | [] => some acc.toList
    | [_] => none
    | a :: b :: t =>
      match hexVal a, hexVal b with
      | some x, some y => go t (acc.push (x * 16 + y))
      | _, _ => none
  go s.toList #[]

/-- Adler-32 of the bytes (what `zlib.adler32` computes); only used to print observations -/
def fnv64 (b : Bytes) : Nat :=
  let r := b.foldl (fun (p : Nat × Nat) x =>
    let a := (p.1 + x) % 65521
    (a, (p.2 + a) % 65521)) (1, 0)
  r.2 * 65536 + r.1

def extStr (n : Name) : String :=
  (if n.full then "fs" else "deltafs") ++ (if n.gz then "z" else "")

def nameStr (n : Name) : String := toString n.date ++ "." ++ extStr n

def parseName (s : String) : Option Name :=
  match s.splitOn "." with
  | [d, e] =>
    match d.toNat? with
    | none => none
    | some d =>
      if e = "fs" then some ⟨d, true, false⟩
      else if e = "fsz" then some ⟨d, true, true⟩
      else if e = "deltafs" then some ⟨d, false, false⟩
      else if e = "deltafsz" then some ⟨d, false, true⟩
      else none
  | _ => none

def errStr : Err → String
  | .noFiles => "err:NoFiles"
  | .wouldOverwrite => "err:WouldOverwrite"
  | .assertion => "err:Assertion"
  | .osError => "err:OSError"
  | .keyError => "err:KeyError"
  | .verifyMissing => "err:VerifyMissing"
  | .verifySize => "err:VerifySize"
  | .verifySum => "err:VerifySum"

def insertBy {α} (key : α → Nat) (x : α) : List α → List α
  | [] => [x]
  | y :: t => if key x ≤ key y then x :: y :: t else y :: insertBy key x t

def sortBy {α} (key : α → Nat) (l : List α) : List α := l.foldr (insertBy key) []

def lsStr (r : Repo) : String :=
  let fs := (sortBy (fun f : DFile => nameKey f.name) r.files).map
    fun f => nameStr f.name ++ ":" ++ toString f.content.length
  let lineStr (l : DatLine) : String :=
    let st := match r.files.find? (fun f => f.name = l.fn) with
              | none => "nofile"
              | some f => if f.content = l.sum then "ok" else "bad"
    nameStr l.fn ++ ":" ++ toString l.startpos ++ ":" ++ toString l.endpos ++ ":" ++ st
  let ds := (sortBy (fun p : Nat × List DatLine => p.1) r.dats).map
    fun p => toString p.1 ++ "[" ++ joinWith "," (p.2.map lineStr) ++ "]"
  let is := (sortBy (fun p : Nat × Bytes => p.1) r.idxs).map
    fun p => toString p.1 ++ ":" ++ toString p.2.length
  "files=" ++ joinWith "," fs ++ " dats=" ++ joinWith ";" ds ++ " idxs=" ++ joinWith "," is

def optLen : Option Bytes → String
  | none => "none"
  | some b => toString b.length

def parseWhen (s : String) : Option Nat :=
  match s.splitOn ":" with
  | ["le", n] => n.toNat?
  | ["lt", n] => n.toNat?.map (· - 1)
  | _ => none

def srcOut (s : DState) : String :=
  "ok c=" ++ toString s.src.committed.length ++ " r=" ++ toString s.src.raw.length

/-- the pre-existing output used by `recover … pre=1`: a stale data file and a stale index -/
def staleOut : Out := ⟨some [222, 173], none, some [190]⟩
def noOut : Out := ⟨none, none, none⟩

def rzStep (s : DState) (toks : List String) : DState × String :=
  match toks with
  | ["reset"] => (DState.init, "ok")
  | ["app", h] =>
    match hexBytes h with
    | some b => let s' := { s with src := ⟨s.src.committed ++ b, []⟩ }; (s', srcOut s')
    | none => (s, "bad-op")
  | ["pack", h] =>
    match hexBytes h with
    | some b => let s' := { s with src := ⟨b, []⟩ }; (s', srcOut s')
    | none => (s, "bad-op")
  | ["tail", h] =>
    match hexBytes h with
    | some b => let s' := { s with src := ⟨s.src.committed, b⟩ }; (s', srcOut s')
    | none => (s, "bad-op")
  | ["qd", now] =>
    match now.toNat? with
    | some now => (s, if decide (QuickDetectable s.repo s.src now) then "1" else "0")
    | none => (s, "bad-op")
  | ["backup", now, flags] =>
    match now.toNat? with
    | some now =>
      let fl := flags.toList
      let o : BOpts := ⟨fl.contains 'F', fl.contains 'Q', fl.contains 'z', fl.contains 'k'⟩
      let (r', out) := doBackup s.repo s.src o now
      let newInfo (kind : String) : String :=
        match r'.files.find? (fun f => f.name.date = now) with
        | some f => kind ++ " " ++ nameStr f.name ++ " " ++ toString f.content.length ++ " "
                      ++ toString (fnv64 f.content)
        | none => kind ++ " ?"
      let msg := match out with
        | .full => newInfo "full"
        | .incr => newInfo "incr"
        | .noop => "noop"
        | .err e => errStr e
      ({ s with repo := r' }, msg)
    | none => (s, "bad-op")
  | ["ls"] => (s, lsStr s.repo)
  | ["recover", whenS, w, mode, pre] =>
    match parseWhen whenS with
    | some when =>
      let wv := w = "1"
      if mode = "s" then
        let (b, e) := doRecoverStdout s.repo when wv
        let head := match e with | none => "ok" | some e => errStr e
        (s, head ++ " " ++ toString b.length ++ " " ++ toString (fnv64 b))
      else
        -- 1: stale stub; 2..5: whatever an earlier recovery left: 2 file+index, 3 file only, 4 index only, 5 nothing
        let o0 : Out :=
          if pre = "1" || pre = "2" then staleOut
          else if pre = "3" then ⟨staleOut.file, none, none⟩
          else if pre = "4" then ⟨none, none, staleOut.index⟩
          else noOut
        let (o, e) := doRecover s.repo when wv o0
        let head := match e with | none => "ok" | some e => errStr e
        let fileS := match o.file with
                     | none => "none"
                     | some b => toString b.length ++ ":" ++ toString (fnv64 b)
        let idxS := match o.index with
                    | none => "none"
                    | some ix => if o.file = some ix then "ok" else if some ix = staleOut.index then "stale" else "bad"
        (s, head ++ " file=" ++ fileS ++ " part=" ++ optLen o.part ++ " idx=" ++ idxS)
    | none => (s, "bad-op")
  | ["verify", q, now] =>
    match now.toNat? with
    | some now =>
      (s, match doVerify s.repo (q = "1") now with | none => "ok" | some e => errStr e)
    | none => (s, "bad-op")
  | ["save"] => ({ s with saved := s.repo }, "ok")
  | ["restore"] => ({ s with repo := s.saved }, "ok")
  | ["dmg", "del", nm] =>
    match parseName nm with
    | some nm => ({ s with repo := delFile nm s.repo }, "ok")
    | none => (s, "bad-op")
  | ["dmg", "set", nm, h] =>
    match parseName nm, hexBytes h with
    | some nm, some b => ({ s with repo := setContent nm b s.repo }, "ok")
    | _, _ => (s, "bad-op")
  | ["dmg", "trunc", nm, n] =>       -- keep the first n bytes
    match parseName nm, n.toNat? with
    | some nm, some n =>
      (match s.repo.files.find? (fun f => f.name = nm) with
       | some f => ({ s with repo := setContent nm (f.content.take n) s.repo }, "ok")
       | none => (s, "nofile"))
    | _, _ => (s, "bad-op")
  | ["dmg", "flip", nm, off, x] =>   -- xor the byte at offset off with x
    match parseName nm, off.toNat?, x.toNat? with
    | some nm, some off, some x =>
      (match s.repo.files.find? (fun f => f.name = nm) with
       | some f =>
         let c := f.content.take off ++ (match f.content.drop off with
                                         | [] => []
                                         | b :: t => (b ^^^ x) :: t)
         ({ s with repo := setContent nm c s.repo }, "ok")
       | none => (s, "nofile"))
    | _, _, _ => (s, "bad-op")
  | ["dmg", "deldat", d] =>
    match d.toNat? with
    | some d => ({ s with repo := delDat d s.repo }, "ok")
    | none => (s, "bad-op")
  | ["dmg", "cpidx", a, b] =>        -- <b>.index := copy of <a>.index
    match a.toNat?, b.toNat? with
    | some a, some b =>
      (match getK a s.repo.idxs with
       | some ix => ({ s with repo := { s.repo with idxs := setK b ix s.repo.idxs } }, "ok")
       | none => (s, "noidx"))
    | _, _ => (s, "bad-op")
  | ["dmg", "truncdat", d, n] =>     -- keep the first n lines of <d>.dat
    match d.toNat?, n.toNat? with
    | some d, some n =>
      (match getK d s.repo.dats with
       | some ls => ({ s with repo := { s.repo with dats := setK d (ls.take n) s.repo.dats } }, "ok")
       | none => (s, "nodat"))
    | _, _ => (s, "bad-op")
  | ["dmg", "delidx", d] =>
    match d.toNat? with
    | some d => ({ s with repo := delIdx d s.repo }, "ok")
    | none => (s, "bad-op")
  | _ => (s, "bad-op")

def main : IO Unit := driverLoop rzStep DState.init
