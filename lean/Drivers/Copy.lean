import ZodbModel.DriverLib
import ZodbModel.Recover
open ZodbModel ZodbModel.Copy ZodbModel.Recover

/-! Line protocol of the record-level model of `copyTransactionsFrom`.

    reset                                   → ok        forget the source
    txn <tid> <status> <user> <desc> <ext>  → ok        next source transaction (hex, `-` = empty)
    rec <oid> <tid> <data|none> <hint|none> → ok        next record of that transaction
    blob <oid> <tid> <content>              → ok        a blob file of the source
    isblob <data>                           → ok        declare that pickle a blob record
    copy                → ok <dump of the destination's iterator> img=<len>:<fnv64> | err:TypeError
    copyrange <a|none> <b|none>             → same, for `iterator(a, b)`
    copyblob            → same as copy (no tid fix-up) followed by ` blobs=[oid,tid,content;…]`
-/

structure CState where
  src : List ITxn := []            -- oldest first
  blobs : Blobs := []
  blobData : List Bytes := []

def hexOrDash (b : Bytes) : String := if b.isEmpty then "-" else hexOfBytes b

def dumpIRec (r : IRec) : String :=
  hexN 8 r.oid ++ "," ++ hexN 8 r.tid ++ "," ++
    (match r.data with | some d => hexOrDash d | none => "none") ++ "," ++
    (match r.dataTxn with | some h => hexN 8 h | none => "none")

def dumpITxn (t : ITxn) : String :=
  hexN 8 t.tid ++ ":" ++ toString t.status ++ ":" ++ hexOrDash t.user ++ ":" ++ hexOrDash t.desc ++
    ":" ++ hexOrDash t.ext ++ ":[" ++ joinWith ";" (t.recs.map dumpIRec) ++ "]"

def dumpITxns (l : List ITxn) : String := joinWith "|" (l.map dumpITxn)

def fnv64 (b : Bytes) : UInt64 :=
  b.foldl (fun h x => (h ^^^ UInt64.ofNat x) * 0x100000001b3) 0xcbf29ce484222325

def imgStr (D : Store) : String :=
  let e := encStore D
  "img=" ++ toString e.length ++ ":" ++ hexN 8 (fnv64 e).toNat

def dashBytes (s : String) : Option Bytes := if s = "-" then some [] else bytesOfHex s

def optHex (s : String) : Option (Option Nat) :=
  if s = "none" then some none else (natOfHex s).map some

def showResult (r : Except Err Store) : String :=
  match r with
  | .error .typeError => "err:TypeError"
  | .ok D =>
    match iterate D with
    | some l => "ok " ++ dumpITxns l ++ " " ++ imgStr D
    | none => "ok dangling"

def addRec (src : List ITxn) (r : IRec) : Option (List ITxn) :=
  match src.reverse with
  | [] => none
  | t :: older => some ((({ t with recs := t.recs ++ [r] } : ITxn) :: older).reverse)

def copyStep (s : CState) (toks : List String) : CState × String :=
  match toks with
  | ["reset"] => ({}, "ok")
  | ["txn", tid, st, u, d, e] =>
    match natOfHex tid, st.toNat?, dashBytes u, dashBytes d, dashBytes e with
    | some tid, some st, some u, some d, some e =>
      ({ s with src := s.src ++ [⟨tid, st, u, d, e, []⟩] }, "ok")
    | _, _, _, _, _ => (s, "bad-op")
  | ["rec", oid, tid, data, hint] =>
    let data? : Option (Option Bytes) := if data = "none" then some none else (dashBytes data).map some
    match natOfHex oid, natOfHex tid, data?, optHex hint with
    | some oid, some tid, some data, some hint =>
      match addRec s.src ⟨oid, tid, data, hint⟩ with
      | some src => ({ s with src := src }, "ok")
      | none => (s, "bad-op")
    | _, _, _, _ => (s, "bad-op")
  | ["blob", oid, tid, c] =>
    match natOfHex oid, natOfHex tid, dashBytes c with
    | some oid, some tid, some c => ({ s with blobs := s.blobs ++ [((oid, tid), c)] }, "ok")
    | _, _, _ => (s, "bad-op")
  | ["isblob", d] =>
    match dashBytes d with
    | some d => ({ s with blobData := d :: s.blobData }, "ok")
    | none => (s, "bad-op")
  | ["copy"] => (s, showResult (copy s.src []))
  | ["copyrange", a, b] =>
    match optHex a, optHex b with
    | some a, some b => (s, showResult (copy (iterRange s.src a b) []))
    | _, _ => (s, "bad-op")
  | ["copyblob"] =>
    let bl := copyBlobs (fun d => s.blobData.contains d) s.blobs s.src
    (s, showResult (copyBlobLoop s.src []) ++ " blobs=[" ++
      joinWith ";" (bl.map fun e => hexN 8 e.1.1 ++ "," ++ hexN 8 e.1.2 ++ "," ++ hexOrDash e.2) ++ "]")
  | _ => (s, "bad-op")

def main : IO Unit := driverLoop copyStep {}
