import ZodbModel.DriverLib
import ZodbModel.FsIndex
open ZodbModel ZodbModel.FsIndex

def errStr : Err → String
  | .keyError => "err:KeyError"
  | .valueError => "err:ValueError"
  | .structError => "err:StructError"

def fsStep (ix : Idx) (toks : List String) : Idx × String :=
  match toks with
  | ["set", k, v] =>
    match natOfHex k, v.toNat? with
    | some k, some v =>
      (match set ix k v with
       | .ok ix' => (ix', "ok")
       | .error e => (ix, errStr e))
    | _, _ => (ix, "bad-op")
  | ["del", k] =>
    match natOfHex k with
    | some k =>
      (match del ix k with
       | .ok ix' => (ix', "ok")
       | .error e => (ix, errStr e))
    | none => (ix, "bad-op")
  | ["get", k] =>
    match natOfHex k with
    | some k => (ix, match get ix k with | some v => toString v | none => "none")
    | none => (ix, "bad-op")
  | ["contains", k] =>
    match natOfHex k with
    | some k => (ix, if contains ix k then "1" else "0")
    | none => (ix, "bad-op")
  | ["len"] => (ix, toString (len ix))
  | ["keys"] => (ix, "[" ++ joinWith "," ((keys ix).map (hexN 8)) ++ "]")
  | ["values"] => (ix, "[" ++ joinWith "," ((values ix).map toString) ++ "]")
  | ["items"] => (ix, "[" ++ joinWith "," ((items ix).map fun kv => hexN 8 kv.1 ++ ":" ++ toString kv.2) ++ "]")
  | ["clear"] => (clear ix, "ok")
  | ["update", _kind, kvs] =>      -- update from a dict / another fsIndex holding k:v,k:v,…
    let pairs := (kvs.splitOn ",").filterMap fun kv =>
      match kv.splitOn ":" with
      | [k, v] => (match natOfHex k, v.toNat? with | some k, some v => some (k, v) | _, _ => none)
      | _ => none
    (match update ix pairs with
     | .ok ix' => (ix', "ok")
     | .error e => (ix, errStr e))
  | ["minkey"] => (ix, match minKey ix none with | .ok m => hexN 8 m | .error e => errStr e)
  | ["maxkey"] => (ix, match maxKey ix none with | .ok m => hexN 8 m | .error e => errStr e)
  | ["minkey", k] =>
    match natOfHex k with
    | some k => (ix, match minKey ix (some k) with | .ok m => hexN 8 m | .error e => errStr e)
    | none => (ix, "bad-op")
  | ["maxkey", k] =>
    match natOfHex k with
    | some k => (ix, match maxKey ix (some k) with | .ok m => hexN 8 m | .error e => errStr e)
    | none => (ix, "bad-op")
  | ["iternext", k] =>    -- index part of FileStorage.record_iternext(next): "oid next|none"
    match (if k == "none" then some none else (natOfHex k).map some) with
    | some nx =>
      (ix, match recordIterNext ix nx with
           | .ok (o, some n) => hexN 8 o ++ " " ++ hexN 8 n
           | .ok (o, none) => hexN 8 o ++ " none"
           | .error e => errStr e)
    | none => (ix, "bad-op")
  | ["saveload", p] =>
    match p.toNat? with
    | some p =>
      let (p', ix') := load (save ix p)
      (ix', "pos=" ++ toString p' ++ " [" ++ joinWith "," ((items ix').map fun kv => hexN 8 kv.1 ++ ":" ++ toString kv.2) ++ "]")
    | none => (ix, "bad-op")
  | ["bucketstr", k] =>   -- toString() of the bucket holding key k's prefix, hex
    match natOfHex k with
    | some k => (ix, match alGet (pre k) ix with | some b => hexOfBytes (bucketToString b) | none => "none")
    | none => (ix, "bad-op")
  | _ => (ix, "bad-op")

def main : IO Unit := driverLoop fsStep ([] : Idx)
