import ZodbModel.DriverLib
import ZodbModel.Undo
open ZodbModel ZodbModel.Undo

/-!
  Line protocol of the undo model (C06).  One op per line, one observation per line.
  Data are canonical tokens `[tag, hi, lo]`: tag 0 = opaque state of an unresolvable class (interned
  by the harness), tag 1 = state `hi*256+lo` of the harness' resolvable class `c06_classes.RC`, whose
  `_p_resolveConflict` is the function `rcResolve` below (same arithmetic on both sides).
-/

structure St where
  fs : FS := {}
  pend : Log := []          -- a log being loaded with `log.*` ops (newest first)
  ltid : Nat := 0           -- `_ltid`: survives a pack that drops the newest transaction from the file

/-- tag 1 = `c06_classes.RC`, tag 2 = `c06_pkg.sub.RC2` (same arithmetic, class in a package
    submodule with a required `__init__` argument) -/
def rcVal : Bytes → Option Nat
  | [1, hi, lo] => some (hi * 256 + lo)
  | [2, hi, lo] => some (hi * 256 + lo)
  | _ => none

/-- `c06_classes.RC._p_resolveConflict(old, committed, new)` on tokens -/
def rcResolve : Resolver := fun _ old committed new =>
  match rcVal old, rcVal committed, rcVal new with
  | some o, some c, some n =>
    if (o + 2 * c + 3 * n) % 7 = 3 then none
    else
      let v := (2 * c + 3 * n + 4 * 65521 - 4 * o) % 65521
      some [new.headD 1, v / 256, v % 256]          -- the class is the one of `new` (tryToResolveConflict)
  | _, _, _ => none

def hx (n : Nat) : String := hexN 8 n

def sortNat (l : List Nat) : List Nat := (l.toArray.qsort (· < ·)).toList

def dedup : List Nat → List Nat
  | [] => []
  | a :: t => if t.contains a then dedup t else a :: dedup t

def oidsStr (l : List Nat) : String :=
  "[" ++ joinWith "," ((sortNat (dedup l)).map hx) ++ "]"

def errStr : UErr → String
  | .invalidTid => "err:Undo:invalid-tid"
  | .nonUndoable => "err:Undo:non-undoable"
  | .failures oids => "err:Undo:failures" ++ oidsStr oids

def payloadStr : Payload → String
  | .data d => "d:" ++ hexOfBytes d
  | .back b => "b:" ++ toString b

/-- records of a transaction in file order with ordinal pointers ([I]) -/
def txnDump (t : Txn) : String :=
  hx t.tid ++ (if t.packed then " p" else " _") ++ " " ++
    joinWith " " (t.recs.reverse.map fun r =>
      hx r.oid ++ "/" ++ toString r.prev ++ "/" ++ payloadStr r.pl)

/-- what the iterator yields for a transaction: oid, data (resolved; `-` for un-creation), data_txn -/
def iterStr : List Rec → List String
  | [] => []
  | r :: older =>
    let d := match recData older r with
             | some d => hexOfBytes d
             | none => "-"
    let dt := match dataTxn older r with
              | some t => hx t
              | none => "-"
    (hx r.oid ++ ":" ++ d ++ ":" ++ dt) :: iterStr older

def verdictStr : Verdict → String
  | .restore => "restore"
  | .merge m => "merge:" ++ hexOfBytes m
  | .refuse => "refuse"

def step (s : St) (toks : List String) : St × String :=
  let F := flat s.fs.log
  match toks with
  | ["reset"] => ({}, "ok")
  | ["begin", t] =>
    match natOfHex t with
    | some t => ({ s with fs := s.fs.tpcBegin t }, "ok")
    | none => (s, "bad-op")
  | ["store", o, d] =>
    match natOfHex o, bytesOfHex d with
    | some o, some d => ({ s with fs := s.fs.store o d }, "ok")
    | _, _ => (s, "bad-op")
  | ["rec", o, "b", n] =>                      -- deleteObject / restore: a back-pointer record (0 = gone)
    match natOfHex o, n.toNat? with
    | some o, some n => ({ s with fs := s.fs.storePayload o (.back n) }, "ok")
    | _, _ => (s, "bad-op")
  | ["undo", t] =>
    match natOfHex t with
    | some t =>
      let (fs', r) := s.fs.undo rcResolve t
      ({ s with fs := fs' }, match r with
                             | .ok oids => "ok " ++ oidsStr oids
                             | .error e => errStr e)
    | none => (s, "bad-op")
  | ["finish"] =>
    match s.fs.txn with
    | none => (s, "err:no-txn")
    | some st =>
      if st.failed then (s, "err:failed-undo") else ({ s with fs := s.fs.finish, ltid := st.tid }, "ok")
  | ["abort"] => ({ s with fs := s.fs.abort }, "ok")
  | ["last"] => (s, hx s.ltid)
  | ["load", o] =>
    match natOfHex o with
    | some o => (s, match load F o with
                    | some (d, t) => "d=" ++ hexOfBytes d ++ " s=" ++ hx t
                    | none => "KeyError")
    | none => (s, "bad-op")
  | ["lb", o, b] =>
    match natOfHex o, natOfHex b with
    | some o, some b => (s, match loadBefore F o b with
                            | .keyError => "KeyError"
                            | .noRev => "None"
                            | .found d t e => "d=" ++ hexOfBytes d ++ " s=" ++ hx t ++ " e=" ++
                                (match e with | some e => hx e | none => "-"))
    | _, _ => (s, "bad-op")
  | ["ls", o, t] =>
    match natOfHex o, natOfHex t with
    | some o, some t => (s, match loadSerial F o t with
                            | some d => "d=" ++ hexOfBytes d
                            | none => "KeyError")
    | _, _ => (s, "bad-op")
  | ["iter"] =>
    (s, match s.fs.log with
        | [] => "empty"
        | t :: older =>
          let strs := ((iterStr (t.recs ++ flat older)).take t.recs.length).reverse
          hx t.tid ++ (if t.packed then " p " else " _ ") ++ joinWith " " strs)
  | ["dump"] => (s, joinWith " | " (s.fs.log.reverse.map txnDump))
  | ["inv"] => (s, if invB s.fs.log then "1" else "0")
  | ["verdict", t, o] =>
    match natOfHex t, natOfHex o with
    | some t, some o =>
      (s, match txnFind t s.fs.log with
          | none => "no-txn"
          | some (T, older) =>
            if T.packed then "packed"
            else if T.oids.contains o then verdictStr (verdictFor rcResolve F T older o)
            else "not-written")
    | _, _ => (s, "bad-op")
  | ["log.begin"] => ({ s with pend := [] }, "ok")
  | ["log.txn", t, st] =>
    match natOfHex t with
    | some t => ({ s with pend := { tid := t, packed := st == "p", recs := [] } :: s.pend }, "ok")
    | none => (s, "bad-op")
  | ["log.rec", o, t, prev, kind, v] =>
    match natOfHex o, natOfHex t, prev.toNat?, s.pend with
    | some o, some t, some prev, cur :: rest =>
      let pl? : Option Payload :=
        if kind == "d" then (bytesOfHex v).map Payload.data
        else v.toNat?.map Payload.back
      (match pl? with
       | some pl =>
         ({ s with pend := { cur with recs := { oid := o, tid := t, prev := prev, pl := pl } :: cur.recs } :: rest },
          "ok")
       | none => (s, "bad-op"))
    | _, _, _, _ => (s, "bad-op")
  | ["log.end", lt] =>
    let fs : FS := { log := s.pend }
    ({ fs := fs, pend := [], ltid := (natOfHex lt).getD 0 },
     "inv=" ++ (if invB fs.log then "1" else "0") ++ " n=" ++ toString (flat fs.log).length)
  | _ => (s, "bad-op")

def main : IO Unit := driverLoop step ({} : St)
