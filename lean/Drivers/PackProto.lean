/-
  Line protocol for `ZodbModel/PackProto.lean` (C08, concurrency part): one action per line, the
  model answers whether the protocol accepts it in the current state.

    reset <tids>                 initial database
    begin <t> | vote | finish | abort | ret <t> | packStart <T> | packRefused | scan <k>
      | bulkCopy <tids> | packNoop | acquireCommit | readHdr | releaseForBody | copyBody | reacquire
      | swapBegin | swapEnd | releaseCommit | clearFlag | packFail
      | readerGet | readerRead <g> | readerPut <g>
                                 → ok <phase> | blocked      (blocked: not enabled, state unchanged)
    file / hist / returned       → tids
    state                        → phase=… lock=… flag=… copied=… k=… gen=… bad=…
-/
import ZodbModel.DriverLib
import ZodbModel.PackProto
open ZodbModel ZodbModel.PackProto

def parseTidsP (s : String) : Option (List Nat) :=
  if s = "-" then some [] else (s.splitOn ",").mapM (·.toNat?)

def showTidsP (l : List Nat) : String :=
  if l.isEmpty then "-" else joinWith "," (l.map toString)

def phaseStr : PPhase → String
  | .idle => "idle" | .started => "started" | .scanned => "scanned" | .bulkCopied => "bulkCopied"
  | .holdsCommit => "holdsCommit" | .hdrRead => "hdrRead" | .copyingBody => "copyingBody"
  | .bodyCopied => "bodyCopied" | .atEof => "atEof" | .midSwap => "midSwap" | .swapped => "swapped"
  | .released => "released" | .done => "done"

def parseAct : List String → Option Act
  | ["begin", t] => t.toNat?.map .begin
  | ["vote"] => some .vote
  | ["finish"] => some .finish
  | ["abort"] => some .abort
  | ["ret", t] => t.toNat?.map .ret
  | ["packStart", t] => t.toNat?.map .packStart
  | ["packRefused"] => some .packRefused
  | ["scan", k] => k.toNat?.map .scan
  | ["bulkCopy", ts] => (parseTidsP ts).map .bulkCopy
  | ["packNoop"] => some .packNoop
  | ["acquireCommit"] => some .acquireCommit
  | ["readHdr"] => some .readHdr
  | ["releaseForBody"] => some .releaseForBody
  | ["copyBody"] => some .copyBody
  | ["reacquire"] => some .reacquire
  | ["swapBegin"] => some .swapBegin
  | ["swapEnd"] => some .swapEnd
  | ["releaseCommit"] => some .releaseCommit
  | ["clearFlag"] => some .clearFlag
  | ["packFail"] => some .packFail
  | ["readerGet"] => some .readerGet
  | ["readerRead", g] => g.toNat?.map .readerRead
  | ["readerPut", g] => g.toNat?.map .readerPut
  | _ => none

def ppStep (s : State) (toks : List String) : State × String :=
  match toks with
  | ["reset", ts] =>
    match parseTidsP ts with
    | some l => (init l, "ok")
    | none => (s, "bad-op")
  | ["file"] => (s, showTidsP s.file)
  | ["hist"] => (s, showTidsP s.hist)
  | ["returned"] => (s, showTidsP s.returned)
  | ["state"] =>
    (s, "phase=" ++ phaseStr s.phase ++ " lock=" ++
      (match s.commitLock with | none => "free" | some .packer => "packer" | some .committer => "committer")
      ++ " flag=" ++ (if s.packFlag then "1" else "0") ++ " copied=" ++ toString s.copied
      ++ " k=" ++ toString s.k ++ " gen=" ++ toString s.gen
      ++ " bad=" ++ (if s.badRead || s.corrupt then "1" else "0"))
  | _ =>
    match parseAct toks with
    | some a =>
      match step s a with
      | some s' => (s', "ok " ++ phaseStr s'.phase)
      | none => (s, "blocked")
    | none => (s, "bad-op")

def main : IO Unit := driverLoop ppStep (init [])
