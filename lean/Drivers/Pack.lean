import ZodbModel.DriverLib
import ZodbModel.Pack
open ZodbModel ZodbModel.Pack

/-! Line protocol of the pack model (C07).  See harness/c07.py. -/

structure DState where
  h : History := []
  lastPack : Option Tid := none
  savedH : History := []
  savedLP : Option Tid := none

def optHex (s : String) : Option (Option Bytes) :=
  if s == "-" then some none else (bytesOfHex s).map some

def optNat (s : String) : Option (Option Nat) :=
  if s == "-" then some none else s.toNat?.map some

def natList (s : String) : Option (List Nat) :=
  if s == "-" then some [] else (s.splitOn ",").mapM (·.toNat?)

def errStr : PackErr → String
  | .keyError => "err:KeyError"
  | .valueError => "err:ValueError"
  | .fuel => "err:Fuel"

def outStr : PackOut → String
  | .ok _ => "ok"
  | .noop => "noop"
  | .redundant => "redundant"
  | .error e => errStr e

def optNatStr : Option Nat → String
  | none => "-"
  | some n => toString n

def recStr (r : Rec) : String :=
  toString r.oid ++ "/" ++ (match r.data with | none => "-" | some d => hexOfBytes d) ++ "/" ++ optNatStr r.back

def txnStr (t : Txn) : String :=
  toString t.tid ++ ":" ++ (if t.packed then "p" else "_") ++ ":" ++ hexOfBytes t.mdata ++ ":[" ++
    joinWith "," (t.recs.map recStr) ++ "]"

def loadStr : Load → String
  | .keyError => "K"
  | .none => "N"
  | .some d t e => "d" ++ hexOfBytes d ++ ".s" ++ toString t ++ ".e" ++ optNatStr e

def sortNat (l : List Nat) : List Nat := l.mergeSort (fun a b => decide (a ≤ b))

def listStr (l : List Nat) : String := joinWith "," ((sortNat l).map toString)

def sortedB (h : History) : Bool :=
  match h with
  | [] => true
  | t :: rest => rest.all (fun t' => decide (t.tid < t'.tid)) && sortedB rest

def backOKB (h : History) : Bool :=
  h.all fun t => t.recs.all fun r =>
    match r.back with
    | none => true
    | some bt => decide (bt < t.tid) && h.any fun t' => t'.tid == bt &&
        (match t'.recOf r.oid with
         | some r' => r'.data == r.data && r'.dlen == r.dlen
         | none => false)

def b01 (b : Bool) : String := if b then "1" else "0"

def appendRec (h : History) (r : Rec) : Option History :=
  match h.getLast? with
  | none => none
  | some t => some (h.dropLast ++ [{ t with recs := t.recs ++ [r] }])

def pkStep (s : DState) (toks : List String) : DState × String :=
  match toks with
  | ["reset"] => ({}, "ok")
  | ["txn", tid, p, mlen, md] =>
    match tid.toNat?, mlen.toNat?, optHex md with
    | some tid, some mlen, some md =>
      ({ s with h := s.h ++ [⟨tid, p == "1", mlen, md.getD [], []⟩] }, "ok")
    | _, _, _ => (s, "bad-op")
  | ["rec", oid, data, dlen, back, refs] =>
    match oid.toNat?, optHex data, dlen.toNat?, optNat back, natList refs with
    | some oid, some data, some dlen, some back, some refs =>
      (match appendRec s.h ⟨oid, data, dlen, refs, back⟩ with
       | some h' => ({ s with h := h' }, "ok")
       | none => (s, "bad-op"))
    | _, _, _, _, _ => (s, "bad-op")
  | ["save"] => ({ s with savedH := s.h, savedLP := s.lastPack }, "ok")
  | ["restore"] => ({ s with h := s.savedH, lastPack := s.savedLP }, "ok")
  | ["fs.pack", T, gc] =>
    match T.toNat? with
    | some T =>
      let r := packFS s.h T (gc == "1")
      ({ s with h := r.hist s.h }, outStr r)
    | none => (s, "bad-op")
  | ["map.pack", T, gc] =>
    match T.toNat? with
    | some T =>
      let (m, r) := packMapping ⟨s.h, s.lastPack⟩ T (gc == "1")
      ({ s with h := m.h, lastPack := m.lastPack }, outStr r)
    | none => (s, "bad-op")
  | ["dump"] => (s, joinWith ";" (s.h.map txnStr))
  | ["load", oid, b] =>
    match oid.toNat?, b.toNat? with
    | some oid, some b =>
      (s, match loadBefore s.h oid b with
          | .keyError => "err:KeyError"
          | .none => "none"
          | .some d t e => "d=" ++ hexOfBytes d ++ " s=" ++ toString t ++ " e=" ++ optNatStr e)
    | _, _ => (s, "bad-op")
  | ["loads", T, oids, bs] =>
    match T.toNat?, natList oids, natList bs with
    | some T, some oids, some bs =>
      (s, joinWith ";" (oids.flatMap fun o => (bs.filter (fun b => decide (T < b))).map fun b =>
        toString o ++ "@" ++ toString b ++ "=" ++ loadStr (loadBefore s.h o b)))
    | _, _, _ => (s, "bad-op")
  | ["reach", b] =>
    match b.toNat? with
    | some b => (s, match reachListAt s.h b with | some l => listStr l | none => "err:Fuel")
    | none => (s, "bad-op")
  | ["reachT", T] =>
    match T.toNat? with
    | some T => (s, match reachListAtT s.h T with | some l => listStr l | none => "err:Fuel")
    | none => (s, "bad-op")
  | ["nr", T] =>
    match T.toNat? with
    | some T => (s, "strong=" ++ b01 (noResurrectionB s.h T true) ++ " weak=" ++ b01 (noResurrectionB s.h T false))
    | none => (s, "bad-op")
  | ["wf"] => (s, "sorted=" ++ b01 (sortedB s.h) ++ " backok=" ++ b01 (backOKB s.h))
  | _ => (s, "bad-op")

def main : IO Unit := driverLoop pkStep ({} : DState)
