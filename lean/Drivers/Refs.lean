import ZodbModel.DriverLib
import ZodbModel.Refs
open ZodbModel ZodbModel.Refs

/-! Line protocol for the C14 model (see harness/c14.py for the grammar). -/

namespace RefsDriver

def strOf (cs : List Char) : String := String.ofList cs

def splitC (sep : Char) (s : String) : List String :=
  let rec go (cur : List Char) (acc : List String) : List Char → List String
    | [] => (strOf cur.reverse :: acc).reverse
    | c :: t => if c = sep then go [] (strOf cur.reverse :: acc) t else go (c :: cur) acc t
  go [] [] s.toList

def natList (s : String) : List Nat :=
  if s = "-" then [] else (splitC ',' s).filterMap String.toNat?

def hexList (s : String) : List Bytes :=
  if s = "-" then [] else (splitC ',' s).filterMap bytesOfHex

def pairList (s : String) : List (Nat × Nat) :=
  if s = "-" then [] else (splitC ',' s).filterMap fun p =>
    match splitC ':' p with
    | [a, b] => match a.toNat?, b.toNat? with
      | some a, some b => some (a, b)
      | _, _ => none
    | _ => none

/-! ### parsing trees (prefix notation, one token per node) -/

def parsePLeaf (s : String) : Option PLeaf :=
  match s.toList with
  | 's' :: r => (strOf r).toNat?.map .strong
  | 'w' :: r => (strOf r).toNat?.map .weak
  | _ => none

def parseOidTok (s : String) : Option OidTok :=
  match s.toList with
  | 'b' :: r => (bytesOfHex (strOf r)).map .bytes
  | 'u' :: r => (bytesOfHex (strOf r)).map .str
  | _ => none

def parseTok (s : String) : Option Tok :=
  match s.toList with
  | 'T' :: r =>
    match splitC ':' (strOf r) with
    | [o, c] => do pure (.tup (← parseOidTok o) (← c.toNat?))
    | _ => none
  | 'O' :: r => (parseOidTok (strOf r)).map .oid
  | 'W' :: r =>
    match splitC ':' (strOf r) with
    | [o] => do pure (.weak (← parseOidTok o) none)
    | [o, d] => do pure (.weak (← parseOidTok o) (some (← d.toNat?)))
    | _ => none
  | 'M' :: r =>
    match splitC ':' (strOf r) with
    | [d, o, c] => do pure (.multi (← d.toNat?) (← parseOidTok o) (← c.toNat?))
    | _ => none
  | 'N' :: r =>
    match splitC ':' (strOf r) with
    | [d, o] => do pure (.multiOid (← d.toNat?) (← parseOidTok o))
    | _ => none
  | 'L' :: r => (parseOidTok (strOf r)).map .legacyWeak
  | _ => none

mutual
partial def parseTree {L : Type} (pl : String → Option L) : List String → Option (Tree L × List String)
  | [] => none
  | t :: rest =>
    match t.toList with
    | 'a' :: r => (strOf r).toNat?.map fun n => (Tree.atom n, rest)
    | 'n' :: r =>
      match splitC ':' (strOf r) with
      | [k, c] =>
        match k.toNat?, c.toNat? with
        | some k, some c => (parseTrees pl c rest).map fun (ks, rest') => (Tree.node k ks, rest')
        | _, _ => none
      | _ => none
    | _ => (pl t).map fun l => (Tree.leaf l, rest)
partial def parseTrees {L : Type} (pl : String → Option L) :
    Nat → List String → Option (List (Tree L) × List String)
  | 0, rest => some ([], rest)
  | n + 1, rest =>
    match parseTree pl rest with
    | none => none
    | some (t, rest') => (parseTrees pl n rest').map fun (ts, r) => (t :: ts, r)
end

/-- `- ; tree` or `tree ; tree` -/
def parseTwo {L : Type} (pl : String → Option L) (toks : List String) :
    Option (Option (Tree L) × Tree L) :=
  match toks with
  | "-" :: ";" :: rest =>
    match parseTree pl rest with
    | some (st, []) => some (none, st)
    | _ => none
  | _ =>
    match parseTree pl toks with
    | some (a, ";" :: rest) =>
      match parseTree pl rest with
      | some (st, []) => some (some a, st)
      | _ => none
    | _ => none

/-! ### printing -/

def showOidTok : OidTok → String
  | .bytes b => "b" ++ hexOfBytes b
  | .str s => "u" ++ hexOfBytes s

def showTok : Tok → String
  | .tup o c => "T" ++ showOidTok o ++ ":" ++ toString c
  | .oid o => "O" ++ showOidTok o
  | .weak o none => "W" ++ showOidTok o
  | .weak o (some d) => "W" ++ showOidTok o ++ ":" ++ toString d
  | .multi d o c => "M" ++ toString d ++ ":" ++ showOidTok o ++ ":" ++ toString c
  | .multiOid d o => "N" ++ toString d ++ ":" ++ showOidTok o
  | .legacyWeak o => "L" ++ showOidTok o

mutual
partial def showTree {L : Type} (sl : L → String) : Tree L → List String
  | .atom a => ["a" ++ toString a]
  | .leaf l => [sl l]
  | .node k ks => ("n" ++ toString k ++ ":" ++ toString ks.length) :: showTrees sl ks
partial def showTrees {L : Type} (sl : L → String) : List (Tree L) → List String
  | [] => []
  | t :: ts => showTree sl t ++ showTrees sl ts
end

def showRecord (r : Record) : String :=
  toString r.cls ++ " " ++
    (match r.args with | none => "-" | some a => joinWith " " (showTree showTok a)) ++ " ; " ++
    joinWith " " (showTree showTok r.state)

def showErr : Err → String
  | .invalidRef n => "err:InvalidRef" ++ toString n
  | .badHandle => "err:BadHandle"
  | .badState => "err:BadState"
  | .outOfFuel => "err:OutOfFuel"
  | .posKey => "err:POSKey"
  | .keyError => "err:KeyError"
  | .unicode => "err:Unicode"

def showJar : Jar → String
  | .none => "-"
  | .conn d c => toString d ++ ":" ++ toString c

def showOpt (o : Option Oid) : String := match o with | none => "-" | some b => hexOfBytes b

/-! ### driver state -/

structure DState where
  objs : List Obj := []
  env : Env := { db := 0, conn := 0, xrefs := true, conns := [], implicit := [], fresh := fun _ => [] }
  pend : Pending := { registered := [], added := [], changed := [] }
  store : Store := []
  implicitAcc : List (Db × Oid) := []
  saved : Store := []
  sps : List Store := []          -- the store at each savepoint of the running transaction
  hist : List Store := []         -- the store after earlier transactions (historical connections)
  lastW : WState := WState.init
  dbs : List Db := []
  missing : List Cls := []

def storePut (st : Store) (k : Db × Oid) (r : Record) : Store :=
  (k, r) :: st.filter (fun e => e.1 ≠ k)

def parseJar (s : String) : Option Jar :=
  if s = "-" then some .none
  else match splitC ':' s with
    | [d, c] => do pure (.conn (← d.toNat?) (← c.toNat?))
    | _ => none

def parseKey (s : String) : Option (Db × Oid) :=
  match splitC ':' s with
  | [d, o] => do pure ((← d.toNat?), (← bytesOfHex o))
  | _ => none

/-- the loaded graph reachable from `todo`, one entry per object -/
partial def lwalk (lenv : LEnv) (ls : LState) (todo : List (Db × Oid)) (seen : List (Db × Oid))
    (acc : List String) : LState × List String :=
  match todo with
  | [] => (ls, acc.reverse)
  | k :: rest =>
    if seen.contains k then lwalk lenv ls rest seen acc
    else
      let key := toString k.1 ++ ":" ++ hexOfBytes k.2
      match connGet lenv ls k.1 k.2 with
      | .error e => lwalk lenv ls rest (k :: seen) ((key ++ "=" ++ showErr e) :: acc)
      | .ok (h, ls1) =>
        let r := match (ls1.heap[h]?).bind (·.state) with
          | some _ => Except.ok ls1
          | none => connSetstate lenv ls1 h
        match r with
        | .error e => lwalk lenv ls1 rest (k :: seen) ((key ++ "=" ++ showErr e) :: acc)
        | .ok ls2 =>
          match ls2.heap[h]? with
          | none => lwalk lenv ls2 rest (k :: seen) ((key ++ "=err:BadHandle") :: acc)
          | some x =>
            let t := x.state.getD (.atom 0)
            let keyOf (h' : Nat) : Db × Oid :=
              match ls2.heap[h']? with | some y => (y.db, y.oid) | none => (0, [])
            let sl : LLeaf → String
              | .obj h' => let k' := keyOf h'; "o" ++ toString k'.1 ++ ":" ++ hexOfBytes k'.2
              | .wref d o => "r" ++ (match d with | none => "-" | some d => toString d) ++ ":" ++ hexOfBytes o
            let line := key ++ "=" ++ toString x.cls ++ "/" ++ (if x.broken then "1" else "0") ++ "/" ++
              joinWith " " (showTree sl t)
            let next := t.leaves.filterMap fun l => match l with | .obj h' => some (keyOf h') | _ => none
            lwalk lenv ls2 (rest ++ next) (k :: seen) (line :: acc)

def dupCount (ls : LState) : Nat :=
  let keys := ls.heap.map fun x => (x.db, x.oid)
  (keys.filter fun k => keys.count k > 1).length

def step (d : DState) (toks : List String) : DState × String :=
  match toks with
  | ["reset"] => ({}, "ok")
  | ["heap"] => ({ d with objs := [] }, "ok")
  | "obj" :: cls :: oid :: jar :: rest =>
    match cls.toNat?, parseJar jar, parseTwo parsePLeaf rest with
    | some c, some j, some (a, st) =>
      let o : Obj := { cls := c, newargs := a, state := st,
                       oid := if oid = "-" then none else bytesOfHex oid, jar := j }
      ({ d with objs := d.objs ++ [o] }, "h=" ++ toString d.objs.length)
    | _, _, _ => (d, "bad-op")
  | ["env", db, conn, xrefs, conns, fresh] =>
    match db.toNat?, conn.toNat? with
    | some db, some conn =>
      let fl := hexList fresh
      ({ d with env := { db := db, conn := conn, xrefs := xrefs = "1", conns := pairList conns,
                         implicit := d.implicitAcc, fresh := fun k => fl.getD k [] } }, "ok")
    | _, _ => (d, "bad-op")
  | ["pending", reg, added, changed] =>
    ({ d with pend := { registered := natList reg, added := natList added, changed := natList changed } }, "ok")
  | ["commit"] =>
    match commit d.env d.objs d.pend with
    | .error e => (d, showErr e)
    | .ok (out, w) =>
      let recs := out.filterMap fun (h, r) => (finalOid d.objs w h).map fun o => (o, h, r)
      let store := recs.foldl (fun st (o, _, r) => storePut st (d.env.db, o) r) d.store
      let impl := recs.filterMap fun (o, h, _) =>
        match d.objs[h]? with
        | some ob => if ob.oid.isNone then some (d.env.db, o) else none
        | none => none
      ({ d with store := store, lastW := w, implicitAcc := d.implicitAcc ++ impl },
       "ok stored=" ++ joinWith "," (recs.map fun (o, _, _) => hexOfBytes o))
  | ["final"] =>
    let n := d.objs.length
    (d, joinWith " " ((List.range n).map fun h =>
      toString h ++ "=" ++ showOpt (finalOid d.objs d.lastW h) ++ "@" ++ showJar (finalJar d.env d.objs d.lastW h)))
  | ["txnbegin"] => ({ d with implicitAcc := [], saved := d.store, sps := [] }, "ok")
  | ["spmark"] => ({ d with sps := d.sps ++ [d.store] }, "ok")
  | ["sprollback", k] =>
    match k.toNat? with
    | some k =>
      (match d.sps[k]? with
       | some st => ({ d with store := st, sps := d.sps.take (k + 1) }, "ok")
       | none => (d, "bad-op"))
    | none => (d, "bad-op")
  | ["txnend"] => ({ d with implicitAcc := [] }, "ok")
  | ["txnabort"] => ({ d with implicitAcc := [], store := d.saved }, "ok")
  | "put" :: key :: cls :: rest =>
    match parseKey key, cls.toNat?, parseTwo parseTok rest with
    | some k, some c, some (a, st) =>
      ({ d with store := storePut d.store k { cls := c, args := a, state := st } }, "ok")
    | _, _, _ => (d, "bad-op")
  | ["rec", key] =>
    match parseKey key with
    | some k => (d, match lookup k d.store with | some r => showRecord r | none => "none")
    | none => (d, "bad-op")
  | ["refs", key] =>
    match parseKey key with
    | some k => (d, match lookup k d.store with
      | some r => (match referencesOf r.tokens with
        | .ok l => "[" ++ joinWith "," (l.map hexOfBytes) ++ "]"
        | .error e => showErr e)
      | none => "none")
    | none => (d, "bad-op")
  | ["getrefs", key] =>
    match parseKey key with
    | some k => (d, match lookup k d.store with
      | some r => (match getRefs r.tokens with
        -- (under `noload` the class of a reference is not resolved: only the oids are compared)
        | .ok l => "[" ++ joinWith "," (l.map fun (o, _) => hexOfBytes o) ++ "]"
        | .error e => showErr e)
      | none => "none")
    | none => (d, "bad-op")
  | ["clearstore"] => ({ d with store := [] }, "ok")
  | ["lenv", dbs, missing] => ({ d with dbs := natList dbs, missing := natList missing }, "ok")
  | ["lwalk", keys] =>
    let ks := if keys = "-" then [] else (splitC ',' keys).filterMap parseKey
    let lenv : LEnv := { store := d.store, dbs := d.dbs, missing := d.missing }
    let (ls, lines) := lwalk lenv LState.init ks [] []
    (d, "dup=" ++ toString (dupCount ls) ++ " | " ++ joinWith " | " lines)
  | ["histmark"] => ({ d with hist := d.hist ++ [d.store] }, "ok")
  | ["lwalkat", k, keys] =>        -- what a historical connection as of mark `k` loads
    match k.toNat?.bind (d.hist[·]?) with
    | some st =>
      let ks := if keys = "-" then [] else (splitC ',' keys).filterMap parseKey
      let lenv : LEnv := { store := st, dbs := d.dbs, missing := d.missing }
      let (ls, lines) := lwalk lenv LState.init ks [] []
      (d, "dup=" ++ toString (dupCount ls) ++ " | " ++ joinWith " | " lines)
    | none => (d, "bad-op")
  | _ => (d, "bad-op")

end RefsDriver

def main : IO Unit := driverLoop RefsDriver.step ({} : RefsDriver.DState)
