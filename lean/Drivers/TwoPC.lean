import ZodbModel.DriverLib
import ZodbModel.TwoPC
open ZodbModel ZodbModel.TwoPC

/-!
  Line protocol of the C05 machines (all numbers decimal).

    reset file <quota|none> | reset mapping | reset demo-file <quota|none> <base> | reset demo-mapping <base>
        (<base> = `-` or `oid:tid,oid:tid,…`)                                   → ok
    save / restore            remember / return to a state (victim re-runs)     → ok
    begin t tid status ul dl el | store t oid serial dlen tag | storeblob … | delete t oid serial
    vote t | finish t | abort t | fault k
        → <out> d=<-|W|T> b=<0|1>      (file: class of the call's raw data-file operations: none /
                                        writes only / ends truncated; b = all of them at offsets ≥ _pos)
        → <out>                         (other machines)
    obs                                                                          → canonical observation
-/

inductive DS where
  | file (s : State)
  | mapping (m : Mapping.State)
  | demoFile (d : Demo.State fileMachine)
  | demoMapping (d : Demo.State mappingMachine)

structure Drv where
  cur : DS
  saved : DS

def outStr : Out → String
  | .ok => "ok"
  | .blocked => "blocked"
  | .errTxn => "err:StorageTransaction"
  | .errConflict => "err:Conflict"
  | .errQuota => "err:Quota"
  | .errMeta k => "err:Meta" ++ toString k
  | .errIO => "err:IO"
  | .errKey => "err:KeyError"
  | .closed => "closed"
  | .misuse => "misuse"
  | .errCallback => "err:Callback"

def insSorted {α} (k : Nat) (v : α) : List (Nat × α) → List (Nat × α)
  | [] => [(k, v)]
  | (k', v') :: t => if k ≤ k' then (k, v) :: (k', v') :: t else (k', v') :: insSorted k v t

def sortAL {α} (l : List (Nat × α)) : List (Nat × α) :=
  l.foldl (fun acc kv => insSorted kv.1 kv.2 acc) []

def pairKey (p : Nat × Nat) : Nat := p.1 * 18446744073709551616 + p.2

def dedupSorted : List (Nat × Nat) → List (Nat × Nat)
  | a :: b :: t => if a == b then dedupSorted (b :: t) else a :: dedupSorted (b :: t)
  | l => l

/-- blob files are a SET of names: sorted, without duplicates -/
def sortPairs (l : List (Nat × Nat)) : List (Nat × Nat) :=
  dedupSorted ((sortAL (l.map fun p => (pairKey p, p))).map (·.2))

def b01 (b : Bool) : String := if b then "1" else "0"

def recStr (r : Rec) : String :=
  s!"{r.oid}.{r.tid}.{r.prev}.{b01 r.del}.{r.dlen}.{r.tag}"

def ftxnStr (t : FTxn) : String :=
  s!"{t.tid}:{t.status}:{t.ul}:{t.dl}:{t.el}:[" ++ joinWith "," (t.recs.map recStr) ++ "]"

def pairsStr (l : List (Nat × Nat)) : String :=
  "[" ++ joinWith "," ((sortPairs l).map fun p => s!"{p.1}:{p.2}") ++ "]"

def fileObsStr (s : State) : String :=
  let o := obs s
  "txns=[" ++ joinWith ";" (o.txns.reverse.map ftxnStr) ++ "]" ++
  s!" pos={o.pos} len={o.fileLen} index=[" ++
  joinWith "," ((sortAL o.index).map fun e => s!"{e.1}:{e.2.1}:{e.2.2}") ++ "]" ++
  s!" ltid={o.ltid} blobs={pairsStr o.blobFiles} staging={b01 o.stagingEmpty} lock={b01 o.lockFree}" ++
  s!" txn={b01 o.txnNone} closed={b01 o.closed}"

def mtxnStr (t : Mapping.MTxn) : String :=
  s!"{t.tid}:[" ++ joinWith "," ((sortAL t.recs).map fun e => s!"{e.1}.{e.2.1}.{e.2.2}") ++ "]"

def mappingObsStr (m : Mapping.State) : String :=
  let o := Mapping.obs m
  "txns=[" ++ joinWith ";" (o.txns.reverse.map mtxnStr) ++ "]" ++
  " cur=[" ++ joinWith "," ((sortAL o.cur).map fun e => s!"{e.1}:{e.2}") ++ "]" ++
  s!" ltid={o.ltid} blobs={pairsStr o.blobFiles} staging={b01 o.stagingEmpty} lock={b01 o.lockFree}" ++
  s!" txn={b01 o.txnNone}"

def dataClass (pos : Nat) (evs : List Ev) : String :=
  let ms := evs.filter isDataMut
  let cls := if ms.any (fun e => match e with | .trunc _ _ => true | _ => false) then "T"
             else if ms.isEmpty then "-" else "W"
  let lastOk := match ms.getLast? with
    | some (.trunc _ n) => n == pos
    | some _ => cls != "T"
    | none => true
  let beyond := ms.all fun e => match e with
    | .write _ off _ => decide (pos ≤ off)
    | .trunc _ n => decide (pos ≤ n)
    | _ => true
  s!"d={cls} b={b01 (beyond && lastOk)}"

def parseBase (s : String) : List (Nat × Nat) :=
  if s == "-" then [] else
  (s.splitOn ",").filterMap fun e =>
    match e.splitOn ":" with
    | [a, b] => match a.toNat?, b.toNat? with
      | some a, some b => some (a, b)
      | _, _ => none
    | _ => none

def parseQuota (s : String) : Option Nat := s.toNat?

def parseOp (toks : List String) : Option Op :=
  match toks with
  | ["begin", t, tid, st, ul, dl, el] => do
    pure (.begin (← t.toNat?) (← tid.toNat?) (← st.toNat?) (← ul.toNat?) (← dl.toNat?) (← el.toNat?))
  | ["store", t, oid, ser, dlen, tag] => do
    pure (.store (← t.toNat?) (← oid.toNat?) (← ser.toNat?) (← dlen.toNat?) (← tag.toNat?))
  | ["storeblob", t, oid, ser, dlen, tag] => do
    pure (.storeBlob (← t.toNat?) (← oid.toNat?) (← ser.toNat?) (← dlen.toNat?) (← tag.toNat?))
  | ["delete", t, oid, ser] => do pure (.delete (← t.toNat?) (← oid.toNat?) (← ser.toNat?))
  | ["vote", t] => do pure (.vote (← t.toNat?))
  | ["finish", t] => do pure (.finish (← t.toNat?))
  | ["abort", t] => do pure (.abort (← t.toNat?))
  | ["fault", k] => do pure (.fault (← k.toNat?))
  | _ => none

def stepDS (ds : DS) (op : Op) : DS × String :=
  match ds with
  | .file s =>
    let r := step s op
    (.file r.1, outStr r.2.2 ++ " " ++ dataClass s.pos r.2.1)
  | .mapping m => let r := Mapping.step m op; (.mapping r.1, outStr r.2)
  | .demoFile d => let r := Demo.step d op; (.demoFile r.1, outStr r.2)
  | .demoMapping d => let r := Demo.step d op; (.demoMapping r.1, outStr r.2)

def obsDS : DS → String
  | .file s => fileObsStr s
  | .mapping m => mappingObsStr m
  | .demoFile d => fileObsStr d.changes ++ s!" dtxn={b01 (decide (d.txn = none))} dlock={b01 (decide (d.commitLock = none))}"
  | .demoMapping d => mappingObsStr d.changes ++ s!" dtxn={b01 (decide (d.txn = none))} dlock={b01 (decide (d.commitLock = none))}"

def drvStep (st : Drv) (toks : List String) : Drv × String :=
  match toks with
  | ["reset", "file", q] => ({ st with cur := .file { quota := parseQuota q } }, "ok")
  | ["reset", "mapping"] => ({ st with cur := .mapping {} }, "ok")
  | ["reset", "demo-file", q, base] =>
    ({ st with cur := .demoFile { changes := ({ quota := parseQuota q } : State), base := parseBase base } }, "ok")
  | ["reset", "demo-mapping", base] =>
    ({ st with cur := .demoMapping { changes := ({} : Mapping.State), base := parseBase base } }, "ok")
  | ["save"] => ({ st with saved := st.cur }, "ok")
  | ["restore"] => ({ st with cur := st.saved }, "ok")
  | ["obs"] => (st, obsDS st.cur)
  | ["abortfault", t] =>
    match t.toNat?, st.cur with
    | some t, .file s =>
      let r := doAbortFault s t
      ({ st with cur := .file r.1 }, outStr r.2.2 ++ " " ++ dataClass s.pos r.2.1)
    | _, _ => (st, "bad-op")
  | ["finishcb", t] =>
    match t.toNat? with
    | none => (st, "bad-op")
    | some t =>
      match st.cur with
      | .file s => let r := doFinishCb s t; ({ st with cur := .file r.1 }, outStr r.2.2 ++ " " ++ dataClass s.pos r.2.1)
      | .mapping m => let r := Mapping.doFinishCb m t; ({ st with cur := .mapping r.1 }, outStr r.2)
      | .demoFile d =>
        let c := doFinishCb d.changes t
        let r := Demo.doFinishCb d t (c.1, c.2.2)
        ({ st with cur := .demoFile r.1 }, outStr r.2)
      | .demoMapping d =>
        let r := Demo.doFinishCb d t (Mapping.doFinishCb d.changes t)
        ({ st with cur := .demoMapping r.1 }, outStr r.2)
  | _ =>
    match parseOp toks with
    | some op => let r := stepDS st.cur op; ({ st with cur := r.1 }, r.2)
    | none => (st, "bad-op")

def main : IO Unit := driverLoop drvStep { cur := .file {}, saved := .file {} }
