/-
  Line-protocol driver for `ZodbModel/StoreRules.lean` + `ZodbModel/Resolve.lean` (C03, C10).

  ops (numbers decimal; records `<cls>/<args>/<state>`; states in the prefix grammar below):
    reset <kind>                      kind ∈ file | mapping | demo:<changes>:<base>      → ok
    newstorage <kind>                 → ok     (fresh storage, process-wide caches kept)
    class <cid> <imp> <res> <beh>     beh ∈ v<seed> | e | c | k                           → ok
    base <tid> <oid> <rec>            commit one record directly into the DemoStorage base → ok
    begin <t> <tid>                   → ok | blocked | err:StorageTransaction
    store <t> <oid> <serial> <rec>    → ok | resolved [calls] | err:Conflict [calls] | err:StorageTransaction
    check <t> <oid> <serial>          → ok | err:ReadConflict | err:KeyError | err:StorageTransaction
    restore <t> <oid> <rec>           → ok | err:StorageTransaction       (unchecked store, FileStorage)
    delete <t> <oid> <serial>         → ok | err:Conflict | err:KeyError | err:Unsupported | err:StorageTransaction
    vote <t>                          → voted [oid,…] | err:StorageTransaction
    finish <t>                        → ok <tid> | err:StorageTransaction
    abort <t>                         → ok
    cur <oid>                         → <tid> | none            (getTid of the whole storage)
    load <oid>                        → <rec> | none            (current committed record)
    loadserial <oid> <tid>            → <rec> | none
    hist <oid>                        → [tid,…]                  newest first (own history + base)
    revs <oid>                        → [tid:base:resolved,…]
    undotxn <tid> <oid> <undone>      → ok <rec> [calls] | err:Undo [calls]   (undo transaction of one
                                      object decided by `undoRecord` from the model's own history)
    lock                              → <t> | free
    reopen                            → ok          (clean close + reopen; no transaction in progress)
    bystander                         → ok          (tpc_begin … on another storage instance: independent)
    undo <tid> <oid> <ctid> <undone> <pre> <cur>  → ok <rec> [calls] | err:Undo [calls]
                                      (a whole undo transaction of one object through undoResolve)
  state grammar:  a<n>.  |  p<state><state>  |  r<fmt><fields>.
    fmt/fields: c<oid>,<K>  o<oid>  m<db>,<oid>,<K>  n<db>,<oid>  w<oid>  x<oid>,<db>  l<oid>
    K (pickled class slot): g<cid> (global) | t<cid> (module,name tuple)
  loaded states (resolver arguments) print references as
    R<fmt><fields with K ∈ c<cid> (class) | t<cid> (tuple)>;<oid>;<db or ->;<weak 0/1>.
-/
import ZodbModel.DriverLib
import ZodbModel.StoreRules
open ZodbModel ZodbModel.Resolve ZodbModel.StoreRules

inductive Beh where
  | value (seed : Nat) | exc | conflict | counter
  | moody (seed : Nat)       -- raises (AttributeError) when the wanted state is the atom 13, else merges

structure ClassDef where
  cid : Nat
  info : ClassInfo
  beh : Beh

structure DState where
  sys : Sys
  classes : List ClassDef

def lookupClass (cs : List ClassDef) (c : Nat) : Option ClassDef := cs.find? (fun d => d.cid == c)

def envOf (cs : List ClassDef) : Env :=
  { ci := fun c => match lookupClass cs c with
                   | some d => d.info
                   | none => { importable := false, hasResolver := false },
    resolver := fun c o cm n =>
      match lookupClass cs c with
      | none => .error (.other 0)
      | some d =>
        match d.beh with
        | .value seed => .ok (.pair (.atom seed) (.pair o (.pair cm n)))
        | .moody seed =>
          (match n with
           | .atom 13 => .error (.other 3)
           | _ => .ok (.pair (.atom seed) (.pair o (.pair cm n))))
        | .exc => .error (.other 1)
        | .conflict => .error .conflict
        | .counter =>
          match o, cm, n with
          | .atom a, .atom b, .atom c' => .ok (.atom (b + c' - a))
          | _, _, _ => .error (.other 2) }

/-! printing -/

def pkStr : PKlass → String
  | .global c => "g" ++ toString c
  | .named c => "t" ++ toString c

def nkStr : NKlass → String
  | .cls c => "c" ++ toString c
  | .named c => "t" ++ toString c

def refFields {κ : Type} (ks : κ → String) : Ref κ → String
  | .oidClass o k => "c" ++ toString o ++ "," ++ ks k
  | .oidOnly o => "o" ++ toString o
  | .multi db o k => "m" ++ toString db ++ "," ++ toString o ++ "," ++ ks k
  | .multiOid db o => "n" ++ toString db ++ "," ++ toString o
  | .weak o => "w" ++ toString o
  | .weakDb o db => "x" ++ toString o ++ "," ++ toString db
  | .weakOld o => "l" ++ toString o

def prefStr (r : PRef) : String := "r" ++ refFields pkStr r ++ "."

def lrefStr (p : PersistentReference) : String :=
  "R" ++ refFields nkStr p.data ++ ";" ++ toString p.oid ++ ";" ++
    (match p.database_name with | some d => toString d | none => "-") ++ ";" ++
    (if p.weak then "1" else "0") ++ "."

def treeStr {ρ : Type} (f : ρ → String) : Tree ρ → String
  | .atom n => "a" ++ toString n ++ "."
  | .ref r => f r
  | .pair a b => "p" ++ treeStr f a ++ treeStr f b

def recStr (r : Record) : String :=
  toString r.hdr.cls ++ "/" ++ toString r.hdr.args ++ "/" ++ treeStr prefStr r.state

def callStr (c : Call) : String :=
  "call=" ++ toString c.cls ++ "|" ++ treeStr lrefStr c.old ++ "|" ++ treeStr lrefStr c.committed ++
    "|" ++ treeStr lrefStr c.new

def callsStr (cs : List Call) : String :=
  if cs.isEmpty then "" else " " ++ joinWith " " (cs.map callStr)

/-! parsing -/

def parseNat (cs : List Char) : Option (Nat × List Char) :=
  let ds := cs.takeWhile Char.isDigit
  if ds.isEmpty then none
  else some (ds.foldl (fun acc c => acc * 10 + (c.toNat - 48)) 0, cs.dropWhile Char.isDigit)

def expect (c : Char) : List Char → Option (List Char)
  | c' :: rest => if c = c' then some rest else none
  | [] => none

def parsePK (cs : List Char) : Option (PKlass × List Char) :=
  match cs with
  | 'g' :: rest => (parseNat rest).map fun (n, r) => (.global n, r)
  | 't' :: rest => (parseNat rest).map fun (n, r) => (.named n, r)
  | _ => none

def parseRef (cs : List Char) : Option (PRef × List Char) :=
  match cs with
  | 'c' :: rest => do
    let (o, r) ← parseNat rest
    let r ← expect ',' r
    let (k, r) ← parsePK r
    let r ← expect '.' r
    pure (.oidClass o k, r)
  | 'o' :: rest => do
    let (o, r) ← parseNat rest
    let r ← expect '.' r
    pure (.oidOnly o, r)
  | 'm' :: rest => do
    let (db, r) ← parseNat rest
    let r ← expect ',' r
    let (o, r) ← parseNat r
    let r ← expect ',' r
    let (k, r) ← parsePK r
    let r ← expect '.' r
    pure (.multi db o k, r)
  | 'n' :: rest => do
    let (db, r) ← parseNat rest
    let r ← expect ',' r
    let (o, r) ← parseNat r
    let r ← expect '.' r
    pure (.multiOid db o, r)
  | 'w' :: rest => do
    let (o, r) ← parseNat rest
    let r ← expect '.' r
    pure (.weak o, r)
  | 'x' :: rest => do
    let (o, r) ← parseNat rest
    let r ← expect ',' r
    let (db, r) ← parseNat r
    let r ← expect '.' r
    pure (.weakDb o db, r)
  | 'l' :: rest => do
    let (o, r) ← parseNat rest
    let r ← expect '.' r
    pure (.weakOld o, r)
  | _ => none

partial def parseTree (cs : List Char) : Option (PState × List Char) :=
  match cs with
  | 'a' :: rest => do
    let (n, r) ← parseNat rest
    let r ← expect '.' r
    pure (.atom n, r)
  | 'p' :: rest => do
    let (a, r) ← parseTree rest
    let (b, r) ← parseTree r
    pure (.pair a b, r)
  | 'r' :: rest => do
    let (x, r) ← parseRef rest
    pure (.ref x, r)
  | _ => none

def parseRec (s : String) : Option Record :=
  match s.splitOn "/" with
  | [c, a, st] =>
    match c.toNat?, a.toNat?, parseTree st.toList with
    | some c, some a, some (t, []) => some { hdr := { cls := c, args := a }, state := t }
    | _, _, _ => none
  | _ => none

def parseSimple : String → Option Simple
  | "file" => some .file
  | "mapping" => some .mapping
  | _ => none

def parseKind (s : String) : Option Kind :=
  match s.splitOn ":" with
  | [k] => (parseSimple k).map .simple
  | ["demo", c, b] =>
    match parseSimple c, parseSimple b with
    | some c, some b => some (.demo c b)
    | _, _ => none
  | _ => none

def parseBeh (s : String) : Option Beh :=
  match s.toList with
  | ['e'] => some .exc
  | ['c'] => some .conflict
  | ['k'] => some .counter
  | 'v' :: rest => (parseNat rest).map fun (n, _) => .value n
  | 'm' :: rest => (parseNat rest).map fun (n, _) => .moody n
  | _ => none

def outStr (o : Out) (calls : List Call) : String :=
  match o with
  | .ok => "ok"
  | .blocked => "blocked"
  | .resolvedStore => "resolved" ++ callsStr calls
  | .conflict => "err:Conflict" ++ callsStr calls
  | .readConflict => "err:ReadConflict"
  | .keyError => "err:KeyError"
  | .txnError => "err:StorageTransaction"
  | .unsupported => "err:Unsupported"
  | .voted l => "voted [" ++ joinWith "," (l.reverse.map toString) ++ "]"
  | .finished tid => "ok " ++ toString tid

def histLine (h : Hist) (o : Nat) : List String :=
  h.flatMap fun t =>
    (t.recs.filter (fun r => r.oid == o)).map fun r =>
      toString t.tid ++ ":" ++ toString r.base ++ ":" ++ (if r.resolved then "1" else "0")

def doStep (d : DState) (op : Op) : DState × String :=
  let r := step (envOf d.classes) d.sys op
  ({ d with sys := r.sys }, outStr r.out r.calls)

def srStep (d : DState) (toks : List String) : DState × String :=
  match toks with
  | ["reset", k] =>
    match parseKind k with
    | some k => ({ sys := init k [], classes := [] }, "ok")
    | none => (d, "bad-op")
  | ["newstorage", k] =>
    -- another storage in the SAME process: committed state starts empty, the process-wide caches
    -- (`_unresolvable`) and the class table stay
    match parseKind k with
    | some k => ({ d with sys := { init k [] with cache := d.sys.cache } }, "ok")
    | none => (d, "bad-op")
  | ["class", c, imp, res, beh] =>
    match c.toNat?, parseBeh beh with
    | some c, some b =>
      ({ d with classes := { cid := c, info := { importable := imp == "1", hasResolver := res == "1" },
                             beh := b } :: d.classes }, "ok")
    | _, _ => (d, "bad-op")
  | ["base", tid, oid, rec] =>
    match tid.toNat?, oid.toNat?, parseRec rec with
    | some tid, some oid, some rec =>
      let t : Txn := { tid := tid, recs := [{ oid := oid, base := 0, data := rec, wanted := rec,
                                               resolved := false }], checked := [] }
      ({ d with sys := { d.sys with base := t :: d.sys.base } }, "ok")
    | _, _, _ => (d, "bad-op")
  | ["begin", t, tid] =>
    match t.toNat?, tid.toNat? with
    | some t, some tid => doStep d (.begin t tid)
    | _, _ => (d, "bad-op")
  | ["store", t, oid, serial, rec] =>
    match t.toNat?, oid.toNat?, serial.toNat?, parseRec rec with
    | some t, some oid, some serial, some rec => doStep d (.store t oid serial rec)
    | _, _, _, _ => (d, "bad-op")
  | ["check", t, oid, serial] =>
    match t.toNat?, oid.toNat?, serial.toNat? with
    | some t, some oid, some serial => doStep d (.check t oid serial)
    | _, _, _ => (d, "bad-op")
  | ["delete", t, oid, serial] =>
    match t.toNat?, oid.toNat?, serial.toNat? with
    | some t, some oid, some serial => doStep d (.delete t oid serial)
    | _, _, _ => (d, "bad-op")
  | ["restore", t, oid, rec] =>
    -- `restore(oid, tid of this transaction, data, '', None, txn)`: like store but WITHOUT any
    -- consistency check (copyTransactionsFrom, recovery tools); a competing writer for later stores
    match t.toNat?, oid.toNat?, parseRec rec with
    | some t, some oid, some rec =>
      if d.sys.lock = some t then
        let ct := (currentTid d.sys.view oid).getD 0
        ({ d with sys := { d.sys with staged := { oid := oid, base := ct, data := rec, wanted := rec,
                                                  resolved := false } :: d.sys.staged } }, "ok")
      else (d, "err:StorageTransaction")
    | _, _, _ => (d, "bad-op")
  | ["vote", t] =>
    match t.toNat? with
    | some t => doStep d (.vote t)
    | none => (d, "bad-op")
  | ["finish", t] =>
    match t.toNat? with
    | some t => doStep d (.finish t)
    | none => (d, "bad-op")
  | ["abort", t] =>
    match t.toNat? with
    | some t => doStep d (.abort t)
    | none => (d, "bad-op")
  | ["cur", oid] =>
    match oid.toNat? with
    | some oid =>
      (d, if checkDeleted d.sys oid then "none" else
          match curK d.sys.kind d.sys.hist d.sys.base oid with
          | some t => toString t
          | none => "none")
    | none => (d, "bad-op")
  | ["load", oid] =>
    match oid.toNat? with
    | some oid =>
      (d, match curK d.sys.kind d.sys.hist d.sys.base oid with
          | some t =>
            (match loadSerialK d.sys.kind d.sys.hist d.sys.base oid t with
             | some r => recStr r
             | none => "none")
          | none => "none")
    | none => (d, "bad-op")
  | ["loadserial", oid, tid] =>
    match oid.toNat?, tid.toNat? with
    | some oid, some tid =>
      (d, match loadSerialK d.sys.kind d.sys.hist d.sys.base oid tid with
          | some r => recStr r
          | none => "none")
    | _, _ => (d, "bad-op")
  | ["hist", oid] =>      -- `history(oid)`: tids of the transactions that wrote the object, newest first
    match oid.toNat? with
    | some oid =>
      (d, "[" ++ joinWith "," (((d.sys.hist ++ d.sys.base).filter (fun t => t.has oid)).map
                (fun t => toString t.tid)) ++ "]")
    | none => (d, "bad-op")
  | ["revs", oid] =>      -- every revision with the serial its writer passed and the resolved flag
    match oid.toNat? with
    | some oid => (d, "[" ++ joinWith "," (histLine (d.sys.hist ++ d.sys.base) oid) ++ "]")
    | none => (d, "bad-op")
  | ["bystander"] =>  -- a two-phase commit on ANOTHER storage instance of the same process: no effect here
    (d, "ok")
  | ["reopen"] =>     -- close (saves the index) and reopen the storage: the committed history is unchanged
    (d, if d.sys.lock.isSome then "blocked" else "ok")
  | ["lock"] => (d, match d.sys.lock with | some t => toString t | none => "free")
  | ["undo", tid, oid, ctid, undone, pre, cur] =>
    -- one whole undo transaction for a single object whose undo needs resolution:
    -- tpc_begin(tid); undo → _transactionalUndoRecord → undoResolve; tpc_vote; tpc_finish | tpc_abort
    match tid.toNat?, oid.toNat?, ctid.toNat?, undone.toNat?, parseRec pre, parseRec cur with
    | some tid, some oid, some ctid, some undone, some pre, some cur =>
      if d.sys.lock.isSome then (d, "blocked")
      else
        let r := undoResolve (envOf d.classes) (loadSerialK d.sys.kind d.sys.hist d.sys.base)
                   d.sys.cache oid ctid undone pre cur
        match r.out with
        | .ok rec =>
          let t : Txn := { tid := tid, recs := [{ oid := oid, base := ctid, data := rec, wanted := pre,
                                                   resolved := true }], checked := [] }
          ({ d with sys := { d.sys with cache := r.cache, hist := t :: d.sys.hist } },
           "ok " ++ recStr rec ++ callsStr r.call.toList)
        | .error _ =>
          ({ d with sys := { d.sys with cache := r.cache } }, "err:Undo" ++ callsStr r.call.toList)
    | _, _, _, _, _, _ => (d, "bad-op")
  | ["undotxn", tid, oid, undone] =>
    -- one whole undo transaction for a single object, decided from the model's own history
    -- (`undoRecord` = `_transactionalUndoRecord`)
    match tid.toNat?, oid.toNat?, undone.toNat? with
    | some tid, some oid, some undone =>
      if d.sys.lock.isSome then (d, "blocked")
      -- the real undo undoes EVERY object of the transaction; this single-object op is only defined
      -- for a transaction that holds exactly ONE record, of this object (both sides skip it
      -- otherwise; several records of one object are undone one by one)
      else if ((d.sys.hist ++ d.sys.base).filter (fun t => t.tid == undone)).any
                (fun t => t.recs.length != 1 || t.recs.any (fun r => r.oid != oid)) then (d, "skipped")
      else
        let r := undoRecord (envOf d.classes) d.sys.kind d.sys.hist d.sys.base d.sys.cache oid undone
        let ct := (curK d.sys.kind d.sys.hist d.sys.base oid).getD 0
        let commit (rec : Record) (res : Bool) : DState :=
          let t : Txn := { tid := tid, recs := [{ oid := oid, base := ct, data := rec, wanted := rec,
                                                   resolved := res }], checked := [] }
          { d with sys := { d.sys with cache := r.cache, hist := t :: d.sys.hist } }
        match r.out with
        | .copy rec => (commit rec false, "ok " ++ recStr rec)
        | .merged rec => (commit rec true, "ok " ++ recStr rec ++ callsStr r.call.toList)
        | .uncreate =>
          let t : Txn := { tid := tid, recs := [{ oid := oid, base := ct, data := tomb, wanted := tomb,
                                                   resolved := false, deleted := true }], checked := [] }
          ({ d with sys := { d.sys with cache := r.cache, hist := t :: d.sys.hist } }, "ok none")
        | .undoError =>
          ({ d with sys := { d.sys with cache := r.cache } }, "err:Undo" ++ callsStr r.call.toList)
    | _, _, _ => (d, "bad-op")
  | "undomulti" :: tid :: oid :: undones =>
    -- several `undo` calls in ONE transaction on the same object (DB.undoMultiple): every later call
    -- sees what the earlier one staged as the current revision (tid = the transaction's own tid)
    match tid.toNat?, oid.toNat?, undones.mapM String.toNat? with
    | some tid, some oid, some us =>
      if d.sys.lock.isSome then (d, "blocked")
      else
        let ct0 := (curK d.sys.kind d.sys.hist d.sys.base oid).getD 0
        let rec go (us : List Nat) (hist : Hist) (cache : List Nat) (calls : List Call)
            (last : Option (Record × Bool)) : Option (Record × Bool) × List Nat × List Call × Bool :=
          match us with
          | [] => (last, cache, calls, true)
          | u :: rest =>
            let r := undoRecord (envOf d.classes) d.sys.kind hist d.sys.base cache oid u
            let stage (rec : Record) (res : Bool) :=
              let t : Txn := { tid := tid, recs := [{ oid := oid, base := ct0, data := rec, wanted := rec,
                                                       resolved := res }], checked := [] }
              -- the staged record replaces an earlier staged one of the same transaction
              let hist' := match hist with
                           | t0 :: older => if t0.tid = tid then t :: older else t :: hist
                           | [] => [t]
              go rest hist' r.cache (calls ++ r.call.toList) (some (rec, res))
            match r.out with
            | .copy rec => stage rec false
            | .merged rec => stage rec true
            | .uncreate => (none, r.cache, calls ++ r.call.toList, false)
            | .undoError => (none, r.cache, calls ++ r.call.toList, false)
        let (last, cache, calls, ok) := go us d.sys.hist d.sys.cache [] none
        match ok, last with
        | true, some (rec, res) =>
          let t : Txn := { tid := tid, recs := [{ oid := oid, base := ct0, data := rec, wanted := rec,
                                                   resolved := res }], checked := [] }
          ({ d with sys := { d.sys with cache := cache, hist := t :: d.sys.hist } },
           "ok " ++ recStr rec ++ callsStr calls)
        | _, _ => ({ d with sys := { d.sys with cache := cache } }, "err:Undo" ++ callsStr calls)
    | _, _, _ => (d, "bad-op")
  | _ => (d, "bad-op")

def main : IO Unit := driverLoop srStep ({ sys := init (.simple .file) [], classes := [] } : DState)
