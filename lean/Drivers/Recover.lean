import ZodbModel.DriverLib
import ZodbModel.Recover
open ZodbModel ZodbModel.Copy ZodbModel.Recover

/-! Line protocol of the byte-level model of `fsrecover`.

    file <hex>            → ok <len>                  set the base image
    full                  → recover the base image
    trunc <n>             → recover the first n bytes of the base image
    patch <off> <hex>     → recover the base image with the bytes at `off` overwritten
    recover <hex>         → recover that image
  each recover prints  `done <dump of the output storage's iterator> img=<len>:<fnv64>` | `notfs` | `fuel`
-/

def hexOrDash (b : Bytes) : String := if b.isEmpty then "-" else hexOfBytes b

def dumpIRec (r : IRec) : String :=
  hexN 8 r.oid ++ "," ++ hexN 8 r.tid ++ "," ++
    (match r.data with | some d => hexOrDash d | none => "none") ++ "," ++
    (match r.dataTxn with | some h => hexN 8 h | none => "none")

def dumpITxn (t : ITxn) : String :=
  hexN 8 t.tid ++ ":" ++ toString t.status ++ ":" ++ hexOrDash t.user ++ ":" ++ hexOrDash t.desc ++
    ":" ++ hexOrDash t.ext ++ ":[" ++ joinWith ";" (t.recs.map dumpIRec) ++ "]"

def dumpITxns (l : List ITxn) : String := joinWith "|" (l.map dumpITxn)

def fnv64 (b : Bytes) : UInt64 :=
  b.foldl (fun h x => (h ^^^ UInt64.ofNat x) * 0x100000001b3) 0xcbf29ce484222325

def imgStr (D : Store) : String :=
  let e := encStore D
  "img=" ++ toString e.length ++ ":" ++ hexN 8 (fnv64 e).toNat

def runRecover (b : Bytes) : String :=
  match recover b with
  | .notFS => "notfs"
  | .fuel => "fuel"
  | .done D =>
    match iterate D with
    | some l => "done " ++ dumpITxns l ++ " " ++ imgStr D
    | none => "done dangling"

def patchBytes (b : Bytes) (off : Nat) (p : Bytes) : Bytes :=
  b.take off ++ p ++ b.drop (off + p.length)

def recStep (base : Bytes) (toks : List String) : Bytes × String :=
  match toks with
  | ["file", h] =>
    match bytesOfHex h with
    | some b => (b, "ok " ++ toString b.length)
    | none => (base, "bad-op")
  | ["full"] => (base, runRecover base)
  | ["trunc", n] =>
    match n.toNat? with
    | some n => (base, runRecover (base.take n))
    | none => (base, "bad-op")
  | ["patch", off, h] =>
    match off.toNat?, bytesOfHex h with
    | some off, some p => (base, runRecover (patchBytes base off p))
    | _, _ => (base, "bad-op")
  | ["recover", h] =>
    match bytesOfHex h with
    | some b => (base, runRecover b)
    | none => (base, "bad-op")
  | _ => (base, "bad-op")

def main : IO Unit := driverLoop recStep ([] : Bytes)
