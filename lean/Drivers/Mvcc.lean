/-
  Line-protocol driver for the MVCC model (C02 / C15): replays an action trace and prints what the
  model observes (start bounds, drained invalidations, read serial/values, refusals).
    reset                      → ok
    new                        → inst=<k>
    open i | close i           → ok | blocked
    pollread i                 → polled=<L> | blocked
    pollapply i                → start=<t> inval=[o,…]|all | blocked
    read i oid                 → own val=<v> | hit serial=<t> val=<v> | load serial=<t> val=<v> |
                                 err:KeyError | blocked
    write i oid v|-            → ok | blocked
    abort i                    → ok | blocked
    begin i|x t                → ok | blocked        (x = undo adapter / external committer)
    store [oid:v,…]            → ok oids=[…] | blocked
    vote | enter | publish | extabort → ok | blocked
    deliver j                  → ok | blocked
    invalall i                 → ok
    hopen at|before t          → hist=<k> before=<b> | err:ValueError | blocked
    hopen2 a b                 → err:ValueError
    hread h oid                → hit|load serial=<t> val=<v> | err:KeyError | blocked
    hcommit h | hstore h | hnewoid h → err:ReadOnlyHistory | err:ReadOnly
    hpoll h                    → ok
    state i                    → start=… ltid=… live=… polled=…
-/
import ZodbModel.DriverLib
import ZodbModel.Mvcc
open ZodbModel ZodbModel.Mvcc

def errStr : Err → String
  | .valueError => "err:ValueError"
  | .readOnlyHistory => "err:ReadOnlyHistory"
  | .readOnly => "err:ReadOnly"
  | .keyError => "err:KeyError"

def dataStr : Data → String
  | some v => toString v
  | none => "-"

def parseData (s : String) : Option Data :=
  if s = "-" then some none else s.toNat?.map some

def insertSorted (x : Nat) : List Nat → List Nat
  | [] => [x]
  | y :: r => if x < y then x :: y :: r else if x = y then y :: r else y :: insertSorted x r

def sortDedup (l : List Nat) : List Nat := l.foldl (fun acc x => insertSorted x acc) []

def natList (l : List Nat) : String := "[" ++ joinWith "," (l.map toString) ++ "]"

def parseWrites (s : String) : Option (List (Nat × Data)) :=
  let body := String.ofList ((s.toList.drop 1).dropLast)
  if body.isEmpty then some [] else
  (body.splitOn ",").mapM fun kv =>
    match kv.splitOn ":" with
    | [k, v] => do
      let k ← k.toNat?
      let v ← parseData v
      pure (k, v)
    | _ => none

def simple (s : Sys) (a : Act) (okStr : String := "ok") : Sys × String :=
  match step s a with
  | .ok s' => (s', okStr)
  | .blocked => (s, "blocked")
  | .err e => (s, errStr e)

def mvStep (s : Sys) (toks : List String) : Sys × String :=
  match toks with
  | ["reset"] => (init, "ok")
  | ["new"] => simple s .newInstance ("inst=" ++ toString s.n)
  | ["open", i] => match i.toNat? with
    | some i => simple s (.reopen i)
    | none => (s, "bad-op")
  | ["close", i] => match i.toNat? with
    | some i => simple s (.close i)
    | none => (s, "bad-op")
  | ["pollread", i] => match i.toNat? with
    | some i => simple s (.pollRead i) ("polled=" ++ toString (headTid s.log))
    | none => (s, "bad-op")
  | ["pollapply", i] => match i.toNat? with
    | some i =>
      match step s (.pollApply i) with
      | .ok s' =>
        let inv := match (s.insts i).inval with
          | none => "all"
          | some l => natList (sortDedup l)
        (s', "start=" ++ toString (s'.insts i).start ++ " inval=" ++ inv)
      | .blocked => (s, "blocked")
      | .err e => (s, errStr e)
    | none => (s, "bad-op")
  | ["read", i, oid] => match i.toNat?, oid.toNat? with
    | some i, some oid =>
      match step s (.read i oid) with
      | .ok s' =>
        match lookup oid (s.insts i).pending with
        | some d => (s', "own val=" ++ dataStr d)
        | none =>
          let kind := if ((s.insts i).cache oid).isSome then "hit" else "load"
          match readCommitted s i oid with
          | some (ser, d) => (s', kind ++ " serial=" ++ toString ser ++ " val=" ++ dataStr d)
          | none => (s', "err:KeyError")
      | .blocked => (s, "blocked")
      | .err e => (s, errStr e)
    | _, _ => (s, "bad-op")
  | ["write", i, oid, v] => match i.toNat?, oid.toNat?, parseData v with
    | some i, some oid, some d => simple s (.write i oid d)
    | _, _, _ => (s, "bad-op")
  | ["abort", i] => match i.toNat? with
    | some i => simple s (.abort i)
    | none => (s, "bad-op")
  | ["begin", c, t] =>
    match t.toNat? with
    | some t =>
      if c = "x" then simple s (.begin none t)
      else match c.toNat? with
        | some i => simple s (.begin (some i) t)
        | none => (s, "bad-op")
    | none => (s, "bad-op")
  | ["store", ws] => match parseWrites ws with
    | some ws =>
      match step s (.store ws) with
      | .ok s' =>
        let oids := match s'.infl with
          | some f => sortDedup (oidsOf f.writes)
          | none => []
        (s', "ok oids=" ++ natList oids)
      | .blocked => (s, "blocked")
      | .err e => (s, errStr e)
    | none => (s, "bad-op")
  | ["vote"] => simple s .vote
  | ["extabort"] => simple s .extAbort
  | ["enter"] => simple s .finishEnter
  | ["deliver", j] => match j.toNat? with
    | some j => simple s (.deliver j)
    | none => (s, "bad-op")
  | ["publish"] => simple s .publish
  | ["invalall", i] => match i.toNat? with
    | some i => simple s (.invalidateCache i)
    | none => (s, "bad-op")
  | ["hopen", kind, t] => match t.toNat? with
    | some t =>
      let (a, b) := if kind = "at" then (some t, none) else (none, some t)
      match step s (.openHist a b) with
      | .ok s' => (s', "hist=" ++ toString s.nh ++ " before=" ++ toString (s'.hists s.nh).before)
      | .blocked => (s, "blocked")
      | .err e => (s, errStr e)
    | none => (s, "bad-op")
  | ["hopen2", a, b] => match a.toNat?, b.toNat? with
    | some a, some b => simple s (.openHist (some a) (some b))
    | _, _ => (s, "bad-op")
  | ["hread", h, oid] => match h.toNat?, oid.toNat? with
    | some h, some oid =>
      match step s (.hread h oid) with
      | .ok s' =>
        let kind := if ((s.hists h).cache oid).isSome then "hit" else "load"
        match hreadCommitted s h oid with
        | some (ser, d) => (s', kind ++ " serial=" ++ toString ser ++ " val=" ++ dataStr d)
        | none => (s', "err:KeyError")
      | .blocked => (s, "blocked")
      | .err e => (s, errStr e)
    | _, _ => (s, "bad-op")
  | ["hpoll", h] => match h.toNat? with
    | some h => simple s (.hpoll h)
    | none => (s, "bad-op")
  | ["hcommit", h] => match h.toNat? with
    | some h => simple s (.hcommit h)
    | none => (s, "bad-op")
  | ["hstore", h] => match h.toNat? with
    | some h => simple s (.hstore h)
    | none => (s, "bad-op")
  | ["hnewoid", h] => match h.toNat? with
    | some h => simple s (.hnewOid h)
    | none => (s, "bad-op")
  | ["state", i] => match i.toNat? with
    | some i =>
      let x := s.insts i
      (s, "start=" ++ toString x.start ++ " ltid=" ++ toString x.ltid ++ " live=" ++ toString x.live ++
          " polled=" ++ (match x.polled with | some l => toString l | none => "-") ++
          " head=" ++ toString (headTid s.log))
    | none => (s, "bad-op")
  | _ => (s, "bad-op")

def main : IO Unit := driverLoop mvStep init
