/-
  Line protocol for the byte level of Connection.TmpStore (ZodbModel/TmpBytes.lean).
    new                                   fresh store                     -> ok
    store <oidhex> <serialhex|-> <datahex|->    TmpStore.store            -> <serialhex> <position>
    load <oidhex>                         TmpStore.load                   -> fallback | bad | short | found <datahex|-> <serialhex>
    save                                  Connection.savepoint's state    -> ok <number>
    rollback <k>                          TmpStore.reset(*state_k)        -> ok <position> | invalid
    file                                  the whole temporary file        -> <hex|->
-/
import ZodbModel.DriverLib
import ZodbModel.TmpBytes
open ZodbModel ZodbModel.TmpBytes

def hexOrDash (b : Bytes) : String := if b.isEmpty then "-" else hexOfBytes b
def bytesArg (s : String) : Option Bytes := if s = "-" then some [] else bytesOfHex s

def tmpStep (s : St) (toks : List String) : St × String :=
  match toks with
  | ["new"] => ({}, "ok")
  | ["store", o, sr, d] =>
    match bytesOfHex o, (if sr = "-" then some none else (bytesOfHex sr).map some), bytesArg d with
    | some o, some sr, some d =>
      let s' := step s (.store o sr d)
      (s', hexOfBytes (store s.t o sr d).2 ++ " " ++ toString s'.t.position)
    | _, _, _ => (s, "bad-op")
  | ["load", o] =>
    match bytesOfHex o with
    | some o =>
      (s, match load s.t o with
          | .fallback => "fallback"
          | .bad => "bad"
          | .short => "short"
          | .found d sr => "found " ++ hexOrDash d ++ " " ++ hexOfBytes sr)
    | none => (s, "bad-op")
  | ["save"] => (step s .save, "ok " ++ toString s.sps.length)
  | ["rollback", k] =>
    match k.toNat? with
    | some k =>
      if k < s.sps.length then
        let s' := step s (.rollback k)
        (s', "ok " ++ toString s'.t.position)
      else (s, "invalid")
    | none => (s, "bad-op")
  | ["file"] => (s, hexOrDash s.t.file)
  | _ => (s, "bad-op")

def main : IO Unit := driverLoop tmpStep {}
