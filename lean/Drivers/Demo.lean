import ZodbModel.DriverLib
import ZodbModel.Demo
open ZodbModel ZodbModel.Demo

def errStr : Err → String
  | .keyError => "err:KeyError"
  | .conflict => "err:Conflict"
  | .undoError => "err:Undo"
  | .txnError => "err:Txn"
  | .readConflict => "err:ReadConflict"
  | .blocked => "err:Blocked"
  | .unsupported => "err:Unsupported"

def outStr : Out → String
  | .ok => "ok"
  | .err e => errStr e
  | .oid (some o) used => s!"oid={o} used={used}"
  | .oid none used => s!"oid=- used={used}"

def tidArg (s : String) : Option Nat := if s = "max" then some maxtid else s.toNat?

def tidStr (t : Nat) : String := if t = maxtid then "max" else toString t

def optTidStr : Option Nat → String
  | none => "-"
  | some t => tidStr t

def lbStr : Except Err (Option LB) → String
  | .error e => errStr e
  | .ok none => "none"
  | .ok (some (d, s, e)) => s!"d={d} s={tidStr s} e={optTidStr e}"

def insertRec (r : Oid × Option Data) : Recs → Recs
  | [] => [r]
  | x :: t => if r.1 ≤ x.1 then r :: x :: t else x :: insertRec r t

def sortRecs (l : Recs) : Recs := l.foldr insertRec []

def recStr (r : Oid × Option Data) : String :=
  match r.2 with
  | some d => s!"{r.1}={d}"
  | none => s!"{r.1}=-"

def txnStr (t : Txn) : String :=
  tidStr t.tid ++ ":" ++ joinWith "," ((sortRecs t.recs).map recStr)

def natList (s : String) : Option (List Nat) :=
  if s = "-" then some [] else (s.splitOn ",").mapM (·.toNat?)

def doStep (s : Store) (op : Op) : Store × String :=
  let (s', o) := step s op
  (s', outStr o)

def demoStep (s : Store) (toks : List String) : Store × String :=
  match toks with
  | ["reset", k] => (.leaf (Layer.empty (k = "file" || k = "blob" || k = "hexfile" || k = "cfgfile" || k = "wcfgfile")), "ok")
  | ["begin", x, t] =>
    (match x.toNat?, tidArg t with
     | some x, some t => doStep s (.begin x (some t) 0)
     | _, _ => (s, "bad-op"))
  | ["begin", x, "-", now] =>          -- no explicit tid: the clock reads `now`
    (match x.toNat?, tidArg now with
     | some x, some now => doStep s (.begin x none now)
     | _, _ => (s, "bad-op"))
  | ["store", x, o, ser, d] =>
    (match x.toNat?, o.toNat?, tidArg ser, d.toNat? with
     | some x, some o, some ser, some d => doStep s (.store x o ser d)
     | _, _, _, _ => (s, "bad-op"))
  | ["delete", x, o, ser] =>
    (match x.toNat?, o.toNat?, tidArg ser with
     | some x, some o, some ser => doStep s (.delete x o ser)
     | _, _, _ => (s, "bad-op"))
  | ["vote", x] => (match x.toNat? with | some x => doStep s (.vote x) | none => (s, "bad-op"))
  | ["finish", x] =>
    (match x.toNat? with
     | some x =>
       let staged := match s with
         | .leaf l => l.staged
         | .demo _ c _ => c.staged
       let (s', o) := step s (.finish x)
       (s', match o, staged with
            | .ok, some (tid, _) => s!"ok tid={tidStr tid}"
            | _, _ => outStr o)
     | none => (s, "bad-op"))
  | ["abort", x] => (match x.toNat? with | some x => doStep s (.abort x) | none => (s, "bad-op"))
  | ["undo", x, u] =>
    (match x.toNat?, tidArg u with
     | some x, some u => doStep s (.undo x u)
     | _, _ => (s, "bad-op"))
  | ["cc", x, o, ser] =>
    (match x.toNat?, o.toNat?, tidArg ser with
     | some x, some o, some ser => doStep s (.checkCurrent x o ser)
     | _, _, _ => (s, "bad-op"))
  | ["pack", p] => (match tidArg p with | some p => doStep s (.pack p none) | none => (s, "bad-op"))
  | ["pack", p, "f"] => (match tidArg p with | some p => doStep s (.pack p (some false)) | none => (s, "bad-op"))
  | ["pack", p, "t"] => (match tidArg p with | some p => doStep s (.pack p (some true)) | none => (s, "bad-op"))
  | ["newoid", ds] => (match natList ds with | some ds => doStep s (.newOid ds) | none => (s, "bad-op"))
  | ["push", d] => (match d.toNat? with | some d => doStep s (.push d) | none => (s, "bad-op"))
  | ["pushwith", k, d] =>
    (match d.toNat? with | some d => doStep s (.pushWith (k = "file" || k = "blob" || k = "hexfile" || k = "cfgfile" || k = "wcfgfile") d) | none => (s, "bad-op"))
  | ["pop"] => doStep s .pop
  | ["lb", o, t] =>
    (match o.toNat?, tidArg t with
     | some o, some t => (s, lbStr (s.loadBefore o t))
     | _, _ => (s, "bad-op"))
  | ["load", o] =>
    (match o.toNat? with
     | some o => (s, match s.load o with
                     | .ok (d, ser) => s!"d={d} s={tidStr ser}"
                     | .error e => errStr e)
     | none => (s, "bad-op"))
  | ["ls", o, ser] =>
    (match o.toNat?, tidArg ser with
     | some o, some ser => (s, match s.loadSerial o ser with
                               | .ok d => s!"d={d}"
                               | .error e => errStr e)
     | _, _ => (s, "bad-op"))
  | ["gt", o] =>
    (match o.toNat? with
     | some o => (s, match s.getTid o with
                     | .ok t => tidStr t
                     | .error e => errStr e)
     | none => (s, "bad-op"))
  | ["hist", o, n] =>
    (match o.toNat?, n.toNat? with
     | some o, some n => (s, match s.history o n with
                             | .ok l => "[" ++ joinWith "," (l.map tidStr) ++ "]"
                             | .error e => errStr e)
     | _, _ => (s, "bad-op"))
  | ["last"] => (s, tidStr s.lastTransaction)
  | ["iter"] => (s, "[" ++ joinWith ";" (s.iterator.map txnStr) ++ "]")
  | ["iterr", a, z] =>
    (match tidArg a, tidArg z with
     | some a, some z => (s, "[" ++ joinWith ";" ((s.iteratorRange a z).map txnStr) ++ "]")
     | _, _ => (s, "bad-op"))
  | ["undolog"] =>       -- DemoStorage copies undoLog/undoInfo from the changes
    let top := match s with
      | .leaf l => l
      | .demo _ c _ => c
    (s, if top.canUndo then "[" ++ joinWith "," (top.undoLog.map tidStr) ++ "]" else "err:Unsupported")
  | ["api"] =>           -- len(), tpc_transaction(), supportsUndo
    let (top, intxn) := match s with
      | .leaf l => (l, l.staged.isSome)
      | .demo _ c ds => (c, ds.txn.isSome)
    (s, s!"len={top.oidCount} txn={if intxn then 1 else 0} undo={if top.canUndo then 1 else 0}")
  | ["depth"] =>
    let rec depth : Store → Nat
      | .leaf _ => 0
      | .demo b _ _ => depth b + 1
    (s, toString (depth s))
  | _ => (s, "bad-op")

def main : IO Unit := driverLoop demoStep (Store.leaf (Layer.empty false))
