import ZodbModel.DriverLib
import ZodbModel.Conn
open ZodbModel ZodbModel.Conn

/-! Line protocol of the connection model (C11, C12); see harness/c11_lib.py for the vocabulary. -/

def errStr : Err → String
  | .connClosed => "ConnState"
  | .connState => "ConnState"
  | .posKey => "POSKey"
  | .noState => "NoState"
  | .invalidSavepoint => "InvalidSavepoint"
  | .conflict => "Conflict"
  | .injected => "Injected"
  | .closed => "closed"
  | .alreadyOpen => "open"
  | .noKey => "nokey"
  | .assertion => "Other(AssertionError)"

def fmtVal (v : Nat) (refs : List ObjId) : String :=
  toString v ++ "[" ++ joinWith "," (refs.map toString) ++ "]"

def fmtObj (s : State) (i : Nat) : String :=
  let o := s.objs i
  let head := toString i ++ ":" ++ (if o.oid.isSome then "o" else "-") ++ (if o.jar then "j" else "-")
  match o.status with
  | .ghost => head ++ "G"
  | .uptodate => head ++ "U" ++ toString o.serial ++ "=" ++ fmtVal o.val o.refs
  | .changed => head ++ "C" ++ toString o.serial ++ "=" ++ fmtVal o.val o.refs

def vector (n : Nat) (s : State) : String :=
  joinWith " " ((List.range n).map (fmtObj s))

def tmpFlag (s : State) : String := if s.sp.isSome then " tmp=1" else " tmp=0"

def nameOf (n : Nat) (s : State) (k : Oid) : String :=
  match (List.range n).find? (fun i => (s.objs i).oid == some k) with
  | some i => toString i
  | none => "?"

def insertSorted (x : String) : List String → List String
  | [] => [x]
  | y :: t => if x < y then x :: y :: t else y :: insertSorted x t

def parseFail : List String → Option Fail
  | ["rm", "before", "begin"] => some .beforeBegin
  | ["rm", "after", "begin"] => some .afterBegin
  | ["rm", "before", "commit"] => some .afterBegin
  | ["rm", "after", "commit"] => some .afterCommit
  | ["rm", "before", "vote"] => some .afterCommit
  | ["rm", "after", "vote"] => some .afterVote
  | ["rm", "before", "finish"] => some .afterVote
  | ["store", j] => j.toNat?.map .store
  | ["vote"] => some .vote
  | ["pickle", i] => i.toNat?.map .pickle
  | _ => none

def parseOp : List String → Option Op
  | ["read", i] => i.toNat?.map .read
  | ["mod", i, v] => do pure (.modify (← i.toNat?) (← v.toNat?))
  | ["link", i, j] => do pure (.link (← i.toNat?) (← j.toNat?))
  | ["wlink", i, j] => do pure (.link (← i.toNat?) (← j.toNat?))   -- through a WeakRef: same bookkeeping
  | ["unlink", i, j] => do pure (.unlink (← i.toNat?) (← j.toNat?))
  | ["add", i] => i.toNat?.map .add
  | ["commit"] => some (.commit .none)
  | "commitf" :: rest => (parseFail rest).map .commit
  | ["abort"] => some .abort
  | ["sync"] => some .abort      -- Connection.sync() = transaction_manager.begin(): aborts, new transaction
  | ["sp"] => some .savepoint
  | ["spo"] => some .savepoint      -- transaction.savepoint(optimistic=True): the same for a ZODB connection
  | ["rb", n] => n.toNat?.map .rollback
  | ["close"] => some .close
  | ["open"] => some .open_
  | ["ext", i, v] => do pure (.ext (← i.toNat?) (← v.toNat?))
  | ["peek", i] => i.toNat?.map .peek
  | _ => none

/-- `Connection.cacheMinimize()`: every cached object that is not changed becomes a ghost -/
def minimizeAll (s : State) : State :=
  s.cache.keys.foldl (fun (s : State) (k : Oid) =>
    match s.cache.get k with
    | some i => if (s.objs i).status = .uptodate then setO s i { s.objs i with status := .ghost } else s
    | none => s) s

/-- The storage's `new_oid()` raises at its k-th call during a commit / savepoint.  Seen from outside this is
    the failure of pickling the object whose serialization makes that call (references of it that got an
    oid before are disowned again by the writer's clean-up), so the driver finds that object — `recs`: the
    records of the undisturbed run in store order, `s1` its final state — and lets its pickling fail. -/
def newoidParent (n : Nat) (s0 s1 : State) (k : Nat) (recs : List (Oid × List ObjId)) : Option ObjId :=
  let target := s0.nextOid + k
  if target ≥ s1.nextOid then none
  else
    match (List.range n).find? (fun i => (s1.objs i).oid == some target) with
    | none => none
    | some x =>
      match recs.find? (fun p => p.2.contains x) with
      | none => none
      | some p => (List.range n).find? (fun i => (s1.objs i).oid == some p.1)

structure DState where
  n : Nat
  s : State

def connStep0 (d : DState) (toks : List String) : DState × String :=
  match toks with
  | ["reset", n] =>
    match n.toNat? with
    | some n => ({ n := n, s := init }, "ok | " ++ vector n init)
    | none => (d, "bad-op")
  | ["gc"] =>
    let s' := minimizeAll d.s
    ({ d with s := s' }, "ok | " ++ vector d.n s')
  | ["get", i] =>
    -- `conn.get(obj._p_oid) is obj`
    match i.toNat? with
    | none => (d, "bad-op")
    | some i =>
      let o := d.s.objs i
      let r := if o.oid.isNone then "none" else if !d.s.opened then "err:ConnState" else "same"
      (d, r ++ " | " ++ vector d.n d.s)
  | ["xadd", i] =>
    -- another connection tries to add the object: refused when it belongs to this one
    match i.toNat? with
    | none => (d, "bad-op")
    | some i =>
      (d, (if (d.s.objs i).jar then "err:InvalidObjectReference" else "ok") ++ " | " ++ vector d.n d.s)
  | ["touch", i] =>
    -- `obj._p_changed = True`: registered with its state as it is
    match i.toNat? with
    | none => (d, "bad-op")
    | some i =>
      let a := access d.s i
      let (s', out) := step d.n d.s (.modify i (a.1.objs i).val)
      match out with
      | .err e => ({ d with s := s' }, "err:" ++ errStr e ++ " | " ++ vector d.n s')
      | _ => ({ d with s := s' }, "ok | " ++ vector d.n s')
  | ["spf", "pickle", k] =>
    -- transaction.savepoint() while the state of object k cannot be pickled
    match k.toNat? with
    | none => (d, "bad-op")
    | some k =>
      let joined := !d.s.needsToJoin
      let (s1, out) := step d.n { d.s with fail := .pickle k } .savepoint
      let s' := { s1 with fail := .none }
      match out with
      | .failed e =>
        let s'' := txnAbortAfterFailure joined s'
        ({ d with s := s'' },
         "fail:" ++ errStr e ++ tmpFlag s'' ++ " | " ++ vector d.n s' ++ " | " ++ vector d.n s'')
      | _ => ({ d with s := s' }, "ok | " ++ vector d.n s')
  | ["readcur", _] =>
    -- Connection.readCurrent(obj) on an object that is NEW in this transaction (serial 0): recorded nowhere
    (d, "ok | " ++ vector d.n d.s)
  | _ =>
    match parseOp toks with
    | none => (d, "bad-op")
    | some op =>
      let joined := !d.s.needsToJoin
      let (s', out) := step d.n d.s op
      let n := d.n
      match out with
      | .failed e =>
        let s'' := txnAbortAfterFailure joined s'
        ({ d with s := s'' },
         "fail:" ++ errStr e ++ tmpFlag s'' ++ " | " ++ vector n s' ++ " | " ++ vector n s'')
      | .ok =>
        let extra := match op with
                     | .abort => tmpFlag s'
                     | _ => ""
        ({ d with s := s' }, "ok" ++ extra ++ " | " ++ vector n s')
      | .value v refs => ({ d with s := s' }, "v=" ++ fmtVal v refs ++ " | " ++ vector n s')
      | .err e => ({ d with s := s' }, "err:" ++ errStr e ++ " | " ++ vector n s')
      | .committed tid oids =>
        let names := (oids.map (nameOf n s')).foldl (fun acc x => insertSorted x acc) []
        ({ d with s := s' }, "ok t=" ++ toString tid ++ " w=[" ++ joinWith "," names ++ "]" ++ tmpFlag s'
                              ++ " | " ++ vector n s')
      | .nothing => ({ d with s := s' }, "ok nothing" ++ tmpFlag s' ++ " | " ++ vector n s')
      | .extOk tid => ({ d with s := s' }, "ok t=" ++ toString tid ++ " | " ++ vector n s')
      | .peeked none => ({ d with s := s' }, "none | " ++ vector n s')
      | .peeked (some r) =>
        ({ d with s := s' }, "v=" ++ fmtVal r.val r.refs ++ "@" ++ toString r.serial ++ " | " ++ vector n s')

def connStep (d : DState) (toks : List String) : DState × String :=
  match toks with
  | ["commitf", "finish"] =>
    -- the storage's own tpc_finish raises (reached only when the connection takes part in the commit): for the
    -- connection the same path as a later manager failing after the vote — tpc_abort without abort
    connStep0 d (if d.s.needsToJoin then ["commit"] else ["commitf", "rm", "after", "vote"])
  | ["commitf", "newoid", k] =>
    match k.toNat? with
    | none => (d, "bad-op")
    | some k =>
      let s0 := d.s
      let (s1, out1) := step d.n s0 (.commit .none)
      let parent : Option ObjId :=
        match out1, s0.sp with
        | .committed _ oids, none =>
          newoidParent d.n s0 s1 k (oids.map fun o => (o, match s1.committed.get o with
                                                          | some r => r.refs
                                                          | none => []))
        | _, _ => none
      connStep0 d (match parent with
                  | some c => ["commitf", "pickle", toString c]
                  | none => ["commit"])
  | ["spf", "newoid", k] =>
    match k.toNat? with
    | none => (d, "bad-op")
    | some k =>
      let s0 := d.s
      let (s1, out1) := step d.n s0 .savepoint
      let p0 := match s0.sp with
                | some t => t.position
                | none => 0
      let parent : Option ObjId :=
        match out1, s1.sp with
        | .ok, some t => newoidParent d.n s0 s1 k ((t.entries.drop p0).map fun e => (e.1, e.2.refs))
        | _, _ => none
      connStep0 d (match parent with
                  | some c => ["spf", "pickle", toString c]
                  | none => ["sp"])
  | _ => connStep0 d toks

def main : IO Unit := driverLoop connStep ({ n := 0, s := init } : DState)
