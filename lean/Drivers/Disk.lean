/-
  Line-protocol driver for the crash model (C01) and the index cache (C09).

  bytes arguments:  h:<hex>  |  f:<len>:<seed>  (byte i = (seed + 7 i) mod 256)  |  -  (empty)

    reset                                   → ok
    begin <tid> <status> <user> <desc> <ext>   (tid hex, status decimal char code) → ok
    recd <oid> <serial> <prev> <bytes>      data record (oid/serial hex, prev decimal)  → ok
    recb <oid> <serial> <prev> <back>       back-pointer record                         → ok
    commit | abortvote | votefail <n> | abort | fsyncfail
                                            → ok pos=<_pos> len=<image length> fnv=<image hash>
    events                                  → w@<off>+<len>#<fnv> … t@<n> fsync ret
    cut <k> <nb>                            → img len= fnv= rec n= pos= ltid= how= len= fnv=  | … err:<kind>
    rawcut <n> [<off> <byte>]               → like cut, on the first n bytes of the current image with the byte
                                              at <off> replaced (model fidelity on files no crash produces)
    wf                                      → 1 | 0      (FileWF of the committed list)
    saveidx                                 → slot=<i> pos=<pos> n=<entries>
    setidx <pos> <oid:off,…|->              → slot=<i>
    idxbytes <slot> <k>                     → loads | none   (loadIndex of the first k bytes; k = -1: all)
    open <slot|-1> <ro> <k> <nb>            → open of the cut image (k = -1: current image) with the
                                              index in <slot>:
                                              used= pos= ltid= maxoid= how= n= ixfnv= len= fnv= | err:<kind>
    sanity <slot> <k> <nb>                  → ltid=<n> | none | err:<kind>
    api <ro> <op> <op> …                    → ev=<number of fs events> <out> <out> …   (a session of public
                                              calls on a freshly opened instance; out = ok | ReadOnly |
                                              StorageTransaction)
-/
import ZodbModel.DriverLib
import ZodbModel.IndexCache
open ZodbModel ZodbModel.Format ZodbModel.Disk ZodbModel.IndexCache

def fnv64 (b : Bytes) : Nat :=
  b.foldl (fun h x => ((Nat.xor h x) * 1099511628211) % 18446744073709551616) 14695981039346656037

def fill (len seed : Nat) : Bytes := (List.range len).map fun i => (seed + 7 * i) % 256

def parseBytes (s : String) : Option Bytes :=
  if s == "-" then some []
  else match s.splitOn ":" with
    | ["h", hex] => bytesOfHex hex
    | ["f", len, seed] =>
      match len.toNat?, seed.toNat? with
      | some l, some sd => some (fill l sd)
      | _, _ => none
    | _ => none

structure DS where
  cs : List FTxn := []
  evs : Array Ev := #[]
  imgs : Array Bytes := #[magic]        -- imgs[i] = image after the first i events
  pending : Option FTxn := none
  slots : Array SavedIndex := #[]

def DS.img (s : DS) : Bytes := s.imgs.back?.getD magic

def errStr : Err → String
  | .format => "err:Format"
  | .corruptedTxn => "err:CorruptedTransaction"
  | .corruptedData => "err:CorruptedData"
  | .value => "err:Value"
  | .struct => "err:Struct"
  | .os => "err:OS"
  | .unicode => "err:Unicode"

def howStr : EndKind → String
  | .eof => "eof"
  | .truncShort => "truncShort"
  | .truncSave => "truncSave"
  | .stop => "stop"

def imgStr (b : Bytes) : String := "len=" ++ toString b.length ++ " fnv=" ++ hexN 8 (fnv64 b)

def evStr : Ev → String
  | .write off d => "w@" ++ toString off ++ "+" ++ toString d.length ++ "#" ++ hexN 8 (fnv64 d)
  | .trunc n => "t@" ++ toString n
  | .fsync => "fsync"
  | .fsyncFailed => "fsync-failed"
  | .ret => "ret"

def runOp (s : DS) (op : Op) : DS × String :=
  let es := opEvents s.cs op
  let (evs, imgs) := es.foldl (fun (acc : Array Ev × Array Bytes) e =>
      (acc.1.push e, acc.2.push (applyEv (acc.2.back?.getD magic) e))) (s.evs, s.imgs)
  let s' := { s with cs := s.cs ++ opCommits s.cs op, evs := evs, imgs := imgs, pending := none }
  (s', "ok pos=" ++ toString (filePos s'.cs) ++ " " ++ imgStr s'.img)

/-- the crash image of cut (k, nb), `k = none`: the current image -/
def cutImage (s : DS) (k : Option Nat) (nb : Nat) : Bytes :=
  match k with
  | none => s.img
  | some k =>
    let base := s.imgs[k]?.getD s.img
    match s.evs[k]? with
    | some (.write off d) => applyWrite base off (d.take nb)
    | _ => base

def ixStr (ix : Index) : String :=
  hexN 8 (fnv64 (ix.flatMap fun kv => be 8 kv.1 ++ be 8 kv.2))

def optNat (s : String) : Option (Option Nat) :=
  if s == "-1" then some none else s.toNat?.map some

def parseIdx (s : String) : Option Index :=
  if s == "-" then some []
  else (s.splitOn ",").mapM fun kv =>
    match kv.splitOn ":" with
    | [k, v] => do
      let k ← natOfHex k
      let v ← v.toNat?
      pure (k, v)
    | _ => none

def apiOfString : String → Option ApiOp
  | "load" => some .load | "loadBefore" => some .loadBefore | "loadSerial" => some .loadSerial
  | "history" => some .history | "iterator" => some .iterator
  | "lastTransaction" => some .lastTransaction | "getTid" => some .getTid | "getSize" => some .getSize
  | "undoLog" => some .undoLog | "lastInvalidations" => some .lastInvalidations
  | "record_iternext" => some .recordIternext | "isReadOnly" => some .isReadOnly | "len" => some .len
  | "supportsUndo" => some .supportsUndo | "store" => some .store | "deleteObject" => some .deleteObject
  | "restore" => some .restore | "undo" => some .undo | "new_oid" => some .newOid | "pack" => some .pack
  | "tpc_begin" => some .tpcBegin | "tpc_vote" => some .tpcVote | "tpc_finish" => some .tpcFinish
  | "tpc_abort" => some .tpcAbort | "close" => some .close
  | _ => none

def outStr : ApiOut → String
  | .ok => "ok"
  | .readOnly => "ReadOnly"
  | .storageTransaction => "StorageTransaction"

def step (s : DS) (toks : List String) : DS × String :=
  match toks with
  | ["reset"] => ({}, "ok")
  | "api" :: ro :: ops =>
    match ro.toNat?, ops.mapM apiOfString with
    | some ro, some ops =>
      let (outs, evs) := runApi [] (filePos s.cs) (indexOf s.cs) { ro := ro != 0 } ops
      (s, "ev=" ++ toString evs.length ++ " " ++ joinWith " " (outs.map fun oo => outStr oo.2))
    | _, _ => (s, "bad-op")
  | ["begin", tid, st, u, d, e] =>
    match natOfHex tid, st.toNat?, parseBytes u, parseBytes d, parseBytes e with
    | some tid, some st, some u, some d, some e =>
      ({ s with pending := some ⟨tid, st, u, d, e, []⟩ }, "ok")
    | _, _, _, _, _ => (s, "bad-op")
  | ["recd", oid, ser, prev, data] =>
    match s.pending, natOfHex oid, natOfHex ser, prev.toNat?, parseBytes data with
    | some t, some oid, some ser, some prev, some data =>
      ({ s with pending := some { t with recs := t.recs ++ [⟨oid, ser, prev, 0, .data data⟩] } }, "ok")
    | _, _, _, _, _ => (s, "bad-op")
  | ["recb", oid, ser, prev, back] =>
    match s.pending, natOfHex oid, natOfHex ser, prev.toNat?, back.toNat? with
    | some t, some oid, some ser, some prev, some back =>
      ({ s with pending := some { t with recs := t.recs ++ [⟨oid, ser, prev, 0, .back back⟩] } }, "ok")
    | _, _, _, _, _ => (s, "bad-op")
  | ["commit"] =>
    match s.pending with
    | some t => runOp s (.commit t)
    | none => (s, "bad-op")
  | ["abortvote"] =>
    match s.pending with
    | some t => runOp s (.abortAfterVote t)
    | none => (s, "bad-op")
  | ["votefail", n] =>
    match s.pending, n.toNat? with
    | some t, some n => runOp s (.voteFails t n)
    | _, _ => (s, "bad-op")
  | ["fsyncfail"] =>
    match s.pending with
    | some t => runOp s (.finishFsyncFails t)
    | none => (s, "bad-op")
  | ["abort"] => runOp s .abortBeforeVote
  | ["events"] => (s, joinWith " " (s.evs.toList.map evStr))
  | ["wf"] => (s, if decide (FileWF s.cs) then "1" else "0")
  | ["cut", k, nb] =>
    match k.toNat?, nb.toNat? with
    | some k, some nb =>
      let b := cutImage s (some k) nb
      (s, "img " ++ imgStr b ++ " rec " ++
        (match recover b with
         | .error e => errStr e
         | .ok r => "n=" ++ toString r.txns.length ++ " pos=" ++ toString r.pos ++ " ltid=" ++
             hexN 8 r.ltid ++ " how=" ++ howStr r.how ++ " " ++ imgStr r.bytes))
    | _, _ => (s, "bad-op")
  | "rawcut" :: n :: patch =>
    match n.toNat?, patch.mapM String.toNat? with
    | some n, some patch =>
      let b := s.img.take n
      let b := match patch with
        | [off, v] => if off < b.length then b.take off ++ [v] ++ b.drop (off + 1) else b
        | _ => b
      (s, "img " ++ imgStr b ++ " rec " ++
        (match recover b with
         | .error e => errStr e
         | .ok r => "n=" ++ toString r.txns.length ++ " pos=" ++ toString r.pos ++ " ltid=" ++
             hexN 8 r.ltid ++ " how=" ++ howStr r.how ++ " " ++ imgStr r.bytes))
    | _, _ => (s, "bad-op")
  | ["saveidx"] =>
    let si := saveIndex s.cs
    ({ s with slots := s.slots.push si },
     "slot=" ++ toString s.slots.size ++ " pos=" ++ toString si.pos ++ " n=" ++ toString si.index.length)
  | ["setidx", pos, ix] =>
    match pos.toNat?, parseIdx ix with
    | some pos, some ix =>
      ({ s with slots := s.slots.push ⟨pos, ix.foldl (fun acc kv => idxSet kv.1 kv.2 acc) []⟩ },
       "slot=" ++ toString s.slots.size)
    | _, _ => (s, "bad-op")
  | ["idxbytes", slot, k] =>
    match slot.toNat?, optNat k with
    | some slot, some k =>
      match s.slots[slot]? with
      | some si =>
        let b := saveBytes si.pos si.index
        let b := match k with | none => b | some k => b.take k
        (s, match loadIndex b with
            | some (p, ix) => if p == si.pos && ix == si.index then "loads" else "loads-differently"
            | none => "none")
      | none => (s, "bad-op")
    | _, _ => (s, "bad-op")
  | ["open", slot, ro, k, nb] =>
    match optNat slot, ro.toNat?, optNat k, nb.toNat? with
    | some slot, some ro, some k, some nb =>
      let b := cutImage s k nb
      let idx := slot.bind fun i => s.slots[i]?
      (s, match openWith (ro != 0) b idx with
          | .error e => errStr e
          | .ok o => "used=" ++ (if o.usedIndex then "1" else "0") ++ " pos=" ++ toString o.pos ++
              " ltid=" ++ hexN 8 o.ltid ++ " maxoid=" ++ hexN 8 o.maxOid ++ " how=" ++ howStr o.how ++
              " n=" ++ toString o.index.length ++ " ixfnv=" ++ ixStr o.index ++ " " ++ imgStr o.bytes)
    | _, _, _, _ => (s, "bad-op")
  | ["sanity", slot, k, nb] =>
    match slot.toNat?, optNat k, nb.toNat? with
    | some slot, some k, some nb =>
      match s.slots[slot]? with
      | some si =>
        (s, match checkSanity (cutImage s k nb) si.index si.pos with
            | .error e => errStr e
            | .ok none => "none"
            | .ok (some l) => "ltid=" ++ hexN 8 l)
      | none => (s, "bad-op")
    | _, _, _ => (s, "bad-op")
  | _ => (s, "bad-op")

def main : IO Unit := driverLoop step ({} : DS)
