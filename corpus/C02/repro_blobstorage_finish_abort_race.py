"""Reproducer (unchanged tree): BlobStorage (the wrapper, ZODB.blob.BlobStorage) clears its list of
"dirty" blob files in tpc_finish AFTER the wrapped storage's tpc_finish returned, i.e. after the commit
lock was released and outside any lock.  A second transaction that gets the commit lock in that window
and aborts (here: a ConflictError on the same blob) runs _blob_tpc_abort() over the still-populated list
and deletes the blob file the first transaction has just COMMITTED -> POSKeyError 'No blob file'.
The window contains no lock operation, so the delay is injected by overriding _blob_tpc_finish.
FileStorage(blob_dir=...) is not affected (_blob_tpc_finish runs inside _finish, commit lock held).
exit 0: committed blob readable; exit 1: committed blob file gone."""
import os
import shutil
import sys
import tempfile
import threading

import transaction
import ZODB
from ZODB.blob import Blob, BlobStorage
from ZODB.MappingStorage import MappingStorage
from ZODB.POSException import ConflictError, POSKeyError

tmp = tempfile.mkdtemp()
in_window, go_on = threading.Event(), threading.Event()


class SlowBlobStorage(BlobStorage):
    pass


st = BlobStorage(os.path.join(tmp, 'blobs'), MappingStorage())
orig = st._blob_tpc_finish
armed = [False]


def slow_blob_tpc_finish():
    if armed[0]:
        armed[0] = False
        in_window.set()          # the wrapped storage's tpc_finish has returned: commit lock is free
        go_on.wait(10)
    orig()


st._blob_tpc_finish = slow_blob_tpc_finish
db = ZODB.DB(st)
tm1, tm2 = transaction.TransactionManager(), transaction.TransactionManager()
c1, c2 = db.open(tm1), db.open(tm2)
c1.root()['b'] = Blob(b'v0')
tm1.commit()
tm2.begin()
with c2.root()['b'].open('r') as f:
    f.read()                     # connection 2 has the blob at its old revision


def second():
    in_window.wait(10)
    try:
        with c2.root()['b'].open('w') as f:
            f.write(b'conflicting')
        tm2.commit()             # ConflictError -> tpc_abort -> _blob_tpc_abort over the stale list
    except ConflictError:
        tm2.abort()
    go_on.set()


th = threading.Thread(target=second)
th.start()
with c1.root()['b'].open('w') as f:
    f.write(b'v1')
armed[0] = True
tm1.commit()
th.join()
tm1.begin()
c1.cacheMinimize()
try:
    with c1.root()['b'].open('r') as f:
        data = f.read()
    print('committed blob reads', data)
    rc = 0 if data == b'v1' else 1
except POSKeyError as e:
    print('VIOLATION: the committed blob file was removed by the other transaction\'s abort:', e)
    rc = 1
db.close()
shutil.rmtree(tmp, ignore_errors=True)
sys.exit(rc)
