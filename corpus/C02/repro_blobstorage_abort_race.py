"""Reproducer (tree at e118dd9, i.e. WITH the tpc_finish fix): the same race on the ABORT side of the
BlobStorage wrapper.  BlobStorage.tpc_abort first lets the wrapped storage abort (which releases the commit
lock) and only then runs _blob_tpc_abort() over dirty_oids, outside any lock.  A second transaction that
takes the commit lock in that window and has stored a blob (not yet finished) gets ITS blob file removed
by the first transaction's late clean-up; it then commits a record whose blob file is gone.
The window has no lock operation inside, so the delay is injected by wrapping _blob_tpc_abort.
exit 0: committed blob readable; exit 1: committed blob file gone."""
import os
import shutil
import sys
import tempfile
import threading

import transaction
import ZODB
from ZODB.blob import Blob, BlobStorage
from ZODB.MappingStorage import MappingStorage
from ZODB.POSException import POSKeyError

tmp = tempfile.mkdtemp()
in_window, stored, cleaned = threading.Event(), threading.Event(), threading.Event()
st = BlobStorage(os.path.join(tmp, 'blobs'), MappingStorage())
orig_abort = st._blob_tpc_abort
armed = [False]


def slow_blob_tpc_abort():
    if armed[0]:
        armed[0] = False
        in_window.set()          # the wrapped storage has aborted: the commit lock is free
        stored.wait(10)          # ... the other transaction stores its blob now ...
        orig_abort()
        cleaned.set()
    else:
        orig_abort()


st._blob_tpc_abort = slow_blob_tpc_abort


class Fail(Exception):
    pass


class RM:
    """resource manager voting last; hook() runs between the storage's vote and its finish"""

    def __init__(self, tm, hook):
        self.transaction_manager, self.hook = tm, hook

    def sortKey(self):
        return '~~~'

    def abort(self, t):
        pass

    tpc_begin = commit = tpc_finish = tpc_abort = abort

    def tpc_vote(self, t):
        self.hook()


db = ZODB.DB(st)
tm1, tm2 = transaction.TransactionManager(), transaction.TransactionManager()
c1, c2 = db.open(tm1), db.open(tm2)
c1.root()['a'] = Blob(b'a0')
c1.root()['b'] = Blob(b'b0')
tm1.commit()
tm2.begin()


def first():                     # stores blob 'a', then its commit is vetoed: tpc_abort
    def veto():
        raise Fail()
    with c1.root()['a'].open('w') as f:
        f.write(b'never committed')
    tm1.get().join(RM(tm1, veto))
    armed[0] = True
    try:
        tm1.commit()
    except Fail:
        tm1.abort()


th = threading.Thread(target=first)
th.start()
in_window.wait(10)               # the first transaction is between the storage's abort and its blob clean-up


def after_store():
    stored.set()                 # our blob file is in place (dirty_oids has it) ...
    cleaned.wait(10)             # ... and the first transaction's late clean-up runs now


with c2.root()['b'].open('w') as f:
    f.write(b'b1')
tm2.get().join(RM(tm2, after_store))
tm2.commit()
th.join()
tm2.begin()
c2.cacheMinimize()
try:
    with c2.root()['b'].open('r') as f:
        data = f.read()
    print('committed blob reads', data)
    rc = 0 if data == b'b1' else 1
except POSKeyError as e:
    print("VIOLATION: the committed blob file was removed by the other transaction's late abort clean-up:", e)
    rc = 1
db.close()
shutil.rmtree(tmp, ignore_errors=True)
sys.exit(rc)
