"""REPAIRED in /repo by fix commit a71c5cd (prints OK on the repaired tree, DEFECT before it); signature C05:undo-copy-fault-leaves-blob.

BlobStorage.undo (the wrapper in blob.py over an undo-capable storage) copies <oid>/<source serial>.blob to
<oid>/<undo serial>.blob and appends (oid, undo_serial) to dirty_oids only AFTER the copy.  If the copy
fails (the raw write into the new file raises, e.g. disk full) the partially written file of the
never-committed undo transaction stays in the blob directory after tpc_abort: dirty_oids does not know it.
Repair (move one line): append to dirty_oids BEFORE the copy (_blob_tpc_abort checks os.path.exists).
Run: PYTHONPATH=/repo/src:/verif/harness /venv/bin/python corpus/C05/repro_blobstorage_undo_copy_fault.py"""
import logging
import os
import shutil
import tempfile
from base64 import encodebytes

import vfs
from ZODB.blob import BlobStorage
from ZODB.Connection import TransactionMetaData
from ZODB.FileStorage import FileStorage
from ZODB.utils import p64, z64

logging.disable(logging.CRITICAL)
d = tempfile.mkdtemp()
root = os.path.join(d, 'db')
os.mkdir(root)
rec = vfs.Recorder(root)


def listing():
    return sorted(os.path.relpath(os.path.join(dp, f), root)
                  for dp, _, fns in os.walk(os.path.join(root, 'blobs')) for f in fns if f.endswith('.blob'))


try:
    with vfs.install(rec):
        st = BlobStorage(os.path.join(root, 'blobs'), FileStorage(os.path.join(root, 'Data.fs')))
        for tid, content in ((100, b'one'), (116, b'two')):
            t = TransactionMetaData()
            st.tpc_begin(t, p64(tid))
            tmp = os.path.join(st.temporaryDirectory(), 'x.tmp')
            with open(tmp, 'wb') as f:
                f.write(content * 3000)
            st.storeBlob(p64(1), p64(100) if tid == 116 else z64, b'data%d' % tid, tmp, '', t)
            st.tpc_vote(t); st.tpc_finish(t)
        before = listing()
        t = TransactionMetaData()
        st.tpc_begin(t, p64(300))
        rec.nmut = 0
        rec.fail_at = 2                      # 1 = create of the new blob file, 2 = the write into it
        try:
            st.undo(encodebytes(p64(116)).rstrip(), t)
        except OSError as e:
            print('undo raised', e)
        rec.fail_at = None
        st.tpc_abort(t)
        after = listing()
        print('before:', before)
        print('after :', after)
        print('DEFECT: a blob file of the aborted undo transaction is left' if after != before else 'OK: restored')
finally:
    shutil.rmtree(d)
