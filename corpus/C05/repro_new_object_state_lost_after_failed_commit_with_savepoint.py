"""GENUINE DEFECT (unchanged tree), signature C05:trace-left:conn-new-object-state-lost:<round>-savepoint.

A transaction creates a new persistent object, makes a savepoint, and its commit then fails (here: a
second resource manager votes no; the same with ConflictError, over-long description, ...).
_commit_savepoint() has put the oids of the savepointed objects — including the NEW ones — into
`_modified`; Connection.tpc_abort() invalidates everything in `_modified` (turning the new object into a
ghost) and only then _invalidate_creating() disowns it (no oid, no jar).  The result is a ghost without a
connection: its state, which existed only in memory, is gone.  Linking the same instance again in the next
transaction cannot be committed (POSKeyError on the freshly assigned oid while serialising the ghost).
Without the savepoint, or with savepoint + plain abort, the object keeps its state.
Repair (1-2 lines): in tpc_abort do not invalidate oids that are in `self._creating` (they are disowned,
not reloaded), e.g. self._cache.invalidate([o for o in self._modified if o not in self._creating]).
Run: PYTHONPATH=/repo/src /venv/bin/python corpus/C05/repro_new_object_state_lost_after_failed_commit_with_savepoint.py"""
import logging

import transaction
import ZODB
from persistent.mapping import PersistentMapping
from ZODB.MappingStorage import MappingStorage

logging.disable(logging.CRITICAL)


class VotesNo:
    def sortKey(self):
        return '~~~'

    def abort(self, t):
        pass

    tpc_begin = commit = tpc_finish = tpc_abort = abort

    def tpc_vote(self, t):
        raise RuntimeError('vote no')


bad = False
for savepoint in (False, True):
    db = ZODB.DB(MappingStorage())
    tm = transaction.TransactionManager()
    conn = db.open(tm)
    root = conn.root()
    new = PersistentMapping({'x': 1})
    root['new'] = new
    if savepoint:
        tm.savepoint()
    tm.get().join(VotesNo())
    try:
        tm.commit()
    except RuntimeError:
        pass
    tm.abort()
    try:
        state = dict(new.data)
    except Exception as e:
        state = 'LOST (%s)' % type(e).__name__
        bad = True
    print('savepoint=%-5s after the failed commit: oid=%r jar=%r _p_changed=%r state=%s' % (
        savepoint, new._p_oid, new._p_jar, new._p_changed, state))
    if savepoint:
        try:
            root['again'] = new
            tm.commit()
            print('   the next transaction linking the same instance committed')
        except Exception as e:
            print('   the next transaction linking the same instance raised', type(e).__name__, e)
            tm.abort()
print('DEFECT: the new object lost its state' if bad else 'OK')
