"""OBSERVATION, outside C05 (a failing tpc_finish callback is none of the property's error kinds).

DemoStorage.tpc_finish(t, f) sets `_transaction = None`, then calls changes.tpc_finish(t, f); if f raises
there, `self._commit_lock.release()` is skipped, and the tpc_abort(t) that follows is ignored (t is no
longer current): the DemoStorage commit lock (and the changes storage's) stay held and the next
tpc_begin blocks forever — the same shape as the repaired tpc_begin defect (d092628).
A maintainer-sized repair: try/except around changes.tpc_finish that restores `self._transaction`
(so that tpc_abort works) before re-raising.
Run: PYTHONPATH=/repo/src /venv/bin/python corpus/C05/observation_finish_callback_demo.py"""
import threading

from ZODB.Connection import TransactionMetaData
from ZODB.DemoStorage import DemoStorage
from ZODB.MappingStorage import MappingStorage
from ZODB.utils import p64, z64


def boom(tid):
    raise RuntimeError('callback')


st = DemoStorage(base=MappingStorage(), changes=MappingStorage())
t = TransactionMetaData()
st.tpc_begin(t, p64(200)); st.store(p64(2), z64, b'x' * 5, '', t); st.tpc_vote(t)
try:
    st.tpc_finish(t, boom)
except RuntimeError:
    pass
st.tpc_abort(t)                           # ignored
ok = []


def nxt():
    t2 = TransactionMetaData()
    st.tpc_begin(t2, p64(300)); st.tpc_abort(t2); ok.append(1)


th = threading.Thread(target=nxt, daemon=True)
th.start(); th.join(3)
print('OBSERVED: next tpc_begin blocks (commit locks leaked)' if not ok else 'next tpc_begin returned')
