"""REPAIRED in /repo by fix commit 39c0c67 (prints OK on the repaired tree, DEFECT before it); signature C05:abort-fault-lock-leak:demofile.

DemoStorage.tpc_abort: `self._transaction = None; self.changes.tpc_abort(transaction);
self._commit_lock.release()`.  When changes.tpc_abort raises — a one-shot I/O error on the truncate with
which FileStorage._abort removes the voted records — the FileStorage releases its own commit lock in
its `finally`, but the DemoStorage lock release is skipped and the DemoStorage has already forgotten
the transaction: every later tpc_begin blocks forever ("blocks no one" is violated).
Repair (2 lines): try: self.changes.tpc_abort(transaction) / finally: self._commit_lock.release()
Run: PYTHONPATH=/repo/src:/verif/harness /venv/bin/python corpus/C05/repro_demo_abort_fault_lock_leak.py"""
import logging
import os
import shutil
import tempfile
import threading

import vfs
from ZODB.Connection import TransactionMetaData
from ZODB.DemoStorage import DemoStorage
from ZODB.FileStorage import FileStorage
from ZODB.MappingStorage import MappingStorage
from ZODB.utils import p64, z64

logging.disable(logging.CRITICAL)
d = tempfile.mkdtemp()
root = os.path.join(d, 'db')
os.mkdir(root)
rec = vfs.Recorder(root)
try:
    with vfs.install(rec):
        fs = FileStorage(os.path.join(root, 'Data.fs'))
        st = DemoStorage(base=MappingStorage(), changes=fs)
        t = TransactionMetaData()
        st.tpc_begin(t, p64(200)); st.store(p64(2), z64, b'x' * 50, '', t); st.tpc_vote(t)
        rec.nmut = 0
        rec.fail_at = 1                      # the truncate inside FileStorage._abort fails once
        try:
            st.tpc_abort(t)
        except OSError as e:
            print('tpc_abort raised', e)
        rec.fail_at = None
        print('FileStorage lock held:', fs._commit_lock.locked(), ' DemoStorage lock held:', st._commit_lock.locked())
        ok = []

        def nxt():
            t2 = TransactionMetaData()
            st.tpc_begin(t2, p64(900)); st.tpc_abort(t2); ok.append(1)
        th = threading.Thread(target=nxt, daemon=True)
        th.start(); th.join(3)
        print('DEFECT: next tpc_begin blocks forever' if not ok else 'OK: next tpc_begin returned')
finally:
    shutil.rmtree(d)
