"""REPAIRED in /repo by fix commit cd6ddb0 (prints OK on the repaired tree, DEFECT before it); signature C05:next-txn-failed:conn:import.

Connection.importFile() remembers the export file in `self._import` and makes a savepoint, during which
_importDuringCommit() reads it.  If the file is damaged (truncated export) the savepoint raises and
`_import` stays set: it is only cleared after a successful import or by tpc_abort — but no two-phase
commit has begun, so transaction.abort() only reaches Connection.abort(), which does not clear it.
The NEXT transaction on that connection, however unrelated, runs _importDuringCommit() again with the
stale file and its commit fails with ExportError('Truncated export file'): an aborted transaction breaks
the following one.
Repair (1 line): clear `self._import` in Connection.abort() (e.g. in _tpc_cleanup / next to the other resets).
Run: PYTHONPATH=/repo/src /venv/bin/python corpus/C05/repro_import_failure_breaks_next_commit.py"""
import io
import logging

import transaction
import ZODB
from persistent.mapping import PersistentMapping
from ZODB.MappingStorage import MappingStorage

logging.disable(logging.CRITICAL)
db = ZODB.DB(MappingStorage())
tm = transaction.TransactionManager()
conn = db.open(tm)
root = conn.root()
root['a'] = PersistentMapping({'v': 0})
tm.commit()

buf = io.BytesIO()
conn.exportFile(root['a']._p_oid, buf)
data = buf.getvalue()
try:
    conn.importFile(io.BytesIO(data[:len(data) // 3]))          # a truncated export
except Exception as e:
    print('importFile raised', type(e).__name__, e)
tm.abort()                                                       # the transaction is aborted

root['a']['w'] = 1                                               # an unrelated next transaction
try:
    tm.commit()
    print('OK: the next transaction committed')
except Exception as e:
    print('DEFECT: the next transaction.commit() raised', type(e).__name__, e)
    tm.abort()
