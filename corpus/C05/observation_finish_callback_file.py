"""OBSERVATION, outside C05 (a failing tpc_finish callback is none of the property's error kinds).

FileStorage.tpc_finish(t, f): f(tid) runs inside the try block BEFORE the status flip.  If f raises, the
`finally` clause forgets the transaction and releases the commit lock, but the vote is not undone: the
voted transaction (status 'c') stays in Data.fs behind _pos, _tindex is not cleared, blob files put in
place by storeBlob stay, and the tpc_abort(t) that follows is ignored because t is no longer current.
A later shorter transaction leaves [new transaction][tail of the old bytes]; a reopen truncates them.
A maintainer-sized repair: wrap `f(tid)` in try/except that calls `self._abort(); self._clear_temp()`
before re-raising (nothing is committed at that point).
Run: PYTHONPATH=/repo/src /venv/bin/python corpus/C05/observation_finish_callback_file.py"""
import os
import shutil
import tempfile

from ZODB.Connection import TransactionMetaData
from ZODB.FileStorage import FileStorage
from ZODB.utils import p64, z64

d = tempfile.mkdtemp()
try:
    path = os.path.join(d, 'Data.fs')
    fs = FileStorage(path)
    t = TransactionMetaData()
    fs.tpc_begin(t, p64(100)); fs.store(p64(1), z64, b'a' * 10, '', t); fs.tpc_vote(t); fs.tpc_finish(t)
    size0 = os.path.getsize(path)

    def boom(tid):
        raise RuntimeError('callback')
    t = TransactionMetaData()
    fs.tpc_begin(t, p64(200)); fs.store(p64(2), z64, b'x' * 500, '', t); fs.tpc_vote(t)
    try:
        fs.tpc_finish(t, boom)
    except RuntimeError:
        pass
    fs.tpc_abort(t)                       # ignored: t is no longer the current transaction
    print('_pos', fs._pos, 'file size before', size0, 'after', os.path.getsize(path),
          'staged index entries', len(fs._tindex), 'lock held', fs._commit_lock.locked())
    print('OBSERVED: voted data left behind _pos' if os.path.getsize(path) != size0 else 'restored')
    fs.close()
finally:
    shutil.rmtree(d)
