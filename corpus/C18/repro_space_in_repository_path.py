"""repozo on a repository whose path contains a space: -B works, then -V, -B -Q and -R -w crash"""
import os, sys, tempfile, traceback
sys.path.insert(0, os.environ.get('ZR', '/repo') + '/src')
import logging; logging.disable(logging.CRITICAL)
import transaction, ZODB
from ZODB.FileStorage import FileStorage
from ZODB.scripts import repozo
d = tempfile.mkdtemp()
repo = os.path.join(d, 'my backups'); os.mkdir(repo)
fsn = os.path.join(d, 'Data.fs')
db = ZODB.DB(FileStorage(fsn)); c = db.open(); c.root()['a'] = 1; transaction.commit()
def run(argv):
    try:
        repozo.main(argv); return 'exit 0'
    except SystemExit as e:
        return 'exit %r' % (e.code,)
    except Exception as e:
        return 'CRASH %r' % (e,)
print('-B      ', run(['-B', '-r', repo, '-f', fsn]))
print('-V      ', run(['-V', '-r', repo]))
print('-V -Q   ', run(['-V', '-Q', '-r', repo]))
c.root()['a'] = 2; transaction.commit()
print('-B -Q   ', run(['-B', '-Q', '-r', repo, '-f', fsn]))
print('-B      ', run(['-B', '-r', repo, '-f', fsn]))
print('-R -w   ', run(['-R', '-w', '-r', repo, '-o', os.path.join(d, 'out.fs')]))
print('-R      ', run(['-R', '-r', repo, '-o', os.path.join(d, 'out.fs')]))
print(open(os.path.join(repo, sorted(n for n in os.listdir(repo) if n.endswith('.dat'))[0])).read())
