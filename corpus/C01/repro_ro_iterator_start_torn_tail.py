"""C01:ro-iterator-start-raises-on-torn-tail — iterator(start) on a file with an unfinished tail
(read-only reopen after a crash, or a reader while a writer is mid-vote) raises instead of yielding the
committed transactions from `start` on:
  (a) 1..7 bytes after the magic, no transaction yet:       CorruptedError("Couldn't read tid.")
  (b) start beyond the last committed tid, torn tail < 23 bytes (or a torn 'c' header whose tid < start):
      _scan_forward walks into the tail: CorruptedDataError
  (c) the last 8 bytes of a torn header read as a small "length": _read_num short read: ValueError
Exits 1 while any of them is present."""
import logging, os, shutil, sys, tempfile
from ZODB.FileStorage import FileStorage
from ZODB.Connection import TransactionMetaData
from ZODB.utils import p64, z64
logging.disable(logging.CRITICAL)
d = tempfile.mkdtemp(); fn = os.path.join(d, 'Data.fs')
fs = FileStorage(fn)
t = TransactionMetaData(); fs.tpc_begin(t, tid=p64(1000)); fs.store(p64(1), z64, b'x', '', t); fs.tpc_vote(t); fs.tpc_finish(t)
t = TransactionMetaData(); fs.tpc_begin(t, tid=p64(2000)); fs.store(p64(2), z64, b'y' * 9, '', t); fs.tpc_vote(t)
img = open(fn, 'rb').read()
fs.tpc_abort(t); fs.close()
end1 = 4 + 23 + 43 + 8          # end of the committed transaction
bad = []
for name, data, start, want in [('a', img[:4] + img[end1:end1 + 5], 1000, []),
                                ('b', img[:end1 + 10], 3000, []),
                                ('b2', img[:end1 + 30], 3000, []),
                                ('c', img[:end1 + 25], 1500, []),
                                ('ok', img[:end1 + 25], 1000, [p64(1000)])]:
    p = os.path.join(d, name + '.fs')
    open(p, 'wb').write(data)
    ro = FileStorage(p, read_only=True)
    try:
        got = [x.tid for x in ro.iterator(p64(start))]
        if got != want:
            bad.append((name, got))
    except Exception as e:
        bad.append((name, repr(e)))
    ro.close()
shutil.rmtree(d)
print('iterator(start) on torn-tail files:', bad or 'all fine')
sys.exit(1 if bad else 0)
