"""C01:ltid-of-discarded-tail (repaired in /repo 30d59f0; exits 1 if it is back).
One transaction voted, status byte never flipped (crash between tpc_vote and tpc_finish): after the
reopen no transaction exists, yet lastTransaction() was the tid of the discarded one."""
import logging, os, shutil, sys, tempfile
from ZODB.FileStorage import FileStorage
from ZODB.Connection import TransactionMetaData
from ZODB.utils import p64, z64, u64
logging.disable(logging.CRITICAL)
d = tempfile.mkdtemp(); fn = os.path.join(d, 'Data.fs')
fs = FileStorage(fn)
t = TransactionMetaData(); fs.tpc_begin(t, tid=p64(1000)); fs.store(p64(1), z64, b'x' * 50, '', t); fs.tpc_vote(t)
shutil.copy(fn, fn + '.crash')                      # the file as a crash would leave it
fs.tpc_abort(t); fs.close()
os.remove(fn + '.index'); shutil.move(fn + '.crash', fn)
fs = FileStorage(fn)
n, ltid = len(list(fs.iterator())), u64(fs.lastTransaction())
fs.close(); shutil.rmtree(d)
print('transactions after reopen: %d, lastTransaction(): %d' % (n, ltid))
sys.exit(1 if (n == 0 and ltid != 0) else 0)
