"""C01:ro-iterator-raises-on-short-tail (repaired in /repo f2dab16; exits 1 if it is back).
A crash left 3 bytes of the next transaction header at the end of the file; a read-only open does not
truncate, and iterator() raised CorruptedDataError after the last committed transaction."""
import logging, os, shutil, sys, tempfile
from ZODB.FileStorage import FileStorage
from ZODB.Connection import TransactionMetaData
from ZODB.utils import p64, z64
logging.disable(logging.CRITICAL)
d = tempfile.mkdtemp(); fn = os.path.join(d, 'Data.fs')
fs = FileStorage(fn)
t = TransactionMetaData(); fs.tpc_begin(t, tid=p64(1000)); fs.store(p64(1), z64, b'x', '', t); fs.tpc_vote(t); fs.tpc_finish(t)
fs.close()
with open(fn, 'ab') as f:
    f.write(b'\x03\xd5\x00')
ro = FileStorage(fn, read_only=True)
try:
    n = len(list(ro.iterator())); bad = False
except Exception as e:
    n, bad = repr(e), True
ro.close(); shutil.rmtree(d)
print('iterator after read-only reopen:', n)
sys.exit(1 if bad else 0)
