"""NOT a C16 violation (nothing is lost), reported for C07/C08: FileStorage.pack(t, referencesf, gc=False)
-- the call DemoStorage.pack makes on FileStorage changes, and what pack_gc=False selects -- raises
PackError("Invalid backpointer transaction id") when an undo record written after the pack time points
back to a record that is not current at the pack time (so its transaction is dropped from the packed
file).  With gc=True findReachableFromFuture keeps that record.
Run: PYTHONPATH=/repo/src /venv/bin/python repro_pack_gcfalse_undo_backpointer.py"""
import base64
import logging
import os
import tempfile
from ZODB.Connection import TransactionMetaData
from ZODB.FileStorage import FileStorage
from ZODB.serialize import referencesf
from ZODB.tests.MinPO import MinPO
from ZODB.tests.StorageTestBase import zodb_pickle
from ZODB.TimeStamp import TimeStamp
from ZODB.utils import p64, u64
logging.disable(logging.CRITICAL)


def T(k):
    return u64(TimeStamp(2020, 1, 1, 0, k, 0.0).raw())


def commit(s, tid, recs=(), undo=None):
    t = TransactionMetaData()
    s.tpc_begin(t, p64(tid))
    for oid, ser, v in recs:
        s.store(p64(oid), p64(ser), zodb_pickle(MinPO(v)), '', t)
    if undo:
        s.undo(base64.encodebytes(p64(undo)).rstrip(b'\n'), t)
    s.tpc_vote(t)
    s.tpc_finish(t)


s = FileStorage(os.path.join(tempfile.mkdtemp(), 'a.fs'))
commit(s, T(1), [(5, 0, 1)])
commit(s, T(2), [(5, T(1), 2)])
commit(s, T(4), undo=T(2))           # record of oid 5 with a back pointer to the T(1) record
s.pack(TimeStamp(p64(T(2))).timeTime() + 30, referencesf, gc=False)   # PackError
print('OK')
