"""C16:undo-over-base-* -- undo (FileStorage changes) of the transaction that first changed a base
object writes an un-creation record into the changes.  Afterwards (a) loadBefore for the interval of
the base revision raises POSKeyError, (b) the object can never be stored again: every serial the demo
storage reports conflicts.
Run: PYTHONPATH=/repo/src /venv/bin/python repro_undo_over_base.py"""
import base64
import logging
import os
import tempfile
from ZODB.Connection import TransactionMetaData
from ZODB.DemoStorage import DemoStorage
from ZODB.FileStorage import FileStorage
from ZODB.MappingStorage import MappingStorage
from ZODB.POSException import ConflictError, POSKeyError
from ZODB.tests.MinPO import MinPO
from ZODB.tests.StorageTestBase import zodb_pickle
from ZODB.utils import p64, u64
logging.disable(logging.CRITICAL)


def commit(s, tid, recs=(), undo=None):
    t = TransactionMetaData()
    s.tpc_begin(t, p64(tid))
    for oid, ser, v in recs:
        s.store(p64(oid), p64(ser), zodb_pickle(MinPO(v)), '', t)
    if undo:
        s.undo(base64.encodebytes(p64(undo)).rstrip(b'\n'), t)
    s.tpc_vote(t)
    s.tpc_finish(t)


base = MappingStorage()
commit(base, 100, [(1, 0, 1)])
demo = DemoStorage(base=base, changes=FileStorage(os.path.join(tempfile.mkdtemp(), 'c.fs')))
commit(demo, 200, [(1, 100, 2)])
before = demo.loadBefore(p64(1), p64(150))
commit(demo, 300, undo=200)
bad = []
try:
    assert demo.loadBefore(p64(1), p64(150)) == before
except POSKeyError:
    bad.append('(a) loadBefore(oid 1, tid 150) raises POSKeyError after the undo; before: (data, 100, 200)')
serial = demo.load(p64(1))[1]
try:
    commit(demo, 400, [(1, u64(serial), 3)])
except ConflictError as e:
    bad.append('(b) store with the serial reported by load() (%d) -> %s' % (u64(serial), e))
assert not bad, 'C16 defect:\n' + '\n'.join(bad)
print('OK')
