"""NOT C16 (reported for C04): FileStorage.getTid answers a tid for an object that does not exist when the
newest record is a back pointer to an un-creation record (create; undo; undo the undo; undo that): load()
and loadBefore() raise POSKeyError, getTid() returns the tid of the last undo (it only tests
`plen == 0 and back == 0` on the newest record).
Run: PYTHONPATH=/repo/src /venv/bin/python repro_gettid_uncreated_via_backpointer.py"""
import base64
import logging
import os
import tempfile
from ZODB.Connection import TransactionMetaData
from ZODB.FileStorage import FileStorage
from ZODB.POSException import POSKeyError
from ZODB.tests.MinPO import MinPO
from ZODB.tests.StorageTestBase import zodb_pickle
from ZODB.utils import p64, u64
logging.disable(logging.CRITICAL)


def commit(s, tid, recs=(), undo=None):
    t = TransactionMetaData()
    s.tpc_begin(t, p64(tid))
    for oid, ser, v in recs:
        s.store(p64(oid), p64(ser), zodb_pickle(MinPO(v)), '', t)
    if undo:
        s.undo(base64.encodebytes(p64(undo)).rstrip(b'\n'), t)
    s.tpc_vote(t)
    s.tpc_finish(t)


s = FileStorage(os.path.join(tempfile.mkdtemp(), 'a.fs'))
commit(s, 100, [(4, 0, 1)])
commit(s, 200, undo=100)      # un-creation
commit(s, 300, undo=200)      # exists again (back pointer to the 100 record)
commit(s, 400, undo=300)      # back pointer to the un-creation record of 200
try:
    s.load(p64(4))
    raise SystemExit('unexpected: object exists')
except POSKeyError:
    pass
try:
    print('getTid ->', u64(s.getTid(p64(4))), '(load raises POSKeyError)')
    raise AssertionError('C04 inconsistency: getTid answers for an object that load() says does not exist')
except POSKeyError:
    print('OK')
