"""NOT a C16 violation on the repaired tree (noted in evidence): DemoStorage(base=<non-empty>) (implicit
MappingStorage changes).pack() runs the changes' garbage collection, which knows nothing about the base: it
raises KeyError on the first oid that lives only in the base (here the root).  Before 726621b objects already
swept were lost (C16:pack-temporary-changes-loses-data); now nothing is lost and this script only asserts
that.
Run: PYTHONPATH=/repo/src /venv/bin/python repro_pack_temporary_changes.py"""
import logging
from ZODB.Connection import TransactionMetaData
from ZODB.DemoStorage import DemoStorage
from ZODB.MappingStorage import MappingStorage
from ZODB.POSException import POSKeyError
from ZODB.serialize import referencesf
from ZODB.tests.MinPO import MinPO
from ZODB.tests.StorageTestBase import zodb_pickle
from ZODB.TimeStamp import TimeStamp
from ZODB.utils import p64, u64
logging.disable(logging.CRITICAL)


def T(k):
    return u64(TimeStamp(2020, 1, 1, 0, k, 0.0).raw())


def commit(s, tid, recs):
    t = TransactionMetaData()
    s.tpc_begin(t, p64(tid))
    for oid, ser, v in recs:
        s.store(p64(oid), p64(ser), zodb_pickle(MinPO(v)), '', t)
    s.tpc_vote(t)
    s.tpc_finish(t)


base = MappingStorage()
commit(base, T(1), [(0, 0, 0), (1, 0, 1)])
demo = DemoStorage(base=base)
commit(demo, T(2), [(1, T(1), 2)])
commit(demo, T(3), [(1, T(2), 3)])
commit(demo, T(4), [(7, 0, 4)])
bad = []
try:
    demo.pack(TimeStamp(p64(T(3))).timeTime() + 1, referencesf)
except KeyError as e:
    print('note: pack raised KeyError(%r)' % (e.args[0],))
try:
    demo.load(p64(7))
except POSKeyError:
    bad.append('object 7 (committed after the pack time) is gone')
assert not bad, 'C16 defect: ' + '; '.join(bad)
print('OK')
