"""C16:new-oid-uncreated-reissued (adversarial RNG only) -- DemoStorage.new_oid tests existence with
load_current, so an oid whose newest record is an un-creation (undone creation) counts as free although
records of it are present; a store of the "new" object then conflicts.
Run: PYTHONPATH=/repo/src /venv/bin/python repro_new_oid_uncreated.py"""
import base64
import logging
import os
import sys
import tempfile
from ZODB.Connection import TransactionMetaData
from ZODB.DemoStorage import DemoStorage
from ZODB.FileStorage import FileStorage
from ZODB.MappingStorage import MappingStorage
from ZODB.tests.MinPO import MinPO
from ZODB.tests.StorageTestBase import zodb_pickle
from ZODB.utils import p64, u64
logging.disable(logging.CRITICAL)


class Fake:
    q = []

    def randint(self, a, b):
        return self.q.pop(0)


sys.modules['ZODB.DemoStorage'].random = Fake()


def commit(s, tid, recs=(), undo=None):
    t = TransactionMetaData()
    s.tpc_begin(t, p64(tid))
    for oid, ser, v in recs:
        s.store(p64(oid), p64(ser), zodb_pickle(MinPO(v)), '', t)
    if undo:
        s.undo(base64.encodebytes(p64(undo)).rstrip(b'\n'), t)
    s.tpc_vote(t)
    s.tpc_finish(t)


base = MappingStorage()
commit(base, 100, [(51, 0, 2)])
Fake.q = [50]
demo = DemoStorage(base=base, changes=FileStorage(os.path.join(tempfile.mkdtemp(), 'c.fs')))
assert u64(demo.new_oid()) == 50
commit(demo, 200, [(50, 0, 7)])
commit(demo, 300, undo=200)
Fake.q = [50]                      # 51 is taken (base); the next draw proposes 50 again
again = u64(demo.new_oid())
assert again != 50, 'C16/C20 defect: oid 50 re-issued although records %r of it are present' % (
    [u64(h['tid']) for h in demo.history(p64(50), 9)],)
print('OK')
