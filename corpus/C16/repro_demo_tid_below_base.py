"""C16:demo-tid-below-base -- DemoStorage's first commit gets a tid below the base's last tid when the
base is ahead of the clock; every base revision newer than that tid then becomes invisible to new
snapshots (lastTransaction() drops from the base's tid to the smaller changes tid).
Run: PYTHONPATH=/repo/src:/verif/harness /venv/bin/python repro_demo_tid_below_base.py"""
import logging
import clock
import transaction
import ZODB
from ZODB.DemoStorage import DemoStorage
from ZODB.MappingStorage import MappingStorage
from ZODB.tests.MinPO import MinPO
from ZODB.utils import u64
logging.disable(logging.CRITICAL)
base = MappingStorage()
with clock.scripted(start=1_800_000_000.0):          # base written where the clock is ahead
    db = ZODB.DB(base)
    c = db.open()
    c.root()['a'] = MinPO(1)
    transaction.commit()
    c.root()['b'] = MinPO(2)
    transaction.commit()
    c.close()
with clock.scripted(start=1_700_000_000.0):
    demo = DemoStorage(base=base)
    db2 = ZODB.DB(demo)
    c = db2.open()
    c.root()['a'].value = 10
    transaction.commit()
    print('base last tid', u64(base.lastTransaction()), 'demo last tid', u64(demo.lastTransaction()))
    assert demo.lastTransaction() > base.lastTransaction(), \
        'C16 defect: demo commit tid is below the base tid it supersedes'
    ZODB.DB(demo).open().root()['b']                 # ReadConflictError: root "deleted"
print('OK')
