"""C20:mvccmapping-instance-store-oid-reissued (unchanged tree) -- ZODB.tests.MVCCMappingStorage:
new_instance() gives every instance the MAIN storage's new_oid (`inst.new_oid = self.new_oid`), but
MappingStorage.store raises `self._oid` of the instance it is called on.  A record with an explicit oid
stored through an instance therefore never raises the shared counter and new_oid() later returns that oid.
Proposed fix (MVCCMappingStorage): keep a reference to the main storage in new_instance (`inst._main = self`;
`self._main = self` in __init__) and raise its counter in store():
    def store(self, oid, serial, data, version, transaction):
        MappingStorage.store(self, oid, serial, data, version, transaction)
        with self._main._lock:
            self._main._oid = max(self._main._oid, ZODB.utils.u64(oid))
Run: PYTHONPATH=/repo/src /venv/bin/python repro_mvccmapping_instance_store.py"""
from ZODB.Connection import TransactionMetaData
from ZODB.tests.MVCCMappingStorage import MVCCMappingStorage
from ZODB.utils import p64, u64, z64

main = MVCCMappingStorage()
inst = main.new_instance()
t = TransactionMetaData()
inst.tpc_begin(t)
inst.store(p64(3), z64, b'x', '', t)
inst.tpc_vote(t)
inst.tpc_finish(t)
got = [u64(inst.new_oid()) for _ in range(4)]
print(got)
assert 3 not in got, 'C20 defect: new_oid re-issued oid 3, which was stored through an instance'
print('OK')
