"""Reproducer (unchanged tree): FileStorage pack with a pack time after a NEWEST transaction that holds only a
deleteObject record drops that transaction; the running storage keeps its _ltid, but after close + reopen
lastTransaction() is SMALLER than before (tid order goes backwards: the next commit may reuse a tid when the
clock is behind, and DB.open(before=old ltid + 1) is refused as "in the future")."""
import sys, os, tempfile, time
sys.path.insert(0,'/repo/src')
import ZODB, transaction
from ZODB.FileStorage import FileStorage
from ZODB.Connection import TransactionMetaData
from ZODB.tests.MinPO import MinPO
from ZODB.utils import u64
d=tempfile.mkdtemp(); p=os.path.join(d,'Data.fs')
st=FileStorage(p, pack_gc=False); db=ZODB.DB(st); tm=transaction.TransactionManager(); c=db.open(tm)
c.root()['a']=MinPO(1); tm.commit(); oid=c.root()['a']._p_oid; ser=c.root()['a']._p_serial
del c.root()['a']; tm.commit()
t=TransactionMetaData(); st.tpc_begin(t); st.deleteObject(oid, ser, t); st.tpc_vote(t); st.tpc_finish(t)
before=u64(st.lastTransaction()); time.sleep(0.01)
db.pack(time.time())
print('ltid before pack %x, after pack %x' % (before, u64(st.lastTransaction())))
c.close(); db.close()
st2=FileStorage(p); print('after reopen      %x' % u64(st2.lastTransaction()), 'BACKWARDS' if u64(st2.lastTransaction())<before else 'ok')
txns=[u64(t.tid) for t in st2.iterator()]; print('txns', ['%x'%t for t in txns])
st2.close()
