"""C11 finding D4: a refused Connection.importFile() (truncated export file) is run AGAIN by the next commit.

importFile() stores its arguments in conn._import and takes a savepoint, whose _commit() runs
_importDuringCommit().  When that raises (ExportError: truncated export file) conn._import stays set: neither
Connection.abort() nor the cleanup of the failed savepoint resets it (tpc_abort would, but it fails earlier
with KeyError because tpc_begin never ran).  After transaction.abort() the NEXT transaction — which has nothing
to do with the import — fails at commit with the same ExportError (the stale import is executed again inside
its _commit()); only that second failure clears conn._import.
Exit 0: property holds (an aborted transaction leaves nothing behind).  Exit 1: violated.
"""
import io
import sys
import transaction
import ZODB
from ZODB.MappingStorage import MappingStorage
from persistent.mapping import PersistentMapping


def main():
    db = ZODB.DB(MappingStorage())
    tm = transaction.TransactionManager()
    c = db.open(tm)
    c.root()['src'] = PersistentMapping(a=PersistentMapping(v=1))
    tm.commit()
    f = io.BytesIO()
    c.exportFile(c.root()['src']._p_oid, f)
    data = f.getvalue()
    try:
        c.importFile(io.BytesIO(data[:-20]))
        print('truncated import succeeded?!')
        return 1
    except Exception as e:
        print('truncated import refused: %s: %s' % (type(e).__name__, e))
    tm.abort()
    print('after abort: conn._import =', c._import)
    c.root()['x'] = 1                      # an unrelated change in a new transaction
    try:
        tm.commit()
    except Exception as e:
        print('VIOLATED: the next, unrelated commit failed: %s: %s' % (type(e).__name__, e))
        tm.abort()
        return 1
    print('next commit ok')
    return 0


if __name__ == '__main__':
    sys.exit(main())
