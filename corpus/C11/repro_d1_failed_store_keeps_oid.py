import sys; sys.path.insert(0,'/repo/src')
import logging; logging.disable(logging.CRITICAL)
import ZODB, transaction
from ZODB.MappingStorage import MappingStorage
from ZODB.POSException import ConflictError
from persistent.mapping import PersistentMapping as PM
db = ZODB.DB(MappingStorage()); c = db.open(); r = c.root()
r['x'] = 1; transaction.commit()
# conflict on root while adding a new child
tm2 = transaction.TransactionManager(); c2 = db.open(tm2); c2.root()['y']=2; tm2.commit()
a = PM(); r['a'] = a
try:
    transaction.commit()
except ConflictError as e:
    print('conflict', e)
print('a oid/jar after failed commit:', a._p_oid, a._p_jar)
transaction.abort()
print('a oid/jar after abort:', a._p_oid, a._p_jar)
r['a'] = a
transaction.commit()
print('after recommit', a._p_oid, a._p_jar, a._p_serial)
c.cacheMinimize()
print(r['a'])
tm3 = transaction.TransactionManager(); c3 = db.open(tm3)
try:
    print(c3.root()['a'])
except Exception as e:
    print('ERR', type(e), e)
