"""C11 finding D3 (multi-database): a REFUSED Connection.close() damages the primary connection.

Two databases share `databases`; only an object of the SECOND database is modified, so only the
secondary connection has joined the transaction.  primary.close() is (correctly) refused with
ConnectionStateError — but the refusal comes from the loop over the secondary connections at the END of
close(): by then the primary has already unregistered itself as a synchronizer, dropped its
transaction manager (self.transaction_manager = None) and released its storage snapshot.  Afterwards
  * the transaction can be aborted/committed, but any later modification through the primary raises
    AttributeError ('NoneType' object has no attribute 'get') AFTER the object was changed in memory:
    the change is neither registered nor ever undone,
  * the primary no longer follows transaction boundaries (it keeps showing that uncommitted value and
    does not see commits of other connections),
  * a later close() succeeds and returns the pair to the pool WITH the uncommitted value: the next user
    of the pooled connection reads state that was never committed.
Exit 0: property holds (a refused close has no effect).  Exit 1: violated.
"""
import sys
import transaction
import ZODB
from ZODB.MappingStorage import MappingStorage
from ZODB.POSException import ConnectionStateError
from persistent.mapping import PersistentMapping


def main():
    dbs = {}
    db1 = ZODB.DB(MappingStorage(), databases=dbs, database_name='main')
    db2 = ZODB.DB(MappingStorage(), databases=dbs, database_name='aux')
    tm = transaction.TransactionManager()
    c = db1.open(tm)
    a = c.get_connection('aux')
    c.root()['x'] = PersistentMapping(v=0)
    a.root()['y'] = PersistentMapping(v=0)
    tm.commit()
    problems = []
    a.root()['y']['v'] = 1                  # only the secondary connection joins
    try:
        c.close()
        problems.append('close() succeeded inside a transaction')
    except ConnectionStateError:
        print('close() refused, primary.transaction_manager =', c.transaction_manager)
    tm.abort()
    try:
        c.root()['x']['v'] = 5              # ordinary use of the (still open) connection
        tm.commit()
    except Exception as e:
        print('modification through the primary after the refused close: %s: %s' % (type(e).__name__, e))
        problems.append('the primary connection is unusable after a refused close')
        tm.abort()
    tm.begin()
    seen = c.root()['x']['v']
    print('primary shows x.v = %r (committed: %r)' % (seen, db1.open(transaction.TransactionManager()).root()['x']['v']))
    if c.opened:
        c.close()
    c2 = db1.open(transaction.TransactionManager())
    reused = c2.root()['x']['v']
    print('next user of the pooled connection (reused: %s) sees x.v = %r, _p_changed = %r'
          % (c2 is c, reused, c2.root()['x']._p_changed))
    tm3 = transaction.TransactionManager()
    fresh = db1.open(tm3)
    committed = fresh.root()['x']['v']
    if reused != committed:
        problems.append('a reused connection shows uncommitted state (%r, committed %r)' % (reused, committed))
    for p in problems:
        print('VIOLATED:', p)
    return 1 if problems else 0


if __name__ == '__main__':
    sys.exit(main())
