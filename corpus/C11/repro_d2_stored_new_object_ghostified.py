import sys; sys.path.insert(0,'/repo/src')
import logging; logging.disable(logging.CRITICAL)
import ZODB, transaction
from ZODB.MappingStorage import MappingStorage
from ZODB.POSException import ConflictError
from persistent.mapping import PersistentMapping as PM
db = ZODB.DB(MappingStorage()); c = db.open(); r = c.root()
r['x'] = 1; transaction.commit()
tm2 = transaction.TransactionManager(); c2 = db.open(tm2); c2.root()['y']=2; tm2.commit()
b = PM(); b['k'] = 5
c.add(b)
r['b'] = b
print('registered', [o._p_oid for o in c._registered_objects])
try:
    transaction.commit()
except ConflictError as e:
    print('conflict')
print('b after failed commit:', b._p_oid, b._p_jar, b._p_changed, b.__dict__)
transaction.abort()
print('b after abort:', b._p_oid, b._p_jar, b._p_changed, b.__dict__)
try:
    print(b['k'])
except Exception as e:
    print("ERR", type(e), e)
c.add(b)
try:
    transaction.commit()
    print('readd ok', b._p_oid, b._p_serial)
except Exception as e:
    print("ERR", type(e), e)
