import sys; sys.path.insert(0,'/repo/src')
import logging; logging.disable(logging.CRITICAL)
import ZODB, transaction
from ZODB.MappingStorage import MappingStorage
from persistent.mapping import PersistentMapping as PM
class RM:
    def __init__(self, key, phase): self.key=key; self.phase=phase
    def sortKey(self): return self.key
    def _f(self, ph):
        if ph == self.phase: raise RuntimeError('injected '+ph)
    def abort(self, t): pass
    def tpc_begin(self, t): self._f('begin')
    def commit(self, t): self._f('commit')
    def tpc_vote(self, t): self._f('vote')
    def tpc_finish(self, t): self._f('finish')
    def tpc_abort(self, t): pass
db = ZODB.DB(MappingStorage()); c = db.open(); r = c.root()
r['x'] = 1; transaction.commit()
b = PM(); b['k'] = 5
r['b'] = b
sp = transaction.savepoint(True)
transaction.get().join(RM('~~~~', 'vote'))
try:
    transaction.commit()
except RuntimeError as e:
    print(e)
print('b after failed commit (conn voted):', b._p_oid, b._p_jar, b._p_changed, b.__dict__)
transaction.abort()
