import os, tempfile, shutil, logging, time, transaction, ZODB
logging.disable(logging.CRITICAL)
from ZODB.MappingStorage import MappingStorage
from ZODB.blob import Blob, BlobStorage
d = tempfile.mkdtemp()
try:
    db = ZODB.DB(BlobStorage(os.path.join(d,'blobs'), MappingStorage()))
    c = db.open(); r = c.root()
    b = Blob(); b.open('w').write(b'one'); r['b'] = b; transaction.commit(); t1 = db.lastTransaction()
    time.sleep(0.01); T = time.time(); time.sleep(0.01)
    with b.open('w') as f: f.write(b'two')
    transaction.commit(); t2 = db.lastTransaction()
    with b.open('w') as f: f.write(b'three')
    transaction.commit()
    db.pack(T)
    for kw, want in ((dict(before=t2), b'one'), (dict(at=t2), b'two')):
        h = db.open(**kw)
        try:
            got = h.root()['b'].open('r').read()
        except Exception as e:
            got = repr(e)
        assert got == want, 'C13 defect: pack removed the blob file of a kept revision: %r' % (got,)
        h.close()
    print('OK')
finally:
    shutil.rmtree(d)
