import sys, logging, tempfile
sys.path.insert(0,'/repo/src')
logging.disable(logging.CRITICAL)
import ZODB, transaction
from ZODB.MappingStorage import MappingStorage
from persistent import Persistent
class NA(Persistent):
    def __new__(cls, *args): return Persistent.__new__(cls)
    def __getnewargs__(self): return self.__dict__.get('args', ())
db = ZODB.DB(MappingStorage()); c = db.open(); r = c.root()
top = NA(); arg = NA(); top.args = (arg,); r['top'] = top
transaction.commit()
f = tempfile.TemporaryFile(); c.exportFile(top._p_oid, f); f.seek(0)
db2 = ZODB.DB(MappingStorage()); tm = transaction.TransactionManager(); c2 = db2.open(tm)
o = c2.importFile(f); c2.root()['x'] = o
try:
    tm.commit(); print('import committed')
except Exception as e:
    print('commit after importFile failed:', type(e).__name__, e)
