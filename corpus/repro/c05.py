import os, tempfile, shutil, threading, transaction, ZODB
from ZODB.FileStorage import FileStorage
from ZODB.DemoStorage import DemoStorage
from ZODB.MappingStorage import MappingStorage
from ZODB.Connection import TransactionMetaData
d = tempfile.mkdtemp()
try:
    demo = DemoStorage(base=MappingStorage(), changes=FileStorage(os.path.join(d,'c.fs')))
    t = TransactionMetaData(description='x'*70000)
    try:
        demo.tpc_begin(t)
    except Exception as e:
        print('begin raised', type(e).__name__)
    demo.tpc_abort(t)
    ok = []
    def nxt():
        t2 = TransactionMetaData()
        demo.tpc_begin(t2); demo.tpc_abort(t2); ok.append(1)
    th = threading.Thread(target=nxt, daemon=True); th.start(); th.join(3)
    assert ok, 'C05 defect: next tpc_begin blocks forever'
    print('OK')
finally:
    shutil.rmtree(d)
