import os, tempfile, shutil, logging
logging.disable(logging.CRITICAL)
from ZODB.FileStorage import FileStorage
from ZODB.Connection import TransactionMetaData
from ZODB.utils import p64, z64
d = tempfile.mkdtemp()
try:
    fs = FileStorage(os.path.join(d, 'x.fs'))
    t = TransactionMetaData('abc', '', {}); fs.tpc_begin(t, p64(1)); fs.tpc_vote(t); fs.tpc_finish(t)
    t = TransactionMetaData('u2', 'd2', {}); fs.tpc_begin(t, p64(2)); fs.store(p64(1), z64, b'x', '', t); fs.tpc_vote(t); fs.tpc_finish(t)
    n_iter = len(list(fs.iterator())); n_undo = len(fs.undoLog(0, 20))
    print(fs._pos, n_iter, n_undo)
    assert n_iter == n_undo == 2, 'C04 defect: undoLog skips a short first transaction'
    print('OK')
finally:
    shutil.rmtree(d)
