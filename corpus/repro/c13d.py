import os, tempfile, shutil, logging, transaction, ZODB
logging.disable(logging.CRITICAL)
from ZODB.FileStorage import FileStorage
from ZODB.blob import Blob
d = tempfile.mkdtemp()
try:
    db = ZODB.DB(FileStorage(os.path.join(d,'Data.fs'), blob_dir=os.path.join(d,'blobs')))
    c = db.open(); r = c.root()
    b = Blob(); b.open('w').write(b'zero'); r['b'] = b; transaction.commit()
    with b.open('w') as f: f.write(b'AAA')
    sp1 = transaction.savepoint()
    with b.open('w') as f: f.write(b'BBB')
    sp2 = transaction.savepoint()
    sp1.rollback()
    got = b.open('r').read()
    print(got)
    assert got == b'AAA', 'C12/C13 defect: savepoint rollback kept later blob bytes'
    with b.open('w') as f: f.write(b'CCC')
    sp3 = transaction.savepoint()
    sp1.rollback()
    assert b.open('r').read() == b'AAA'
    transaction.commit()
    tm = transaction.TransactionManager(); c2 = db.open(tm)
    assert c2.root()['b'].open('r').read() == b'AAA'
    print('OK')
finally:
    shutil.rmtree(d)
