import ZODB, transaction
from ZODB.MappingStorage import MappingStorage
from persistent.mapping import PersistentMapping as PM
db = ZODB.DB(MappingStorage()); c = db.open(); r = c.root()
r['x'] = 1
sp1 = transaction.savepoint()
b = PM(); r['b'] = b
sp2 = transaction.savepoint()
sp1.rollback()
n = PM(); r['n'] = n
sp3 = transaction.savepoint()
sp1.rollback()
print('n oid/jar after 2nd rollback:', n._p_oid, n._p_jar)
assert n._p_oid is None and n._p_jar is None, 'C12 defect: created object not un-added'
print("OK")
