import os, tempfile, shutil, logging
logging.disable(logging.CRITICAL)
from ZODB.FileStorage import FileStorage
from ZODB.Connection import TransactionMetaData
from ZODB.utils import p64
d = tempfile.mkdtemp()
try:
    fn = os.path.join(d, 'x.fs')
    fs = FileStorage(fn)
    for i in range(3):
        t = TransactionMetaData(description='x' * 40); fs.tpc_begin(t, tid=p64(1000 + i)); fs.tpc_vote(t); fs.tpc_finish(t)
    fs.close()
    try:
        fs = FileStorage(fn)
    except OSError as e:
        raise AssertionError('C09 defect: a database with a valid, up-to-date index cannot be opened: %r' % (e,))
    assert len(list(fs.iterator())) == 3
    print('OK')
finally:
    shutil.rmtree(d)
