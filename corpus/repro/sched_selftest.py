import sys, os, time, tempfile, shutil, logging
sys.path.insert(0,'/verif/harness')
import sched, transaction, ZODB
from ZODB.MappingStorage import MappingStorage
from ZODB.FileStorage import FileStorage
from persistent.mapping import PersistentMapping
logging.disable(logging.CRITICAL)
d=tempfile.mkdtemp()
t0=time.time(); obs=set(); n=0; dl=0
for kind in ('map','file'):
  for seed in range(40):
    with sched.installed():
        st = MappingStorage() if kind=='map' else FileStorage(os.path.join(d,'d%d.fs'%seed))
        db = ZODB.DB(st)
        c=db.open(); c.root()['a']=0; c.root()['b']=0; transaction.commit(); c.close()
        def writer():
            tm=transaction.TransactionManager(); c=db.open(tm)
            for i in range(3):
                c.root()['a']=i+1; c.root()['b']=i+1; tm.commit()
            c.close()
        def reader():
            tm=transaction.TransactionManager(); c=db.open(tm); out=[]
            for i in range(3):
                tm.begin(); r=c.root(); out.append((r['a'],r['b'])); tm.abort()
            c.close(); return out
        s=sched.Scheduler(seed=seed, stickiness=0.5)
        s.spawn('w',writer); s.spawn('r',reader)
        res=s.run()
        n+=1; dl+=res['deadlock']
        if res['errors']: print(kind,seed,res['errors'])
        obs.add(tuple(res['results']['r'] or []))
        for a,b in res['results']['r'] or []: assert a==b,(a,b)
        db.close()
print(n,'runs',dl,'deadlocks',len(obs),'distinct observations', 'steps',res['steps'], '%.2fs'%(time.time()-t0))
print(res['events'][:12])
shutil.rmtree(d)
