import os, tempfile, shutil, logging, time, transaction, ZODB
logging.disable(logging.CRITICAL)
from ZODB.FileStorage import FileStorage
from ZODB.FileStorage.FileStorage import FileStorageError
d = tempfile.mkdtemp()
try:
    fs = FileStorage(os.path.join(d,'Data.fs'), pack_keep_old=True)
    db = ZODB.DB(fs); c = db.open()
    for i in range(3):
        c.root()['x'] = i; transaction.commit()
    db.pack(time.time()+1)           # leaves Data.fs.old
    for i in range(3):
        c.root()['x'] = i; transaction.commit()
    real = os.remove
    def bad(p, *a, **k):
        if str(p).endswith('.old'): raise OSError(13, 'injected')
        return real(p, *a, **k)
    os.remove = bad
    try:
        try: db.pack(time.time()+1)
        except OSError: print('pack failed (injected)')
    finally:
        os.remove = real
    try:
        db.pack(time.time()+1)
    except FileStorageError as e:
        raise AssertionError('C08 defect: failed pack left the storage unpackable: %s' % e)
    print('OK')
finally:
    shutil.rmtree(d)
