import os, tempfile, shutil, logging, time, transaction, ZODB
logging.disable(logging.CRITICAL)
from ZODB.FileStorage import FileStorage
from persistent.mapping import PersistentMapping
d = tempfile.mkdtemp()
try:
    fs = FileStorage(os.path.join(d, 'Data.fs'), pack_gc=False)
    db = ZODB.DB(fs); c = db.open(); r = c.root()
    r['a'] = PersistentMapping(); transaction.commit()
    r['a']['k'] = 1; transaction.commit()
    r['a']['k'] = 2; transaction.commit()
    time.sleep(0.01); T = time.time(); time.sleep(0.01)
    db.undo(db.undoLog(0, 1)[0]['id']); transaction.commit()
    try:
        db.pack(T)
    except Exception as e:
        raise AssertionError('C07/C08 defect: pack to this time is impossible: %r' % (e,))
    db.close()
    os.remove(os.path.join(d, 'Data.fs.index'))
    db = ZODB.DB(FileStorage(os.path.join(d, 'Data.fs')))
    assert db.open().root()['a']['k'] == 1
    assert all(t.tid for t in db.storage.iterator())
    print('OK')
finally:
    shutil.rmtree(d)
