import sys, logging
sys.path.insert(0,'/repo/src')
logging.disable(logging.CRITICAL)
import ZODB, transaction
from ZODB.MappingStorage import MappingStorage
from ZODB.tests.MinPO import MinPO
db = ZODB.DB(MappingStorage())
tm0 = transaction.TransactionManager(); c0 = db.open(tm0)
c0.root()['g'] = MinPO(1); c0.root()['d'] = MinPO(1); tm0.commit()
tm1 = transaction.TransactionManager(); c1 = db.open(tm1)
g = c0.root()['g']; d = c0.root()['d']; g.value; d.value
c0.readCurrent(g)             # the transaction depends on g being current
d.value = 2
sp0 = tm0.savepoint()
g.value = 5                   # tentative write of g ...
sp1 = tm0.savepoint()         # ... spilled to a savepoint (pops g from _readCurrent)
sp0.rollback()                # ... and rolled back: g is unmodified again
print('g', g.value, 'readCurrent still declared:', g._p_oid in c0._readCurrent)
d.value = 3
c1.root()['g'].value = 9; tm1.commit()      # somebody changes g
try:
    tm0.commit(); print('COMMITTED although g changed -> dependency lost')
except Exception as e:
    print('conflict', type(e).__name__)
