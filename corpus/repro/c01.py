import os, tempfile, shutil, logging
logging.disable(logging.CRITICAL)
from ZODB.FileStorage import FileStorage
from ZODB.Connection import TransactionMetaData
from ZODB.utils import p64, z64
d = tempfile.mkdtemp()
try:
    p = os.path.join(d, 'Data.fs')
    fs = FileStorage(p)
    t = TransactionMetaData(); fs.tpc_begin(t, p64(1000)); fs.store(p64(1), z64, b'x', '', t); fs.tpc_vote(t)
    img = open(p, 'rb').read()          # crash image: voted, status byte still 'c'
    fs.tpc_abort(t); fs.close()
    q = os.path.join(d, 'crash.fs'); open(q, 'wb').write(img)
    fs2 = FileStorage(q)
    n = len(list(fs2.iterator())); lt = fs2.lastTransaction()
    print(n, lt)
    assert n == 0 and lt == z64, 'C01 defect: lastTransaction() reports the tid of a discarded transaction'
    print('OK')
finally:
    shutil.rmtree(d)
