import os, tempfile, shutil
from ZODB.FileStorage import FileStorage
from ZODB.utils import p64
import transaction
d = tempfile.mkdtemp()
try:
    fs = FileStorage(os.path.join(d, 'Data.fs'))
    from ZODB.Connection import TransactionMetaData; t = TransactionMetaData()
    fs.tpc_begin(t)
    for oid in (p64(1), b'\xff' * 8):
        fs.store(oid, b'\0' * 8, b'x', '', t)
    fs.tpc_vote(t); fs.tpc_finish(t)
    seen, nxt = [], None
    while True:
        oid, tid, data, nxt = fs.record_iternext(nxt)
        seen.append(oid)
        if nxt is None:
            break
    print('iterated', [o.hex() for o in seen])
    fs.close()
except Exception as e:
    print('record_iternext raised', type(e).__name__, e)
    raise SystemExit(1)
finally:
    shutil.rmtree(d)
