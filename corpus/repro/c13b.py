import os, tempfile, shutil, time, transaction, ZODB
from ZODB.FileStorage import FileStorage
from ZODB.blob import Blob
d = tempfile.mkdtemp()
try:
    fs = FileStorage(os.path.join(d,'Data.fs'), blob_dir=os.path.join(d,'blobs'))
    db = ZODB.DB(fs); c = db.open(); r = c.root()
    b = Blob(); b.open('w').write(b'one'); r['b'] = b; transaction.commit()
    del r['b']; transaction.commit()
    time.sleep(0.01); T = time.time(); time.sleep(0.01)
    with b.open('w') as f: f.write(b'two')
    r['b'] = b; transaction.commit()
    db.pack(T)
    c2 = db.open()
    try:
        data = c2.root()['b'].open('r').read()
    except Exception as e:
        data = repr(e)
    print(data)
    assert data == b'two', 'C13 defect: blob file of a revision kept by pack was removed'
    print('OK')
finally:
    shutil.rmtree(d)
