import sys, logging
sys.path.insert(0,'/repo/src'); logging.disable(logging.CRITICAL)
import ZODB, transaction
from ZODB.MappingStorage import MappingStorage
from persistent.mapping import PersistentMapping as PM
dbs = {}
d0 = ZODB.DB(MappingStorage(), databases=dbs, database_name='0')
d1 = ZODB.DB(MappingStorage(), databases=dbs, database_name='1')
d2 = ZODB.DB(MappingStorage(), databases=dbs, database_name='2')
tm = transaction.TransactionManager(); c0 = d0.open(tm)
c1 = c0.get_connection('1'); c2 = c0.get_connection('2')
a = c0.root()['a'] = PM(); x = c1.root()['x'] = PM(); y = c2.root()['y'] = PM(); z = c2.root()['z'] = PM()
c0.add(a); c1.add(x); c2.add(y); c2.add(z)
x['y'] = y            # 1 -> 2
z['a'] = a            # 2 -> 0
tm.commit(); c0.close()
for db in (d0, d1, d2): db.pool.clear()          # start from empty pools (as a new process would)
# a connection on database 1 follows the reference into database 2 and goes back to the pool
tm1 = transaction.TransactionManager(); p = d1.open(tm1); p.root()['x']['y']._p_activate(); tm1.abort(); p.close()
# now a connection on database 0; database 1 (with its attached database-2 sibling) joins the group
tm0 = transaction.TransactionManager(); g = d0.open(tm0)
g1 = g.get_connection('1'); g2 = g.get_connection('2')
via_root = g.root()['a']
via_ref = g2.root()['z']['a']                    # 2 -> 0, resolved by the sibling
print('same object:', via_ref is via_root, '| same connection:', via_ref._p_jar is g)
