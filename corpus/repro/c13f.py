import os, tempfile, shutil, logging, transaction, ZODB
logging.disable(logging.CRITICAL)
from ZODB.FileStorage import FileStorage
from ZODB.blob import Blob
d = tempfile.mkdtemp()
try:
    db = ZODB.DB(FileStorage(os.path.join(d,'Data.fs'), blob_dir=os.path.join(d,'blobs')))
    c = db.open(); r = c.root()
    b = Blob(); b.open('w').write(b'base'); r['b'] = b; transaction.commit()
    r._p_changed = True; r._p_changed = False      # join the transaction without storing anything
    sp0 = transaction.savepoint()
    with b.open('w') as f: f.write(b'one')
    sp1 = transaction.savepoint()
    sp0.rollback()
    got = b.open('r').read()
    print(got)
    assert got == b'base', 'C12/C13 defect: rollback to a savepoint taken before the blob was written shows later bytes'
    print('OK')
finally:
    shutil.rmtree(d)
