import logging; logging.disable(logging.CRITICAL)
import time
from ZODB.MappingStorage import MappingStorage
from ZODB.serialize import referencesf
from ZODB.Connection import TransactionMetaData
from ZODB.utils import p64, z64
import pickle, io
from ZODB.tests.StorageTestBase import zodb_pickle
from ZODB.tests.MinPO import MinPO
from persistent import Persistent
class Ref(Persistent): pass
def rec(refs):
    # a record whose state references the given oids (oid, class) tuples
    f = io.BytesIO(); p = pickle.Pickler(f, 3)
    p.persistent_id = lambda o: o if isinstance(o, tuple) and len(o)==2 and isinstance(o[0], bytes) else None
    p.dump((MinPO, None)); p.dump({'r': [(o, MinPO) for o in refs]})
    return f.getvalue()
s = MappingStorage()
def commit(f):
    t = TransactionMetaData(); s.tpc_begin(t); f(t); s.tpc_vote(t); return s.tpc_finish(t)
t1 = commit(lambda t: [s.store(z64, z64, rec([p64(1), p64(7)]), '', t), s.store(p64(1), z64, rec([]), '', t)])
assert sorted(referencesf(rec([p64(1), p64(7)]))) == [p64(1), p64(7)]
try:
    s.pack(time.time() + 10, referencesf)
except KeyError as e:
    print('pack raised KeyError (dangling reference)')
try:
    s.load(z64); s.load(p64(1))
except Exception as e:
    raise AssertionError('C07 defect: failed pack lost reachable objects: %r' % (e,))
print('OK')
