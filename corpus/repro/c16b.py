import os, tempfile, shutil, logging, time
logging.disable(logging.CRITICAL)
from ZODB.FileStorage import FileStorage
from ZODB.MappingStorage import MappingStorage
from ZODB.DemoStorage import DemoStorage
from ZODB.serialize import referencesf
d = tempfile.mkdtemp()
try:
    demo = DemoStorage(base=MappingStorage(), changes=FileStorage(os.path.join(d, 'c.fs')))
    try:
        demo.pack(time.time(), referencesf, gc=False)
    except AttributeError as e:
        raise AssertionError('C16/C07 defect: DemoStorage with explicit changes cannot be packed: %r' % (e,))
    print('OK')
finally:
    shutil.rmtree(d)
