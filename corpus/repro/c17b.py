import os, tempfile, shutil, logging, io, contextlib, threading
logging.disable(logging.CRITICAL)
from ZODB.FileStorage import FileStorage
from ZODB.Connection import TransactionMetaData
from ZODB.utils import p64, z64
from ZODB import fsrecover
d = tempfile.mkdtemp()
try:
    p = os.path.join(d, 'src.fs')
    src = FileStorage(p)
    def commit(f):
        t = TransactionMetaData(); src.tpc_begin(t); f(t); src.tpc_vote(t); return src.tpc_finish(t)
    commit(lambda t: src.store(p64(1), z64, b'a1', '', t))
    pos2 = src._pos
    commit(lambda t: [src.store(p64(i), z64, b'data%d' % i, '', t) for i in (2, 3, 4)])
    commit(lambda t: src.store(p64(5), z64, b'e', '', t))
    src.close()
    rec2 = pos2 + 23 + (42 + 5)           # second record of txn 2
    with open(p, 'r+b') as f:
        f.seek(rec2 + 24); f.write(b'\0' * 8)   # damage its tloc
    with contextlib.redirect_stdout(io.StringIO()):
        fsrecover.recover(p, os.path.join(d, 'out.fs'))
    out = FileStorage(os.path.join(d, 'out.fs'), read_only=True)
    sizes = [len(list(t)) for t in out.iterator()]
    print(sizes)
    assert 1 not in sizes[1:] and 2 not in sizes, 'C17 defect: recovered a transaction with a truncated record list: %r' % sizes
    print('OK')
finally:
    shutil.rmtree(d)
