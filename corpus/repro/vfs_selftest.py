import sys, os, tempfile, shutil, logging
sys.path.insert(0,'/verif/harness')
import vfs, transaction, ZODB
from ZODB.FileStorage import FileStorage
from ZODB.Connection import TransactionMetaData
from ZODB.utils import p64, z64
logging.disable(logging.CRITICAL)
d=tempfile.mkdtemp(); root=os.path.join(d,'db'); os.mkdir(root)
rec=vfs.Recorder(root)
with vfs.install(rec):
    fs=FileStorage(os.path.join(root,'Data.fs'))
    init=vfs.snapshot(root); n0=len(rec.events)
    for i in range(2):
        t=TransactionMetaData(); fs.tpc_begin(t); fs.store(p64(i+1), z64, b'x'*9000 if i==0 else b'yy', '', t); fs.tpc_vote(t); rec.mark('voted'); fs.tpc_finish(t); rec.mark('ret finish')
    t=TransactionMetaData(); fs.tpc_begin(t); fs.store(p64(9), z64, b'zz', '', t); fs.tpc_vote(t); fs.tpc_abort(t); rec.mark('ret abort')
    for e in rec.events[n0:]:
        print(e[:3] + ((len(e[3]),) if e[0]=='write' else e[3:]))
    fs.close()
    evs=rec.events[n0:]
# materialize at a cut in the middle of 2nd txn
img=vfs.materialize(init, evs, 3, None, os.path.join(d,'img'))
print({k:(len(v) if v is not None else None) for k,v in img.items()})
fs2=FileStorage(os.path.join(d,'img','Data.fs')); print(len(list(fs2.iterator()))); fs2.close()
# fault injection
rec2=vfs.Recorder(root)
with vfs.install(rec2):
    fs=FileStorage(os.path.join(root,'Data.fs'))
    rec2.nmut=0; rec2.fail_at=2
    t=TransactionMetaData(); fs.tpc_begin(t); fs.store(p64(5), z64, b'q'*20000, '', t)
    try: fs.tpc_vote(t); print('vote ok')
    except OSError as e: print('vote raised', e)
    fs.tpc_abort(t); rec2.fail_at=None
    t=TransactionMetaData(); fs.tpc_begin(t); fs.store(p64(5), z64, b'q', '', t); fs.tpc_vote(t); fs.tpc_finish(t); print('next ok', len(list(fs.iterator())))
    fs.close()
shutil.rmtree(d)
