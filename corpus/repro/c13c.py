import os, tempfile, shutil, transaction, ZODB
from ZODB.MappingStorage import MappingStorage
from ZODB.blob import Blob, BlobStorage
from ZODB.Connection import TransactionMetaData
from ZODB.tests.StorageTestBase import zodb_pickle
from ZODB.utils import z64
d = tempfile.mkdtemp()
try:
    bs = BlobStorage(os.path.join(d,'blobs'), MappingStorage())
    t = TransactionMetaData(); bs.tpc_begin(t)
    oid = bs.new_oid()
    tmp = os.path.join(bs.temporaryDirectory(), 'x.tmp'); open(tmp,'wb').write(b'blobdata')
    bs.storeBlob(oid, z64, zodb_pickle(Blob()), tmp, '', t)
    other = TransactionMetaData()
    bs.tpc_abort(other)            # a call with a transaction that is not the one being committed
    bs.tpc_vote(t); tid = bs.tpc_finish(t)
    ok = os.path.exists(bs.fshelper.getBlobFilename(oid, tid))
    print('committed blob file exists:', ok)
    assert ok, 'C05/C13 defect: tpc_abort(other txn) removed the in-flight blob file'
    print('OK')
finally:
    shutil.rmtree(d)
