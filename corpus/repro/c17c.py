import os, tempfile, shutil, logging, io, contextlib, threading, base64
logging.disable(logging.CRITICAL)
from ZODB.FileStorage import FileStorage
from ZODB.Connection import TransactionMetaData
from ZODB.utils import p64, z64
from ZODB import fsrecover
d = tempfile.mkdtemp()
try:
    p = os.path.join(d, 'src.fs')
    src = FileStorage(p)
    def commit(f):
        t = TransactionMetaData(); src.tpc_begin(t); f(t); src.tpc_vote(t); return src.tpc_finish(t)
    t1 = commit(lambda t: src.store(p64(1), z64, b'a1', '', t))
    t2 = commit(lambda t: src.store(p64(1), t1, b'a2', '', t))
    pos3 = src._pos
    commit(lambda t: src.undo(base64.encodebytes(t2).rstrip(), t))
    src.close()
    r = pos3 + 23                       # the undo (back pointer) record
    with open(p, 'r+b') as f:
        f.seek(r + 42); f.write(p64(r))  # back pointer pointing at itself
    done = []
    def run():
        with contextlib.redirect_stdout(io.StringIO()):
            fsrecover.recover(p, os.path.join(d, 'out.fs'))
        done.append(1)
    th = threading.Thread(target=run, daemon=True); th.start(); th.join(10)
    assert done, 'C17 defect: fsrecover does not terminate on a back pointer cycle'
    print('OK')
finally:
    shutil.rmtree(d)
