from ZODB.MappingStorage import MappingStorage
from ZODB.Connection import TransactionMetaData
from ZODB.utils import p64, u64, z64
s = MappingStorage()
t = TransactionMetaData(); s.tpc_begin(t); s.store(p64(3), z64, b'x', '', t); s.tpc_vote(t); s.tpc_finish(t)
got = [u64(s.new_oid()) for _ in range(4)]
print(got)
assert 3 not in got, 'C20 defect: new_oid re-issued a stored oid'
print('OK')
