import os, tempfile, shutil, logging
logging.disable(logging.CRITICAL)
from ZODB.FileStorage import FileStorage
from ZODB.MappingStorage import MappingStorage
from ZODB.Connection import TransactionMetaData
from ZODB.utils import p64, z64
d = tempfile.mkdtemp()
try:
    m = MappingStorage(); t = TransactionMetaData('u', 'd', {'k': 1})
    m.tpc_begin(t); m.store(p64(1), z64, b'x.', '', t); m.tpc_vote(t); tid = m.tpc_finish(t)
    dst = FileStorage(os.path.join(d, 'x.fs'))
    try:
        dst.copyTransactionsFrom(m)
    except Exception as e:
        raise AssertionError('C17 defect: MappingStorage cannot be the source of a copy: %r' % (e,))
    txn = list(dst.iterator())[0]
    assert txn.tid == tid and txn.extension == {'k': 1} and dst.load(p64(1)) == (b'x.', tid), (txn.extension,)
    print('OK')
finally:
    shutil.rmtree(d)
