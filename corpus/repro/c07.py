import time, transaction, ZODB
from ZODB.MappingStorage import MappingStorage
from ZODB.serialize import referencesf
from ZODB.Connection import TransactionMetaData
from ZODB.utils import p64, u64, z64
from ZODB.tests.StorageTestBase import zodb_pickle, MinPO
s = MappingStorage()
db = ZODB.DB(s); c = db.open(); c.root()['a'] = 1; transaction.commit()
time.sleep(0.01); T = time.time(); time.sleep(0.01)
# after T: a transaction writing an object that is never referenced
t = TransactionMetaData(); s.tpc_begin(t); oid = s.new_oid(); s.store(oid, z64, zodb_pickle(MinPO(1)), '', t); s.tpc_vote(t); tid = s.tpc_finish(t)
before = [x.tid for x in s.iterator()][-1:]
s.pack(T, referencesf)
after = [x.tid for x in s.iterator() if x.tid == tid]
print(len(before), len(after))
assert before == after, 'C07 defect: a transaction committed after the pack time disappeared'
assert s.load(oid)[1] == tid
print('OK')
