import os, tempfile, shutil, threading, transaction, ZODB, io, contextlib
from ZODB.FileStorage import FileStorage
from ZODB import fsrecover
d = tempfile.mkdtemp()
try:
    p = os.path.join(d,'Data.fs')
    db = ZODB.DB(FileStorage(p)); c = db.open()
    for i in range(3):
        c.root()[i] = i; transaction.commit()
    db.close()
    size = os.path.getsize(p)
    with open(p,'r+b') as f: f.truncate(size-8)   # cut right after the last pickle: '.' is the last byte
    done = []
    def run():
        with contextlib.redirect_stdout(io.StringIO()):
            fsrecover.recover(p, os.path.join(d,'out.fs'))
        done.append(1)
    th = threading.Thread(target=run, daemon=True); th.start(); th.join(10)
    assert done, 'C17 defect: fsrecover does not terminate'
    fs = FileStorage(os.path.join(d,'out.fs'), read_only=True)
    print('recovered txns:', len(list(fs.iterator()))); fs.close()
    print('OK')
finally:
    shutil.rmtree(d)
