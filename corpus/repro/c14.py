import logging; logging.disable(logging.CRITICAL)
import ZODB, transaction
from ZODB.MappingStorage import MappingStorage
from persistent import Persistent
class P(Persistent): pass
db = ZODB.DB(MappingStorage()); c = db.open()
p = P(); a = P(); b = P(); p.a = a; p.b = b; b.bad = lambda: 0     # b cannot be pickled
c.root()['p'] = p
try:
    transaction.commit()
except Exception:
    transaction.abort()
assert a._p_oid is None and a._p_jar is None and b._p_oid is None, 'C11/C14 defect: new object keeps its oid after a failed commit'
del b.bad
c.root()['p'] = p
transaction.commit()
tm = transaction.TransactionManager(); c2 = db.open(tm)
try:
    c2.root()['p'].a._p_activate(); c2.root()['p'].b._p_activate()
except Exception as e:
    raise AssertionError('C11/C14 defect: dangling reference committed after a failed commit: %r' % (e,))
print('OK')
