import os, tempfile, shutil, logging, time, transaction, ZODB
logging.disable(logging.CRITICAL)
from ZODB.FileStorage import FileStorage
d = tempfile.mkdtemp()
try:
    p = os.path.join(d, 'Data.fs')
    db = ZODB.DB(FileStorage(p)); c = db.open()
    for i in range(5):
        c.root()['x'] = i; transaction.commit()
    # take a crash image right after the first directory operation of the swap
    img = os.path.join(d, 'img'); taken = []
    real_rename, real_link = os.rename, getattr(os, 'link', None)
    def snap():
        if not taken:
            taken.append(1); os.mkdir(img)
            for f in os.listdir(d):
                if f.startswith('Data.fs') and not f.endswith('.lock'):
                    shutil.copy(os.path.join(d, f), os.path.join(img, f))
    def rename(a, b, *x, **k):
        r = real_rename(a, b, *x, **k)
        if str(b).endswith('.old'): snap()
        return r
    def link(a, b, *x, **k):
        r = real_link(a, b, *x, **k)
        if str(b).endswith('.old'): snap()
        return r
    os.rename = rename
    if real_link: os.link = link
    try:
        db.pack(time.time() + 1)
    finally:
        os.rename = real_rename
        if real_link: os.link = real_link
    db.close()
    assert taken
    db2 = ZODB.DB(FileStorage(os.path.join(img, 'Data.fs')))
    root = dict(db2.open().root())
    print(sorted(os.listdir(img)), root)
    assert root == {'x': 4}, 'C08 defect: crash during the pack swap lost the database: %r' % (root,)
    print('OK')
finally:
    shutil.rmtree(d)
