import os, tempfile, shutil, logging
logging.disable(logging.CRITICAL)
from ZODB.FileStorage import FileStorage
from ZODB.Connection import TransactionMetaData
from ZODB.utils import p64, z64
d = tempfile.mkdtemp()
try:
    src = FileStorage(os.path.join(d, 'src.fs'))
    def commit(f):
        t = TransactionMetaData(); src.tpc_begin(t); f(t); src.tpc_vote(t); return src.tpc_finish(t)
    t1 = commit(lambda t: src.store(p64(1), z64, b'a1', '', t))
    t2 = commit(lambda t: src.store(p64(1), t1, b'a2', '', t))
    t3 = commit(lambda t: src.undo(__import__("base64").encodebytes(t2).rstrip(), t))
    dst = FileStorage(os.path.join(d, 'dst.fs'))
    try:
        dst.copyTransactionsFrom(src.iterator(t3))
    except Exception as e:
        raise AssertionError('C17 defect: copying an iterator range failed: %r' % (e,))
    assert dst.load(p64(1))[0] == b'a1'
    print('OK')
finally:
    shutil.rmtree(d)
