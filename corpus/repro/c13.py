import os, tempfile, shutil, transaction, ZODB
from ZODB.FileStorage import FileStorage
from ZODB.blob import Blob
from ZODB.Connection import TransactionMetaData
d = tempfile.mkdtemp()
try:
    fs = FileStorage(os.path.join(d,'Data.fs'), blob_dir=os.path.join(d,'blobs'))
    db = ZODB.DB(fs); c = db.open(); r = c.root()
    r['x'] = 1; transaction.commit()
    t = TransactionMetaData()
    fs.tpc_begin(t)
    oid = fs.new_oid()
    tmp = os.path.join(fs.temporaryDirectory(), 'x.tmp')
    open(tmp,'wb').write(b'blobdata')
    from ZODB.tests.StorageTestBase import zodb_pickle
    fs.storeBlob(oid, b'\0'*8, zodb_pickle(Blob()), tmp, '', t)
    fs.tpc_abort(t)
    left = [os.path.join(dp,f) for dp,_,fn in os.walk(os.path.join(d,'blobs')) for f in fn if f.endswith('.blob')]
    print('blob files left:', left)
    assert not left, 'C13 defect: blob file left after abort before vote'
    print('OK')
finally:
    shutil.rmtree(d)
