import sys, os, io, time as _time, shutil, tempfile, logging
sys.path.insert(0, os.environ.get('ZR','/repo')+'/src')
logging.disable(logging.CRITICAL)
import ZODB.scripts.repozo as repozo
from ZODB.FileStorage import FileStorage
from ZODB.Connection import TransactionMetaData
from ZODB.utils import p64
from ZODB.tests.StorageTestBase import zodb_pickle
from ZODB.tests.MinPO import MinPO

class FakeTime:
    def __init__(self): self.now = 1_700_000_000
    def gmtime(self, *a):
        return _time.gmtime(self.now if not a else a[0])
    def __getattr__(self, n): return getattr(_time, n)
ft = FakeTime()
repozo.time = ft

def run(argv):
    out, err = io.BytesIO(), io.StringIO()
    so, se = sys.stdout, sys.stderr
    w = io.TextIOWrapper(out); sys.stdout = w; sys.stderr = err
    try:
        try:
            repozo.main(argv); code = 0
        except SystemExit as e:
            code = e.code
        except Exception as e:
            code = 'EXC %r' % e
        w.flush(); w.detach()
    finally:
        sys.stdout, sys.stderr = so, se
    return code, out.getvalue(), err.getvalue()

d = tempfile.mkdtemp()
fsn = os.path.join(d, 'Data.fs'); repo = os.path.join(d, 'repo'); os.mkdir(repo)
fs = FileStorage(fsn)
tidn = [0x03f0000000000000]
def commit(oid, val, finish=True):
    tidn[0] += 0x10000
    t = TransactionMetaData()
    fs.tpc_begin(t, tid=p64(tidn[0]))
    try: prev = fs.getTid(p64(oid))
    except KeyError: prev = b'\0'*8
    fs.store(p64(oid), prev, zodb_pickle(MinPO(val)), '', t)
    fs.tpc_vote(t)
    if finish: fs.tpc_finish(t)
    return t
def backup(*opts):
    ft.now += 1
    r = run(['-B', '-r', repo, '-f', fsn] + list(opts))
    return r
commit(1, 1); commit(2, 2)
print(backup()); print(sorted(os.listdir(repo)))
commit(1, 3)
print(backup()); print(sorted(os.listdir(repo)))
commit(1,4)
print(backup('-F')); 
commit(1,5)
print(backup()); print(sorted(os.listdir(repo)))
snap = open(fsn,'rb').read()[:fs.getSize()]
print('verify', run(['-V','-r',repo]))
# in-progress txn
t = commit(3, 7, finish=False)
print('raw size', os.path.getsize(fsn), 'committed', fs.getSize())
print(backup()); print(sorted(os.listdir(repo)))
print(backup('-Q')); print(sorted(os.listdir(repo)))
for f in sorted(os.listdir(repo)):
    if f.endswith('.dat'): print(f, open(os.path.join(repo,f)).read())
fs.tpc_abort(t)
# delete newest full
files = sorted(os.listdir(repo))
fulls = [f for f in files if f.endswith('.fs')]
print('fulls', fulls)
os.rename(os.path.join(repo, fulls[-1]), os.path.join(d, 'saved'))
print('verify after deleting newest full', run(['-V','-r',repo]))
print('verify -Q', run(['-V','-Q','-r',repo]))
c, o, e = run(['-R','-r',repo])
print('recover', c, len(o), o == snap, e)
c, o, e = run(['-R','-w','-r',repo, '-o', os.path.join(d,'out.fs')])
print('recover -w', c, e, os.listdir(d))
os.rename(os.path.join(d, 'saved'), os.path.join(repo, fulls[-1]))
c, o, e = run(['-R','-r',repo])
print('recover intact', c, len(o), o == snap, e)
# damage older chain
p = os.path.join(repo, fulls[0])
b = open(p,'rb').read(); open(p,'wb').write(b[:-1])
print('verify after truncating OLD full', run(['-V','-r',repo]))
