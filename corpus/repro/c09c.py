import os, tempfile, shutil, logging
logging.disable(logging.CRITICAL)
from ZODB.FileStorage import FileStorage
from ZODB.Connection import TransactionMetaData
from ZODB.utils import p64, z64
d = tempfile.mkdtemp()
try:
    fn = os.path.join(d, 'x.fs')
    fs = FileStorage(fn)
    tids = []
    for i in range(4):
        t = TransactionMetaData(); fs.tpc_begin(t, p64(1000 + i)); fs.store(p64(i + 1), z64, b'x' * 10, '', t); fs.tpc_vote(t); tids.append(fs.tpc_finish(t))
    # a writer is in the middle of its vote write (or crashed there): 40 bytes of the next transaction on disk
    t = TransactionMetaData(); fs.tpc_begin(t, p64(2000)); fs.store(p64(9), z64, b'y' * 50, '', t); fs.tpc_vote(t)
    img = open(fn, 'rb').read()
    fs.tpc_abort(t); fs.close()
    cut = os.path.join(d, 'cut.fs'); open(cut, 'wb').write(img[:len(img) - 20])
    ro = FileStorage(cut, read_only=True)
    try:
        got = [x.tid for x in ro.iterator(tids[2])]
    except Exception as e:
        raise AssertionError('C09/C04 defect: read-only iterator(start) on a file with an unfinished tail raises %r' % (e,))
    assert got == tids[2:], got
    print('OK')
finally:
    shutil.rmtree(d)
