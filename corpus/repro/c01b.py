import os, tempfile, shutil, logging
logging.disable(logging.CRITICAL)
from ZODB.FileStorage import FileStorage
from ZODB.Connection import TransactionMetaData
from ZODB.utils import p64, z64
d = tempfile.mkdtemp()
try:
    fn = os.path.join(d, 'x.fs')
    fs = FileStorage(fn)
    t = TransactionMetaData(); fs.tpc_begin(t, p64(1000)); fs.store(p64(1), z64, b'x', '', t); fs.tpc_vote(t); fs.tpc_finish(t)
    fs.close()
    with open(fn, 'ab') as f: f.write(b'\x03\xd5\x00')      # 3 bytes of the next vote write reached the disk
    ro = FileStorage(fn, read_only=True)
    try:
        n = len(list(ro.iterator()))
    except Exception as e:
        raise AssertionError('C01/C09 defect: read-only iteration of a file with a short torn tail raises %r' % (e,))
    assert n == 1
    print('OK')
finally:
    shutil.rmtree(d)
