"""Finding (C08, BlobStorage wrapper): BlobStorage.pack() removes the blob file of a transaction that is
IN FLIGHT while the pack runs.  _packUndoing walks every blob file in the blob directory and removes the
ones whose revision `loadSerial` cannot find; a blob stored by a transaction that has voted/stored but not
yet finished is already in place (storeBlob moves it there) but not yet loadable, so it is removed.  The
commit then finishes normally and leaves a committed blob record WITHOUT its file:
loadBlob raises POSKeyError('No blob file'), readers of the blob fail.
(FileStorage(blob_dir=...) is not affected: its pack tags files from the records it drops.)
Deterministic, single thread: the base pack frees nothing here, so it never needs the commit lock
(with data to free the pack of the wrapped FileStorage waits for the commit lock; the removal then hits
transactions that begin while _packUndoing walks the directory — seen in the scheduler runs).
exit 0: property holds, exit 1: violated.
"""
import logging, os, shutil, sys, tempfile, time
from ZODB.FileStorage import FileStorage
from ZODB.blob import BlobStorage
from ZODB.Connection import TransactionMetaData
from ZODB.serialize import referencesf
from ZODB.utils import z64
from ZODB.tests.StorageTestBase import zodb_pickle
from ZODB.blob import Blob
import transaction, ZODB
logging.disable(logging.CRITICAL)
d = tempfile.mkdtemp()
ok = False
try:
    if 'mapping' in sys.argv[1:]:       # non-undo base: BlobStorage._packNonUndoing
        from ZODB.MappingStorage import MappingStorage
        st = BlobStorage(os.path.join(d, 'blobs'), MappingStorage())
    else:
        st = BlobStorage(os.path.join(d, 'blobs'), FileStorage(os.path.join(d, 'Data.fs')))
    db = ZODB.DB(st)        # only the root transaction: the base pack frees nothing
    oid = st.new_oid()
    src = os.path.join(d, 'incoming'); open(src, 'wb').write(b'blob data')
    t = TransactionMetaData()
    st.tpc_begin(t)
    st.storeBlob(oid, z64, zodb_pickle(Blob()), src, '', t)      # blob file moved into the blob directory
    st.pack(time.time(), referencesf)                            # a pack while the transaction is in flight
    st.tpc_vote(t); tid = st.tpc_finish(t)                       # the commit succeeds
    try:
        data = open(st.loadBlob(oid, tid), 'rb').read()
        print('blob reads', data); ok = data == b'blob data'
    except Exception as e:
        print('committed blob cannot be read: %s: %s' % (type(e).__name__, e))
    db.close()
finally:
    shutil.rmtree(d)
print('OK' if ok else 'C08 defect: the pack removed the blob file of a transaction in flight')
sys.exit(0 if ok else 1)
