"""Observation (C08): an undo committed WHILE a pack runs makes the pack abort with AssertionError
(fspack.copyOne: `assert tlen == th.tlen`) when the undone transaction X is at or before the pack
time and inside the packer's file_end snapshot: the revision the undo record points back to was
superseded at the pack time, so it is not copied; copyRest's PackCopier then cannot keep the back
pointer and writes the full pickle, the copied transaction gets longer than its header says.
(If the transaction holding that revision is dropped entirely the pack raises PackError("Invalid
backpointer transaction id") instead — drop the `r['b'] = …` below to see it.)
With assertions enabled the pack fails cleanly (database unchanged and usable — allowed by the
property's third sentence).  With `python -O` the assert is skipped: the packed file gets a
transaction whose header length disagrees with its records and trailer.
Deterministic: the undo is committed from inside copyToPacktime (no locks held there).
Usage:  python undo_during_pack.py        (and: python -O undo_during_pack.py)
"""
import base64, logging, os, shutil, sys, tempfile, time
import transaction, ZODB
from ZODB.FileStorage import FileStorage
from ZODB.FileStorage.fspack import FileStoragePacker
from persistent.mapping import PersistentMapping
logging.disable(logging.CRITICAL)
d = tempfile.mkdtemp()
try:
    p = os.path.join(d, 'Data.fs')
    db = ZODB.DB(FileStorage(p)); c = db.open(); r = c.root()
    r['a'] = PersistentMapping(v=0); transaction.commit()
    r['a']['v'] = 1; r['b'] = PersistentMapping(); transaction.commit()   # kept by the pack because of b
    r['a']['v'] = 2; transaction.commit(); X = r['a']._p_serial        # X: to be undone
    time.sleep(0.01); T = time.time()                                   # pack time after X
    orig = FileStoragePacker.copyToPacktime
    def hooked(self):
        db.undo(base64.encodebytes(X).rstrip()); transaction.commit()   # undo X during the pack
        return orig(self)
    FileStoragePacker.copyToPacktime = hooked
    try:
        db.pack(T); outcome = 'pack completed'
    except Exception as e:
        outcome = 'pack raised %s' % type(e).__name__
    finally:
        FileStoragePacker.copyToPacktime = orig
    c.sync(); print(outcome, '| a.v =', r['a']['v'], '| asserts', 'on' if __debug__ else 'OFF')
    db.close()
    ok = False
    try:
        os.remove(p + '.index')
        fs = FileStorage(p); n = len(list(fs.iterator())); v = ZODB.DB(fs).open().root()['a']['v']
        print('reopen: %d transactions, a.v = %r' % (n, v)); fs.close()
        ok = v == 1
    except Exception as e:
        print('reopen FAILED: %s: %s' % (type(e).__name__, e))
    print('OK' if ok else 'C08 defect: the pack installed a damaged file')
finally:
    shutil.rmtree(d)
sys.exit(0 if ok else 1)
