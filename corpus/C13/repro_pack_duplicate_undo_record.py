"""Genuine defect on the unchanged tree (found by ./check C13 --tier thorough, seed 2), signature
`C13:pack-removes-blob-of-duplicated-record`.

DB.undoMultiple([t2, t1]) on one blob leaves TWO records (b, tu) in the undo transaction (the first is
superseded).  A later rewrite t3 is undone AFTER the pack time P, so its record points back at the second
(b, tu) record, which the pack therefore keeps (GC.reach_ex).  The first, unreachable duplicate makes
fspack.copyDataRecords tag oid+tid for removal: its `is_dup` test looks only at gc.reachable[oid] (the
revision current at P), not at gc.reach_ex[oid] — the blob file of the KEPT revision (b, tu) is deleted.
Possible repair (4 lines, fspack.copyDataRecords): also set is_dup when a position in
self.gc.reach_ex.get(h.oid, ()) carries the same tid.

Run: PYTHONPATH=/repo/src /venv/bin/python corpus/C13/repro_pack_duplicate_undo_record.py
"""
import os, tempfile, shutil, logging, time, transaction, ZODB
logging.disable(logging.CRITICAL)
from base64 import encodebytes
from ZODB.FileStorage import FileStorage
from ZODB.blob import Blob
from ZODB.utils import u64
d = tempfile.mkdtemp()
try:
    fs = FileStorage(os.path.join(d,'Data.fs'), blob_dir=os.path.join(d,'blobs'))
    db = ZODB.DB(fs); c = db.open(); r = c.root()
    b = Blob(); b.open('w').write(b'zero'); r['b'] = b; transaction.commit()
    with b.open('w') as f: f.write(b'one')
    transaction.commit(); t1 = db.lastTransaction()
    with b.open('w') as f: f.write(b'two')
    transaction.commit(); t2 = db.lastTransaction()
    db.undoMultiple([encodebytes(t).rstrip() for t in (t2, t1)]); transaction.commit(); tu = db.lastTransaction()   # two records of b in one txn
    c.sync()
    with b.open('w') as f: f.write(b'three')
    transaction.commit(); t3 = db.lastTransaction()
    time.sleep(0.01); P = time.time(); time.sleep(0.01)
    db.undo(encodebytes(t3).rstrip()); transaction.commit()      # after P: back pointer to the undo revision (b, tu)
    db.pack(P)
    recs = [(u64(x.tid) == u64(tu)) for t in fs.iterator() for x in t if x.oid == b._p_oid]
    print('record (b, tu) still listed:', any(recs))
    try:
        print('file:', open(fs.loadBlob(b._p_oid, tu),'rb').read())
    except Exception as e:
        print('loadBlob(b, tu) raised', type(e).__name__)
    h = db.open(at=tu)
    try: print('snapshot at tu reads', h.root()['b'].open().read())
    except Exception as e: print('snapshot at tu: ', type(e).__name__, str(e)[:60])
finally:
    shutil.rmtree(d)
