"""Genuine defect of the unchanged legacy proxy BlobStorage(dir, FileStorage(path)) (outside C13's stated
quantifier; found by ./check C13 --tier thorough), signature `C13:legacy-proxy-redo-after-pack-loses-blob`.

BlobStorage.undo finds the blobs it has to copy by listing the files named after the UNDONE tid
(fshelper.getOIDsForSerial).  For the undo of a creation it therefore keeps a copy of the blob under the
undo tid "in case a user wishes to undo this undo".  But that revision is an un-creation, loadSerial of it
raises POSKeyError, so the next pack (_packUndoing: keep a file iff loadSerial succeeds) — ANY pack, even
one to a time before everything — deletes the copy.  A later redo (undo of the undo) finds no file named
after the un-creation's tid, copies nothing, and commits a blob record WITHOUT a blob file: the blob is
unreadable (POSKeyError 'No blob file').

Run: PYTHONPATH=/repo/src /venv/bin/python corpus/C13/repro_legacy_proxy_redo_after_pack.py
"""
import logging
import os
import shutil
import tempfile

import transaction
import ZODB
from ZODB.blob import Blob, BlobStorage
from ZODB.FileStorage import FileStorage

logging.disable(logging.CRITICAL)
d = tempfile.mkdtemp()
try:
    db = ZODB.DB(BlobStorage(os.path.join(d, 'blobs'), FileStorage(os.path.join(d, 'Data.fs'))))
    c = db.open()
    r = c.root()
    r['x'] = 1
    transaction.commit()
    b = Blob()
    b.open('w').write(b'data')
    r['b'] = b
    transaction.commit()                                   # T1 creates the blob
    db.undo(db.undoLog(0, 1)[0]['id'])
    transaction.commit()                                   # T2 = undo T1: un-creation, copy kept under T2
    db.pack(1.0)                                           # a pack to a time before everything
    db.undo(db.undoLog(0, 1)[0]['id'])
    transaction.commit()                                   # T3 = redo: record restored …
    c.sync()
    try:
        print('after the redo the blob reads', c.root()['b'].open().read())
    except Exception as e:
        print('after the redo reading the blob raised', type(e).__name__, str(e)[:70])   # … its file is not
finally:
    shutil.rmtree(d)
