"""Observation (record-only, NOT judged by ./check C13, no signature, no generated op).

FileStorage.tpc_finish(txn, f): if the finish callback `f` raises, the transaction is not committed
but the `finally` block already sets `_transaction = None`, so the tpc_abort(txn) that follows is
ignored as a foreign transaction: the <oid>/<tid>.blob file of the never-committed transaction stays
in the blob directory (dirty_oids keeps the entry until the next transaction's finish forgets it).
Out of contract: the two-phase-commit contract says the finish callback must not fail, and it is not
among C13's failure kinds (same ruling as for C05).  Possible repair (~5 lines): guard the callback in
FileStorage.tpc_finish — `try: f(tid)  except: self._abort(); self._clear_temp(); raise` — nothing of
_finish has run at that point.

Run: PYTHONPATH=/repo/src /venv/bin/python corpus/C13/observation_finish_callback_blob.py
Prints what is left; always exits 0.
"""
import logging
import os
import shutil
import tempfile

from ZODB.blob import Blob
from ZODB.Connection import TransactionMetaData
from ZODB.FileStorage import FileStorage
from ZODB.serialize import ObjectWriter
from ZODB.utils import z64

logging.disable(logging.CRITICAL)
d = tempfile.mkdtemp()
try:
    fs = FileStorage(os.path.join(d, 'Data.fs'), blob_dir=os.path.join(d, 'blobs'))
    t = TransactionMetaData()
    fs.tpc_begin(t)
    oid = fs.new_oid()
    tmp = os.path.join(fs.temporaryDirectory(), 'x.tmp')
    with open(tmp, 'wb') as fh:
        fh.write(b'data')
    fs.storeBlob(oid, z64, ObjectWriter().serialize(Blob()), tmp, '', t)
    fs.tpc_vote(t)

    def failing_callback(tid):
        raise RuntimeError('finish callback fails')

    try:
        fs.tpc_finish(t, failing_callback)
    except RuntimeError as e:
        print('tpc_finish raised:', e)
    fs.tpc_abort(t)
    left = [f for dp, _, fn in os.walk(os.path.join(d, 'blobs')) for f in fn if f.endswith('.blob')]
    nrec = sum(1 for tx in fs.iterator() for r in tx)
    print('committed records: %d   blob files left after tpc_abort: %r   dirty_oids: %r' % (nrec, left, fs.dirty_oids))
    fs.close()
finally:
    shutil.rmtree(d)
