"""C09:sanity-check-raises-on-stale-index — an index saved BEFORE a pack and put back next to the packed
file is not merely accepted (open defect C09:stale-index-across-pack) or ignored: when its pos is NOT a
transaction boundary of the packed file, _check_sanity takes 8 bytes of pickle data for a transaction
length, reads a "header" from the middle of a record and raises (UnicodeDecodeError from
TxnHeaderFromString; CorruptedDataError / ValueError('Non-zero version length') in other layouts) out of
FileStorage.__init__: the database cannot be opened at all until the .index is deleted.
Repaired in /repo (6e408fd: _restore_index treats an exception of the sanity check as "ignore the index");
exits 1 if it is back."""
import logging, os, shutil, sys, tempfile, time
from ZODB.FileStorage import FileStorage
from ZODB.Connection import TransactionMetaData
from ZODB.serialize import referencesf
from ZODB.utils import p64, z64
logging.disable(logging.CRITICAL)
# (tid, oid, pickle of a MinPO, description) of six transactions; the index is saved after the first
ROWS = [(276126952153154183, 5, '800358100000005a4f44422e74657374732e4d696e504f710058050000004d696e504f71018671024e8671032e80037d7104580500000076616c756571055828000000303030303030787878787878787878787878787878787878787878787878787878787878787878787106732e', '7980878e959ca3aab1b8'),
        (276126952153154184, 4, '800358100000005a4f44422e74657374732e4d696e504f710058050000004d696e504f71018671024e8671032e80037d7104580500000076616c75657105580c0000003030303030317878787878787106732e', ''),
        (276126952153154185, 5, '800358100000005a4f44422e74657374732e4d696e504f710058050000004d696e504f71018671024e8671032e80037d7104580500000076616c75657105581400000030303030303278787878787878787878787878787106732e', ''),
        (276126952153154186, 2, '800358100000005a4f44422e74657374732e4d696e504f710058050000004d696e504f71018671024e8671032e80037d7104580500000076616c7565710558090000003030303030337878787106732e', ''),
        (276126952153154188, 4, '800358100000005a4f44422e74657374732e4d696e504f710058050000004d696e504f71018671024e8671032e80037d7104580500000076616c756571055807000000303030303034787106732e', ''),
        (276126952153154444, 4, '800358100000005a4f44422e74657374732e4d696e504f710058050000004d696e504f71018671024e8671032e80037d7104580500000076616c7565710558270000003030303030357878787878787878787878787878787878787878787878787878787878787878787106732e', '')]
d = tempfile.mkdtemp(); fn = os.path.join(d, 'Data.fs')
fs = FileStorage(fn)
serial = {}
for i, (tid, oid, data, desc) in enumerate(ROWS):
    t = TransactionMetaData(description=bytes.fromhex(desc))
    fs.tpc_begin(t, tid=p64(tid)); fs.store(p64(oid), serial.get(oid, z64), bytes.fromhex(data), '', t)
    fs.tpc_vote(t); fs.tpc_finish(t); serial[oid] = p64(tid)
    if i == 0:
        fs._save_index(); shutil.copy(fn + '.index', fn + '.index.saved')
fs.pack(time.time(), referencesf, gc=False)
fs.close()
shutil.copy(fn + '.index.saved', fn + '.index')
try:
    fs = FileStorage(fn); used = fs._used_index; fs.close(); bad = False
except Exception as e:
    used, bad = repr(e), True
shutil.rmtree(d)
print('reopen of the packed file next to the pre-pack index:', used)
sys.exit(1 if bad else 0)
