"""Reproducer of C09:stale-index-across-pack (open defect, DESIGN section 5 item 9).
T1a={C}, T1b={A}; save index; T2a={D}, T2b={A}, T2c={C}; pack(gc=False) — equal-size transactions, so
the packed file (T2a,T2b,T2c) has a transaction boundary at the saved pos and A's record where the
old index says; restore the pre-pack .index; reopen: the index passes _check_sanity, D is missing."""
import logging
import os
import shutil
import sys
import tempfile
import time

from ZODB.FileStorage import FileStorage
from ZODB.Connection import TransactionMetaData
from ZODB.POSException import POSKeyError
from ZODB.serialize import referencesf
from ZODB.tests.MinPO import MinPO
from ZODB.tests.StorageTestBase import zodb_pickle
from ZODB.utils import p64, z64

logging.disable(logging.CRITICAL)
A, C, D = p64(1), p64(2), p64(3)
d = tempfile.mkdtemp()
fn = os.path.join(d, 'Data.fs')
fs = FileStorage(fn)
serial = {}


def commit(i, oid):
    t = TransactionMetaData()
    tid = p64(0x03d5000000000000 + i)
    fs.tpc_begin(t, tid=tid)
    fs.store(oid, serial.get(oid, z64), zodb_pickle(MinPO(7)), '', t)
    fs.tpc_vote(t)
    fs.tpc_finish(t)
    serial[oid] = tid


commit(1, C)
commit(2, A)
fs._save_index()
shutil.copy(fn + '.index', fn + '.index.saved')
commit(3, D)
commit(4, A)
commit(5, C)
fs.pack(time.time(), referencesf, gc=False)
fs.close()
shutil.copy(fn + '.index.saved', fn + '.index')          # the pre-pack index comes back (backup / crash
fs = FileStorage(fn)                                      # between the pack renames and _save_index)
used = fs._used_index
try:
    fs.load(D)
    lost = False
except POSKeyError:
    lost = True
in_scan = D in [r.oid for t in fs.iterator() for r in t]
fs.close()
shutil.rmtree(d)
print('index used: %s; load(D) raises POSKeyError: %s; a scan of the file finds D: %s' % (used, lost, in_scan))
sys.exit(1 if (lost and in_scan) else 0)
