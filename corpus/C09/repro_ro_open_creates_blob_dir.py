"""C09 candidate finding `C09:ro-open-creates-blob-dir`: FileStorage(path, read_only=True, blob_dir=D) — also through
a <filestorage> section with `read-only true` and `blob-dir D` — calls FilesystemHelper.create(): when D (or D/tmp, or
D/.layout) is missing it CREATES the directory, the tmp directory and writes the .layout marker.  "Opening a database
read-only modifies no file"; on read-only media the open fails instead.  Exits 1 while present."""
import logging, os, shutil, sys, tempfile
from ZODB.FileStorage import FileStorage
from ZODB.Connection import TransactionMetaData
from ZODB.utils import p64, z64
logging.disable(logging.CRITICAL)


def tree(d):
    return sorted(os.path.relpath(os.path.join(dp, x), d) for dp, dn, fn in os.walk(d) for x in dn + fn)


d = tempfile.mkdtemp(); fn = os.path.join(d, 'Data.fs')
fs = FileStorage(fn)
t = TransactionMetaData(); fs.tpc_begin(t); fs.store(p64(1), z64, b'x', '', t); fs.tpc_vote(t); fs.tpc_finish(t); fs.close()
before = tree(d)
ro = FileStorage(fn, read_only=True, blob_dir=os.path.join(d, 'blobs'))
ro.close()
after = tree(d)
shutil.rmtree(d)
print('created by the read-only open:', [x for x in after if x not in before])
sys.exit(1 if after != before else 0)
