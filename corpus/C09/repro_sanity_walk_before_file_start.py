"""C09:sanity-walk-before-file-start (repaired in /repo 16ce80f; exits 1 if it is back).
Only empty transactions precede the saved index position (>= 100): _check_sanity walked back to the
first transaction and then seeked to offset -4; the open raised OSError although the index is valid."""
import logging, os, shutil, sys, tempfile
from ZODB.FileStorage import FileStorage
from ZODB.Connection import TransactionMetaData
from ZODB.utils import p64
logging.disable(logging.CRITICAL)
d = tempfile.mkdtemp(); fn = os.path.join(d, 'Data.fs')
fs = FileStorage(fn)
for i in range(3):
    t = TransactionMetaData(description='x' * 40); fs.tpc_begin(t, tid=p64(1000 + i)); fs.tpc_vote(t); fs.tpc_finish(t)
fs.close()
try:
    fs = FileStorage(fn); n = len(list(fs.iterator())); fs.close(); bad = False
except Exception as e:
    n, bad = repr(e), True
shutil.rmtree(d)
print('reopen with the index saved at close:', n)
sys.exit(1 if bad else 0)
