"""Recording / fault-injecting file layer under ZODB's file I/O (no source hooks).

`install(recorder)` rebinds the name `open` in the ZODB modules that do file I/O, the module-global
`fsync` of ZODB.FileStorage.FileStorage, and wraps `os.rename/replace/remove/unlink/link/rmdir/
mkdir/truncate/makedirs` (only paths below the recorder's root are recorded / faulted; everything
else passes through).  Files are real files; the layer wraps the RAW `io.FileIO` underneath Python's
buffering, so it sees exactly the low-level sequence

    ('create', path)                 file created or truncated to 0 by open(…,'w')
    ('write',  path, offset, bytes)  one raw write
    ('trunc',  path, size)
    ('fsync',  path)
    ('rename', src, dst) ('remove', path) ('link', src, dst) ('mkdir', path) ('rmdir', path)
    ('mark',   label)                inserted by the harness (`rec.mark('ret finish 3')`)

(paths relative to the root).  It can
  (a) materialise the directory image after any event prefix plus any byte-prefix of the next
      write: `materialize(initial, events, k, nbytes, dest)`;
  (b) raise OSError at the k-th mutating raw operation: `rec.fail_at = k` (1-based; optionally
      `rec.fail_partial = n`: that write is a SHORT write of n bytes and the next mutating raw
      operation fails, as an OS would do it);
  (c) refuse any mutation: `rec.readonly_guard = True` (records ('VIOLATED-RO', …) and raises);
  (d) call `rec.on_event(ev)` before each operation (used by sched.vfs_hook for yield points).
Active only inside the harness process (guard ZODB_VERIF=1).
"""
import builtins
import contextlib
import errno
import io
import os
import shutil
import sys

MUTATING = ('create', 'write', 'trunc', 'rename', 'remove', 'link', 'mkdir', 'rmdir')

_real_open = builtins.open
_real_os = {n: getattr(os, n) for n in ('rename', 'replace', 'remove', 'unlink', 'link', 'rmdir',
                                         'mkdir', 'makedirs', 'truncate', 'fsync')}


class Recorder:
    def __init__(self, root):
        self.root = os.path.realpath(root)
        self.events = []
        self.nmut = 0
        self.fail_at = None
        self.fail_partial = 0
        self.fail_errno = errno.ENOSPC
        self.readonly_guard = False
        self.on_event = None
        self.fd_path = {}
        self.enabled = True

    def rel(self, path):
        try:
            p = os.path.realpath(os.fspath(path))
        except TypeError:
            return None
        if p == self.root:
            return '.'
        if p.startswith(self.root + os.sep):
            return p[len(self.root) + 1:]
        return None

    def mark(self, label):
        self.events.append(('mark', label))

    def before(self, ev):
        """called before a mutating/fsync operation is performed; may raise the injected fault"""
        if not self.enabled:
            return 0
        if self.on_event is not None:
            self.on_event(ev)
        if ev[0] in MUTATING:
            if self.readonly_guard:
                self.events.append(('VIOLATED-RO',) + ev)
                raise OSError(errno.EROFS, 'vfs read-only guard: %r' % (ev[:2],))
            self.nmut += 1
            if self.fail_at is not None and self.nmut == self.fail_at:
                self.events.append(('fault', self.nmut) + ev[:2])
                if ev[0] == 'write' and self.fail_partial:
                    # realistic short write: this raw write returns a short count, the NEXT
                    # mutating raw operation (the buffer layer's retry of the rest) fails
                    self.fail_at = self.nmut + 1
                    n, self.fail_partial = self.fail_partial, 0
                    return n
                raise OSError(self.fail_errno, 'vfs injected fault at op %d' % self.nmut)
        return 0

    def record(self, ev):
        if self.enabled:
            self.events.append(ev)

    def mutations(self):
        return [e for e in self.events if e[0] in MUTATING]


class RecFileIO(io.FileIO):
    def __init__(self, rec, relpath, name, mode):
        self._rec, self._rel = rec, relpath
        creating = 'w' in mode or 'x' in mode or ('a' in mode and not os.path.exists(name))
        existed = os.path.exists(name)
        if creating and ('w' in mode or not existed):
            rec.before(('create', relpath))
        io.FileIO.__init__(self, name, mode)
        if creating and ('w' in mode or not existed):
            rec.record(('create', relpath))
        self._append = 'a' in mode
        rec.fd_path[self.fileno()] = relpath

    def write(self, b):
        b = bytes(b)
        off = os.fstat(self.fileno()).st_size if self._append else self.tell()
        part = self._rec.before(('write', self._rel, off, b))
        if part:
            n = io.FileIO.write(self, b[:part]) or 0
            self._rec.record(('write', self._rel, off, b[:n]))
            return n
        n = io.FileIO.write(self, b)
        if n is None:
            n = 0
        self._rec.record(('write', self._rel, off, b[:n]))
        return n

    def truncate(self, size=None):
        if size is None:
            size = self.tell()
        self._rec.before(('trunc', self._rel, size))
        r = io.FileIO.truncate(self, size)
        self._rec.record(('trunc', self._rel, size))
        return r

    def close(self):
        try:
            self._rec.fd_path.pop(self.fileno(), None)
        except Exception:
            pass
        return io.FileIO.close(self)


def make_open(rec):
    def vopen(file, mode='r', buffering=-1, encoding=None, errors=None, newline=None,
              closefd=True, opener=None):
        relp = rec.rel(file) if isinstance(file, (str, bytes, os.PathLike)) else None
        if relp is None or opener is not None or not rec.enabled:
            return _real_open(file, mode, buffering, encoding, errors, newline, closefd, opener)
        binary = 'b' in mode
        rawmode = mode.replace('b', '').replace('t', '')
        raw = RecFileIO(rec, relp, file, rawmode)
        if buffering == 0:
            if not binary:
                raise ValueError("can't have unbuffered text I/O")
            return raw
        bufsize = buffering if buffering > 0 else io.DEFAULT_BUFFER_SIZE
        if '+' in rawmode:
            buf = io.BufferedRandom(raw, bufsize)
        elif 'r' in rawmode:
            buf = io.BufferedReader(raw, bufsize)
        else:
            buf = io.BufferedWriter(raw, bufsize)
        if binary:
            return buf
        return io.TextIOWrapper(buf, encoding, errors, newline, line_buffering=(buffering == 1))
    return vopen


def _wrap_os(rec):
    def rename(src, dst, **kw):
        a, b = rec.rel(src), rec.rel(dst)
        if a is None and b is None:
            return _real_os['rename'](src, dst, **kw)
        rec.before(('rename', a, b))
        r = _real_os['rename'](src, dst, **kw)
        rec.record(('rename', a, b))
        return r

    def replace(src, dst, **kw):
        a, b = rec.rel(src), rec.rel(dst)
        if a is None and b is None:
            return _real_os['replace'](src, dst, **kw)
        rec.before(('rename', a, b))
        r = _real_os['replace'](src, dst, **kw)
        rec.record(('rename', a, b))
        return r

    def remove(path, **kw):
        a = rec.rel(path)
        if a is None:
            return _real_os['remove'](path, **kw)
        rec.before(('remove', a))
        r = _real_os['remove'](path, **kw)
        rec.record(('remove', a))
        return r

    def link(src, dst, **kw):
        a, b = rec.rel(src), rec.rel(dst)
        if b is None:
            return _real_os['link'](src, dst, **kw)
        rec.before(('link', a, b))
        r = _real_os['link'](src, dst, **kw)
        rec.record(('link', a, b))
        return r

    def rmdir(path, **kw):
        a = rec.rel(path)
        if a is None:
            return _real_os['rmdir'](path, **kw)
        rec.before(('rmdir', a))
        r = _real_os['rmdir'](path, **kw)
        rec.record(('rmdir', a))
        return r

    def mkdir(path, *args, **kw):
        a = rec.rel(path)
        if a is None:
            return _real_os['mkdir'](path, *args, **kw)
        rec.before(('mkdir', a))
        r = _real_os['mkdir'](path, *args, **kw)
        rec.record(('mkdir', a))
        return r

    def truncate(path, length):
        a = rec.rel(path) if isinstance(path, (str, bytes, os.PathLike)) else rec.fd_path.get(path)
        if a is None:
            return _real_os['truncate'](path, length)
        rec.before(('trunc', a, length))
        r = _real_os['truncate'](path, length)
        rec.record(('trunc', a, length))
        return r

    def fsync(fd):
        a = rec.fd_path.get(fd)
        if a is not None:
            rec.before(('fsync', a))
        r = _real_os['fsync'](fd)
        if a is not None:
            rec.record(('fsync', a))
        return r

    return dict(rename=rename, replace=replace, remove=remove, unlink=remove, link=link,
                rmdir=rmdir, mkdir=mkdir, truncate=truncate, fsync=fsync)


OPEN_MODULES = ['ZODB.FileStorage.FileStorage', 'ZODB.FileStorage.fspack', 'ZODB.FileStorage.format',
                'ZODB.fsIndex', 'ZODB.blob', 'ZODB.utils', 'ZODB.Connection', 'ZODB.fsrecover',
                'ZODB.scripts.repozo', 'ZODB.fstools']


@contextlib.contextmanager
def install(rec):
    """Route the file I/O of the ZODB modules through `rec` until the context exits."""
    import importlib
    saved_open = {}
    vopen = make_open(rec)
    for name in OPEN_MODULES:
        try:
            importlib.import_module(name)
        except Exception:
            continue
        m = sys.modules[name]
        saved_open[name] = m.__dict__.get('open', None)
        m.__dict__['open'] = vopen
    fsmod = sys.modules['ZODB.FileStorage.FileStorage']
    wrapped = _wrap_os(rec)
    saved_fsync = fsmod.__dict__.get('fsync')
    if saved_fsync is not None:
        fsmod.__dict__['fsync'] = wrapped['fsync']
    saved_os = {}
    for n, f in wrapped.items():
        if n == 'fsync':
            continue
        saved_os[n] = getattr(os, n)
        setattr(os, n, f)
    try:
        yield rec
    finally:
        for n, f in saved_os.items():
            setattr(os, n, f)
        if saved_fsync is not None:
            fsmod.__dict__['fsync'] = saved_fsync
        for name, o in saved_open.items():
            m = sys.modules[name]
            if o is None:
                m.__dict__.pop('open', None)
            else:
                m.__dict__['open'] = o


# ---------------------------------------------------------------- images
def snapshot(root):
    """{relpath: bytes} of every regular file below root (directories: relpath + '/': None)"""
    out = {}
    root = os.path.realpath(root)
    for dp, dns, fns in os.walk(root):
        for d in dns:
            out[os.path.relpath(os.path.join(dp, d), root) + '/'] = None
        for f in fns:
            p = os.path.join(dp, f)
            with _real_open(p, 'rb') as fh:
                out[os.path.relpath(p, root)] = fh.read()
    return out


def apply_events(image, events, nbytes_last=None):
    """Replay `events` on an image dict (mutated and returned).  If nbytes_last is not None the LAST
    event must be a write, of which only the first nbytes_last bytes are applied (torn write)."""
    n = len(events)
    for i, ev in enumerate(events):
        k = ev[0]
        if k == 'create':
            image[ev[1]] = b''
        elif k == 'write':
            data = ev[3]
            if nbytes_last is not None and i == n - 1:
                data = data[:nbytes_last]
            old = image.get(ev[1], b'')
            off = ev[2]
            if len(old) < off:
                old = old + b'\0' * (off - len(old))
            image[ev[1]] = old[:off] + data + old[off + len(data):]
        elif k == 'trunc':
            old = image.get(ev[1], b'')
            image[ev[1]] = old[:ev[2]] + b'\0' * max(0, ev[2] - len(old))
        elif k == 'rename':
            if ev[1] in image:
                image[ev[2]] = image.pop(ev[1])
            else:                                   # directory rename
                pre = ev[1] + '/'
                for p in [p for p in image if p.startswith(pre) or p == pre]:
                    image[ev[2] + '/' + p[len(pre):] if p != pre else ev[2] + '/'] = image.pop(p)
        elif k == 'remove':
            image.pop(ev[1], None)
        elif k == 'link':
            if ev[1] in image:
                image[ev[2]] = image[ev[1]]
        elif k == 'mkdir':
            image[ev[1] + '/'] = None
        elif k == 'rmdir':
            image.pop(ev[1] + '/', None)
    return image


def write_image(image, dest):
    if os.path.exists(dest):
        shutil.rmtree(dest)
    os.makedirs(dest)
    for p in sorted(image):
        full = os.path.join(dest, p)
        if p.endswith('/'):
            os.makedirs(full, exist_ok=True)
        else:
            os.makedirs(os.path.dirname(full), exist_ok=True)
            with _real_open(full, 'wb') as f:
                f.write(image[p])


def materialize(initial, events, k, nbytes, dest):
    """image after the first k events of `events` (+ the first nbytes bytes of event k if it is a
    write and nbytes is not None), written below `dest`"""
    img = dict(initial)
    apply_events(img, events[:k])
    if nbytes is not None and k < len(events) and events[k][0] == 'write':
        apply_events(img, [events[k]], nbytes_last=nbytes)
    write_image(img, dest)
    return img
