"""Persistent classes used by the C06 (undo) check.

PL  - plain object, no conflict resolution (a later different change makes an undo fail)
RC  - resolvable object whose `_p_resolveConflict` is a deliberately ASYMMETRIC function of its three
      arguments (old, committed, new), so that any permutation of the arguments the storage passes
      changes the stored result.  The Lean driver (Drivers/Undo.lean, `rcResolve`) implements the same
      arithmetic on canonical tokens; the direct oracle calls `rc_resolve` below."""
from persistent import Persistent

from ZODB.POSException import ConflictError

MOD = 65521
CALLS = []          # (old, committed, new) of every resolver invocation, reset per case


def rc_resolve(o, c, n):
    """the merge; None = the class declares the conflict unresolvable"""
    if (o + 2 * c + 3 * n) % 7 == 3:
        return None
    return (2 * c + 3 * n + 4 * MOD - 4 * o) % MOD


class PL(Persistent):
    def __init__(self, v=0):
        self.v = v


class RC(Persistent):
    def __init__(self, v=0):
        self.v = v

    def _p_resolveConflict(self, old, committed, new):
        CALLS.append((old['v'], committed['v'], new['v']))
        r = rc_resolve(old['v'], committed['v'], new['v'])
        if r is None:
            # either way the storage must treat the conflict as unresolvable (and nothing else):
            # a resolver may fail with an exception of its own, e.g. AttributeError from a per-field
            # merge rule looked up with getattr
            if (old['v'] + committed['v'] + new['v']) % 2:
                raise AttributeError('no merge rule for this state')
            raise ConflictError
        return {'v': r}
